"""C10 probes: inputs on which the assumed contract of dill.Pickler.save (A13) is FALSE - pickle's save_tuple / class-by-value code looks
at the memo after the nested saves returned, which the lazy scheduler has not performed yet.  Each probe runs nrpickler.dumps on one such
input under a watchdog and prints one JSON line {"probe": ..., "outcome": "ok" | "hang" | "<ExceptionName>", "detail": ...}.
usage: python <this file> <repo root> <probe name>"""
import json
import sys
import faulthandler

root, which = sys.argv[1], sys.argv[2]
sys.path.insert(0, root)
vsp = "/venv/lib/python3.12/site-packages"
if vsp not in sys.path:
    sys.path.append(vsp)
import signal


class Hang(Exception):
    pass


def on_alarm(*_a):
    raise Hang()


signal.signal(signal.SIGALRM, on_alarm)
from edgegraph.structure import Vertex, DirectedEdge      # noqa: E402
from edgegraph.output import nrpickler                    # noqa: E402
import pickle                                             # noqa: E402
import dill                                               # noqa: E402

out = {"probe": which, "outcome": "ok", "detail": ""}
try:
    signal.alarm(15)
    if which == "self-containing-tuple":
        # an attribute holding a tuple that (indirectly) contains itself; pickle.dumps / dill.dumps handle it
        v = Vertex()
        box = []
        t = (box, 1)
        box.append(t)
        v.payload = t
        ref = dill.dumps(v)
        data = nrpickler.dumps(v)
        c = pickle.loads(data)
        assert c.payload[0][0] is c.payload, "sharing of the self-containing tuple lost"
    elif which == "class-by-value-with-super":
        # a Vertex subclass that dill pickles by value (defined in __main__) whose __init__ uses super(): the class refers to itself
        # through the __class__ cell of the function; dill.dumps handles it
        class City(Vertex):
            def __init__(self, name, **kw):
                super().__init__(**kw)
                self.name = name
        City.__module__ = "__main__"
        City.__qualname__ = "City"
        sys.modules["__main__"].City = City
        a, b = City("a"), City("b")
        DirectedEdge(a, b)
        ref = dill.dumps(a)
        data = nrpickler.dumps(a)
        c = dill.loads(data)
        assert type(c).__name__ == "City" and c.name == "a" and [l.v2.name for l in c.links] == ["b"]
    else:
        out["outcome"] = "unknown-probe"
    signal.alarm(0)
except Hang:
    out["outcome"] = "hang"
    out["detail"] = "nrpickler.dumps did not return within 15 s (the drain loop keeps re-queueing)"
except BaseException as exc:          # noqa: BLE001
    signal.alarm(0)
    out["outcome"] = type(exc).__name__
    out["detail"] = str(exc)[:300]
print(json.dumps(out))
sys.exit(0 if out["outcome"] == "ok" else 1)
