/-
C10: the work-list scheduler of `_NonrecursivePickler` (edgegraph/output/nrpickler.py).

`realsave(o)` is abstracted as a token list `body o R` (R = the real events so far) that it feeds, in order, to the three
overridden entry points: `write` (W), `memoize` (M), `save` (S).  `applyTok` is what those entry points do to the pending queue Q
and to the real event trace R (their verified contracts): with a non-empty queue everything is appended to the queue, with an empty
queue writes and memoisations are performed at once and the first `save` starts the queue.
`Exec` is the depth-first, left-to-right execution of a queue - what a recursive pickler does.  The lemma `exec_apply` is the fact
the loop invariants of `dump` use: running `realsave` on an empty queue and then continuing with what it left in the queue, followed
by the rest, is the same as expanding its tokens in place.
-/
namespace PyVC.Sched

inductive Tok (α : Type) where
  | W (a : α) | M (x : α) | S (c : α)

inductive Ev (α : Type) where
  | RW (a : α) | RM (x : α)

variable {α : Type}

def applyTok : List (Tok α) → List (Tok α) → List (Ev α) → List (Tok α) × List (Ev α)
  | [], Q, R => (Q, R)
  | Tok.W a :: t, Q, R => if Q = [] then applyTok t Q (R ++ [Ev.RW a]) else applyTok t (Q ++ [Tok.W a]) R
  | Tok.M x :: t, Q, R => if Q = [] then applyTok t Q (R ++ [Ev.RM x]) else applyTok t (Q ++ [Tok.M x]) R
  | Tok.S c :: t, Q, R => applyTok t (Q ++ [Tok.S c]) R

/-- depth-first execution (big-step, so that non-terminating expansions simply have no result) -/
inductive Exec (body : α → List (Ev α) → List (Tok α)) : List (Tok α) → List (Ev α) → List (Ev α) → Prop where
  | nil (R) : Exec body [] R R
  | w (a q R T) : Exec body q (R ++ [Ev.RW a]) T → Exec body (Tok.W a :: q) R T
  | m (x q R T) : Exec body q (R ++ [Ev.RM x]) T → Exec body (Tok.M x :: q) R T
  | s (c q R T) : Exec body (body c R ++ q) R T → Exec body (Tok.S c :: q) R T

/-- with a non-empty queue every token is queued -/
theorem apply_nonempty (t Q : List (Tok α)) (R : List (Ev α)) (h : Q ≠ []) : applyTok t Q R = (Q ++ t, R) := by
  induction t generalizing Q with
  | nil => simp [applyTok]
  | cons tok t ih =>
    cases tok with
    | W a => simp [applyTok, h]; rw [ih (Q ++ [Tok.W a]) (by simp)]; simp
    | M x => simp [applyTok, h]; rw [ih (Q ++ [Tok.M x]) (by simp)]; simp
    | S c => simp [applyTok]; rw [ih (Q ++ [Tok.S c]) (by simp)]; simp

/-- the scheduler lemma: expanding tokens in place = feeding them to the entry points on an empty queue and continuing -/
theorem exec_apply (body : α → List (Ev α) → List (Tok α)) (t rest : List (Tok α)) (R T : List (Ev α)) :
    Exec body (t ++ rest) R T ↔ Exec body ((applyTok t [] R).1 ++ rest) (applyTok t [] R).2 T := by
  induction t generalizing R with
  | nil => simp [applyTok]
  | cons tok t ih =>
    cases tok with
    | W a =>
      simp only [applyTok, if_true, List.cons_append]
      constructor
      · intro h; cases h with | w _ _ _ _ h' => exact (ih _).mp h'
      · intro h; exact Exec.w _ _ _ _ ((ih _).mpr h)
    | M x =>
      simp only [applyTok, if_true, List.cons_append]
      constructor
      · intro h; cases h with | m _ _ _ _ h' => exact (ih _).mp h'
      · intro h; exact Exec.m _ _ _ _ ((ih _).mpr h)
    | S c =>
      simp only [applyTok, List.nil_append]
      rw [apply_nonempty t [Tok.S c] R (by simp)]
      simp

end PyVC.Sched
