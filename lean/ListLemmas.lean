/-
Lemma base behind the rewrite rules of /verif/pyvc/terms.py (DESIGN.md 3.5).
Python lists of references are modelled as `List α` with decidable equality (identity):
  s.append(y) = s ++ [y],  s.remove(y) = s.erase y,  x in s = x ∈ s,  [v for v in s if v is not y] = s.filter (· ≠ y),
  del s[i] = s.eraseIdx i,  s[i] = y  is  s.set i y,  [*dict.fromkeys(s)] = dedupFirst s,  fold of remove = List.diff.
Checked by `lean` (Lean 4 + Mathlib) on every thorough run and by setup.
-/
import Mathlib.Data.List.Basic
import Mathlib.Data.List.Count
import Mathlib.Data.List.Dedup
import Mathlib.Data.List.Perm.Basic
import Mathlib.Data.List.Induction
import Mathlib.Logic.Relation
import Mathlib.Data.List.Range

open List

variable {α : Type*} [DecidableEq α]

namespace PyVC

/-- Cnt over ++ : `cnt(s ++ t, x) = cnt(s, x) + cnt(t, x)` -/
theorem cnt_append (s t : List α) (x : α) : count x (s ++ t) = count x s + count x t := by
  simp [count_append]

theorem cnt_singleton (y x : α) : count x [y] = if y = x then 1 else 0 := by
  by_cases h : y = x <;> simp [h, count_singleton, eq_comm]

theorem cnt_nil (x : α) : count x ([] : List α) = 0 := by simp

/-- `x in s` is `cnt(s, x) >= 1` -/
theorem mem_iff_cnt_pos (s : List α) (x : α) : x ∈ s ↔ 1 ≤ count x s := by
  rw [Nat.succ_le_iff, count_pos_iff]

theorem cnt_le_length (s : List α) (x : α) : count x s ≤ s.length := count_le_length

/-- list.remove: `cnt(rem1(s, y), x) = cnt(s, x) - [x = y and y in s]` -/
theorem cnt_erase (s : List α) (y x : α) :
    count x (s.erase y) = count x s - (if x = y ∧ y ∈ s then 1 else 0) := by
  by_cases h : x = y
  · subst h
    by_cases hm : x ∈ s
    · simp [hm, count_erase_self]
    · simp [hm, erase_of_not_mem hm]
  · simp [h, count_erase_of_ne h]

theorem erase_of_not_mem' (s : List α) (y : α) (h : count y s = 0) : s.erase y = s := by
  apply erase_of_not_mem
  intro hm
  have := (mem_iff_cnt_pos s y).mp hm
  omega

theorem length_erase' (s : List α) (y : α) :
    (s.erase y).length = s.length - (if y ∈ s then 1 else 0) := by
  by_cases hm : y ∈ s
  · simp [hm, length_erase_of_mem hm]
  · simp [hm, erase_of_not_mem hm]

/-- erase over ++ (the rule used by `Rem1` on `head ++ last`) -/
theorem erase_append' (s t : List α) (y : α) :
    (s ++ t).erase y = if y ∈ s then s.erase y ++ t else s ++ t.erase y := by
  by_cases hm : y ∈ s
  · simp [hm, erase_append_left _ hm]
  · simp [hm, erase_append_right _ hm]

/-- `[v for v in s if v is not y]` -/
theorem cnt_filter_ne (s : List α) (y x : α) :
    count x (s.filter (fun v => decide (v ≠ y))) = if x = y then 0 else count x s := by
  by_cases h : x = y
  · subst h
    simp [count_filter]
    rw [count_eq_zero]
    simp
  · rw [count_filter]
    · simp [h]
    · simp [h]

theorem filter_ne_of_not_mem (s : List α) (y : α) (h : y ∉ s) : s.filter (fun v => decide (v ≠ y)) = s := by
  rw [filter_eq_self]
  intro a ha
  simp
  intro hay
  exact h (hay ▸ ha)

theorem filter_append' (p : α → Bool) (s t : List α) : (s ++ t).filter p = s.filter p ++ t.filter p := by
  simp

/-- an element read from a list is a member of it -/
theorem getElem_mem' (s : List α) (i : Nat) (h : i < s.length) : 1 ≤ count (s[i]) s := by
  rw [← mem_iff_cnt_pos]
  exact getElem_mem h

/-- first-occurrence de-duplication (`[*dict.fromkeys(s)]`) -/
def dedupFirst (l : List α) : List α := l.foldl (fun acc x => if x ∈ acc then acc else acc ++ [x]) []

theorem dedupFirst_snoc (s : List α) (x : α) :
    dedupFirst (s ++ [x]) = if x ∈ dedupFirst s then dedupFirst s else dedupFirst s ++ [x] := by
  unfold dedupFirst
  rw [foldl_append]
  rfl

theorem mem_dedupFirst (s : List α) (x : α) : x ∈ dedupFirst s ↔ x ∈ s := by
  induction s using List.reverseRecOn with
  | nil => simp [dedupFirst]
  | append_singleton s y ih =>
    rw [dedupFirst_snoc]
    by_cases hy : y ∈ dedupFirst s
    · simp [hy, ih]
      intro h
      subst h
      exact ih.mp hy
    · simp [hy, ih]

theorem nodup_dedupFirst (s : List α) : (dedupFirst s).Nodup := by
  induction s using List.reverseRecOn with
  | nil => simp [dedupFirst]
  | append_singleton s y ih =>
    rw [dedupFirst_snoc]
    by_cases hy : y ∈ dedupFirst s
    · simp [hy, ih]
    · simp [hy]
      refine nodup_append.mpr ⟨ih, by simp, ?_⟩
      intro a ha b hb
      simp at hb
      subst hb
      intro hab
      exact hy (hab ▸ ha)

/-- `cnt(dedup(s), x) = [x in s]` -/
theorem cnt_dedupFirst (s : List α) (x : α) : count x (dedupFirst s) = if x ∈ s then 1 else 0 := by
  by_cases hx : x ∈ s
  · simp [hx]
    exact count_eq_one_of_mem (nodup_dedupFirst s) ((mem_dedupFirst s x).mpr hx)
  · simp [hx]
    rw [count_eq_zero]
    exact fun h => hx ((mem_dedupFirst s x).mp h)

/-- fold of `remove` over a list = List.diff; counting is truncated subtraction -/
theorem cnt_diff (s p : List α) (x : α) : count x (s.diff p) = count x s - count x p := count_diff x s p

theorem diff_snoc (s p : List α) (x : α) : s.diff (p ++ [x]) = (s.diff p).erase x := by
  rw [diff_append]
  simp [diff_cons_right]

/-- NB is a fold (flatMap) of per-link contributions: it only depends on the contributions of the links listed -/
theorem nb_congr {β : Type*} (s : List α) (f g : α → List β) (h : ∀ l ∈ s, f l = g l) :
    s.flatMap f = s.flatMap g := by
  induction s with
  | nil => simp
  | cons a s ih =>
    simp [flatMap_cons]
    rw [h a (by simp), ih (fun l hl => h l (by simp [hl]))]

/-- the least set containing `start` and closed under `step` is contained in every such set (C06) -/
theorem reach_subset_of_closed {V : Type*} (step : V → V → Prop) (start : V) (S : V → Prop)
    (h0 : S start) (hc : ∀ x w, S x → step x w → S w) :
    ∀ w, Relation.ReflTransGen step start w → S w := by
  intro w hw
  induction hw with
  | refl => exact h0
  | tail _ hbc ih => exact hc _ _ ih hbc

/-- item assignment `s[i] = y` -/
theorem cnt_set (s : List α) (i : Nat) (y x : α) (h : i < s.length) :
    count x (s.set i y) = count x s - (if s[i] = x then 1 else 0) + (if y = x then 1 else 0) := by
  rw [count_set h]
  simp [beq_iff_eq]

theorem length_set' (s : List α) (i : Nat) (y : α) : (s.set i y).length = s.length := by simp

/-- `del s[i]` -/
theorem length_eraseIdx' (s : List α) (i : Nat) (h : i < s.length) : (s.eraseIdx i).length = s.length - 1 := by
  simp [length_eraseIdx, h]

/-- result filter `flt` -/
theorem cnt_filter (p : α → Bool) (s : List α) (x : α) :
    count x (s.filter p) = if p x then count x s else 0 := by
  by_cases h : p x
  · simp [h, count_filter h]
  · simp [h]
    rw [count_eq_zero]
    intro hm
    exact h (by simpa using (mem_filter.mp hm).2)

/-- C04 / C09 counting: contributions are [] or a singleton, so the number of occurrences of w in the fold is the number
of links contributing [w] -/
theorem count_flatMap_singleton {β : Type*} [DecidableEq β] (s : List α) (f : α → List β) (w : β)
    (hf : ∀ l ∈ s, (f l).length ≤ 1) :
    count w (s.flatMap f) = (s.filter (fun l => decide (f l = [w]))).length := by
  induction s with
  | nil => simp
  | cons a s ih =>
    have ha := hf a (by simp)
    have ih' := ih (fun l hl => hf l (by simp [hl]))
    rw [flatMap_cons, count_append, ih', filter_cons]
    match hfa : f a with
    | [] => simp [hfa]
    | [b] =>
      by_cases hb : b = w
      · subst hb; simp [hfa]; omega
      · simp [hfa, hb]
    | b :: c :: r => simp [hfa] at ha

/-- two duplicate-free lists filtered by predicates that select the same elements have equally many survivors -/
theorem length_filter_eq_of_iff (s t : List α) (hs : s.Nodup) (ht : t.Nodup) (p q : α → Bool)
    (h : ∀ l, (l ∈ s ∧ p l = true) ↔ (l ∈ t ∧ q l = true)) :
    (s.filter p).length = (t.filter q).length := by
  apply Perm.length_eq
  apply (perm_ext_iff_of_nodup (hs.filter p) (ht.filter q)).mpr
  intro l
  simp [mem_filter]
  exact h l

/-- C04: with pointwise-equivalent contributions, w occurs among the FORWARD neighbours of v as often as v occurs among
the BACKWARD neighbours of w (both folds run over duplicate-free link lists) -/
theorem count_flatMap_singleton_of_pointwise {β : Type*} [DecidableEq β] (s t : List α) (f g : α → List β) (w v : β)
    (hs : s.Nodup) (ht : t.Nodup) (hf : ∀ l ∈ s, (f l).length ≤ 1) (hg : ∀ l ∈ t, (g l).length ≤ 1)
    (h : ∀ l, (l ∈ s ∧ f l = [w]) ↔ (l ∈ t ∧ g l = [v])) :
    count w (s.flatMap f) = count v (t.flatMap g) := by
  rw [count_flatMap_singleton s f w hf, count_flatMap_singleton t g v hg]
  apply length_filter_eq_of_iff s t hs ht
  intro l
  simpa using h l

end PyVC

/-! ### index facts used by the C15 invariants (contracts/output.py, marked [L]) -/

theorem idx_unique_of_count_le_one {α : Type} [DecidableEq α] :
    ∀ (l : List α) (x : α) (a b : Nat), l.count x ≤ 1 → (ha : a < l.length) → (hb : b < l.length) →
      l[a] = x → l[b] = x → a = b := by
  intro l
  induction l with
  | nil => intro x a b _ ha; simp at ha
  | cons y t ih =>
    intro x a b h ha hb h1 h2
    rw [List.count_cons] at h
    cases a with
    | zero =>
      cases b with
      | zero => rfl
      | succ b' =>
        simp at h1 h2
        have hb' : b' < t.length := by simpa using hb
        have : 0 < t.count x := List.count_pos_iff.mpr (by rw [← h2]; exact List.getElem_mem hb')
        subst h1
        simp at h
        omega
    | succ a' =>
      cases b with
      | zero =>
        simp at h1 h2
        have ha' : a' < t.length := by simpa using ha
        have : 0 < t.count x := List.count_pos_iff.mpr (by rw [← h1]; exact List.getElem_mem ha')
        subst h2
        simp at h
        omega
      | succ b' =>
        simp at h1 h2
        have ha' : a' < t.length := by simpa using ha
        have hb' : b' < t.length := by simpa using hb
        have hc : t.count x ≤ 1 := by
          have := h
          split at this <;> omega
        have := ih x a' b' hc ha' hb' h1 h2
        omega

theorem mem_range_succ_iff (k i : Nat) : i ∈ List.range (k + 1) ↔ i ∈ List.range k ∨ i = k := by
  simp [List.mem_range]; omega

/-! ### C14 (PlantUML): the link collection `INC` and the mapped sequences `DECLS` / `RELS` / attribute lines -/

/-- INC(q, l) := some vertex of q lists l.  Snoc unfolding used by the loop invariant. -/
theorem inc_snoc {α β : Type} [DecidableEq β] (links : α → List β) (q : List α) (v : α) (l : β) :
    (q ++ [v]).any (fun w => decide (l ∈ links w)) = (q.any (fun w => decide (l ∈ links w)) || decide (l ∈ links v)) := by
  simp [List.any_append]

/-- a link listed by a member is collected: with I1 (a link is listed by each of its ends) every internal link has INC. -/
theorem inc_of_mem {α β : Type} [DecidableEq β] (links : α → List β) (q : List α) (v : α) (l : β)
    (hv : v ∈ q) (hl : l ∈ links v) : q.any (fun w => decide (l ∈ links w)) = true := by
  simp only [List.any_eq_true, decide_eq_true_eq]
  exact ⟨v, hv, hl⟩

/-- DECLS / RELS: map over the processed prefix, snoc unfolding. -/
theorem map_snoc {α γ : Type} (f : α → γ) (q : List α) (v : α) : (q ++ [v]).map f = q.map f ++ [f v] := by
  simp

/-- a duplicate-free enumeration of a finite set lists each element exactly once (one relation line per collected link). -/
theorem count_eq_one_of_nodup_mem {β : Type} [DecidableEq β] (p : List β) (l : β) (hn : p.Nodup) (hm : l ∈ p) : p.count l = 1 :=
  List.count_eq_one_of_mem hn hm

/-- `lst += s` extends the list by pieces and `"".join` concatenates: join distributes over append. -/
theorem join_append_pieces (a b : List String) : String.join (a ++ b) = String.join a ++ String.join b :=
  String.join_append
