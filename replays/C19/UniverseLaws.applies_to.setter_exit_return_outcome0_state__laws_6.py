"""Failed proof obligation (pyvc). No concrete failing input was constructed for this obligation:
the solver model below is the verifier's counterexample to the verification condition.
"""
import json, sys
OBLIGATION = json.loads(r'''{
 "property": "C19",
 "obligation": "UniverseLaws.applies_to.setter/exit:return/outcome0/state:_laws#6",
 "function": "UniverseLaws.applies_to.setter",
 "source": "edgegraph/structure/universe.py:156",
 "source_sha256": "1df8ca25de35dda9c469c3cb9807f6b11f598979078b88caac1dafd0bc6d09d3",
 "clause": "post-state of field _laws",
 "path": "None._applies_to-if@160-None._applies_to-None._applies_to=-bool@168+None.laws-[laws:0]if@168+",
 "backend": "z3-5.1.0",
 "solver_model": {
  "class:UniverseLaws": "Cls!val!1",
  "k__laws!18": "Ref!val!3",
  "class:DirectedEdge": "Cls!val!8",
  "class:BaseObject": "Cls!val!4",
  "class:Universe": "Cls!val!3",
  "class:TwoEndedLink": "Cls!val!7",
  "class:Vertex": "Cls!val!5",
  "class:UnDirectedEdge": "Cls!val!9",
  "True": "Ref!val!5",
  "None": "Ref!val!4",
  "Vertex._QA_NB_INVALID": "Ref!val!2",
  "False": "Ref!val!6",
  "new": "Ref!val!0",
  "class:Link": "Cls!val!6",
  "class:NoneType": "Cls!val!10",
  "self": "Ref!val!1",
  "class:<non-edgegraph>": "Cls!val!11",
  "cls": "[Ref!val!1 -> Cls!val!0,\n Ref!val!0 -> Cls!val!2,\n Ref!val!4 -> Cls!val!10,\n Ref!val!7 -> Cls!val!12,\n Ref!val!8 -> Cls!val!13,\n Ref!val!9 -> Cls!val!14,\n Ref!val!10 -> Cls!val!15,\n Ref!val!3 -> Cls!val!16,\n Ref!val!11 -> Cls!val!17,\n Ref!val!12 -> Cls!val!18,\n Ref!val!13 -> Cls!val!19,\n Ref!val!14 ",
  "sub": "[(Cls!val!0, Cls!val!1) -> True,\n (Cls!val!2, Cls!val!3) -> True,\n (Cls!val!4, Cls!val!4) -> True,\n (Cls!val!5, Cls!val!4) -> True,\n (Cls!val!5, Cls!val!5) -> True,\n (Cls!val!6, Cls!val!4) -> True,\n (Cls!val!6, Cls!val!6) -> True,\n (Cls!val!7, Cls!val!4) -> True,\n (Cls!val!7, Cls!val!6) -> True,\n (C",
  "_applies_to@pre": "[Ref!val!6 -> Ref!val!8,\n Ref!val!2 -> Ref!val!10,\n Ref!val!3 -> Ref!val!11,\n Ref!val!0 -> Ref!val!13,\n Ref!val!4 -> Ref!val!14,\n Ref!val!5 -> Ref!val!16,\n Ref!val!12 -> Ref!val!19,\n Ref!val!13 -> Ref!val!21,\n Ref!val!11 -> Ref!val!23,\n Ref!val!10 -> Ref!val!25,\n Ref!val!9 -> Ref!val!27,\n Ref!val!14",
  "_laws@pre": "[Ref!val!6 -> Ref!val!7,\n Ref!val!2 -> Ref!val!9,\n Ref!val!1 -> Ref!val!12,\n Ref!val!4 -> Ref!val!15,\n Ref!val!5 -> Ref!val!17,\n Ref!val!12 -> Ref!val!18,\n Ref!val!13 -> Ref!val!20,\n Ref!val!11 -> Ref!val!22,\n Ref!val!10 -> Ref!val!24,\n Ref!val!9 -> Ref!val!26,\n Ref!val!14 -> Ref!val!28,\n Ref!val!15"
 }
}''')
print('failed obligation:', OBLIGATION['obligation'])
print('clause:', OBLIGATION['clause'])
print(json.dumps(OBLIGATION['solver_model'], indent=1))
sys.exit(1)
