"""Failed proof obligation (pyvc). No concrete failing input was constructed for this obligation:
the solver model below is the verifier's counterexample to the verification condition.
"""
import json, sys
OBLIGATION = json.loads(r'''{
 "property": "C07",
 "obligation": "depthfirst._dft_recur/loop0/preserve/state:selems",
 "function": "depthfirst._dft_recur",
 "source": "edgegraph/traversal/depthfirst.py:75",
 "source_sha256": "e432847f917f9e128d6cfca72111f3a24c9c6b39ce432b6d46e9dddc79521fbf",
 "clause": "loop invariant: heap field selems",
 "path": "bool@98-if@98+[neighbors:cached]L0ibool@107+None.vertices-[vertices:0]if@107-if@109+[_dft_recur:0]",
 "backend": "z3-5.1.0",
 "solver_model": {
  "class:DirectedEdge": "Cls!val!7",
  "class:UniverseLaws": "Cls!val!9",
  "pre!16": "Unit(Ref!val!16)",
  "k_selems!73": "Ref!val!5",
  "spec_nbs!0": "Ref!val!4",
  "class:BaseObject": "Cls!val!4",
  "class:Universe": "Cls!val!3",
  "class:TwoEndedLink": "Cls!val!6",
  "unknown_handling": "4",
  "v": "Ref!val!12",
  "class:Vertex": "Cls!val!1",
  "direction_sensitive": "2",
  "visited": "Ref!val!8",
  "class:UnDirectedEdge": "Cls!val!8",
  "x!17": "Ref!val!8",
  "suf!18": "Unit(Ref!val!17)",
  "Vertex._QA_NB_INVALID": "Ref!val!0",
  "None": "Ref!val!1",
  "True": "Ref!val!6",
  "False": "Ref!val!2",
  "ff_via": "Ref!val!1",
  "spec_vertices!19": "Ref!val!5",
  "class:Link": "Cls!val!5",
  "uni": "Ref!val!22",
  "ff_result": "Ref!val!1",
  "class:NoneType": "Cls!val!10",
  "CACHING@pre": "True",
  "class:<non-edgegraph>": "Cls!val!2",
  "dkeys@pre": "[else -> Unit(Ref!val!14)]",
  "_universes@pre": "[Ref!val!22 -> Unit(Ref!val!15), else -> Unit(Ref!val!22)]",
  "memo_val@pre": "[else -> Ref!val!3]",
  "_links@pre": "[Ref!val!12 -> Unit(Ref!val!12),\n Ref!val!22 -> Unit(Ref!val!20),\n Ref!val!3 -> Unit(Ref!val!12),\n Ref!val!4 -> Unit(Ref!val!12),\n Ref!val!2 -> Unit(Ref!val!22),\n Ref!val!6 -> Unit(Ref!val!22),\n Ref!val!1 -> Unit(Ref!val!22),\n Ref!val!0 -> Unit(Ref!val!22),\n else -> Empty(Seq(Ref))]",
  "memo_has@pre~11": "[else -> False]",
  "sub": "[(Cls!val!0, Cls!val!1) -> True,\n (Cls!val!16, Cls!val!3) -> True,\n (Cls!val!4, Cls!val!4) -> True,\n (Cls!val!1, Cls!val!4) -> True,\n (Cls!val!1, Cls!val!1) -> True,\n (Cls!val!5, Cls!val!4) -> True,\n (Cls!val!5, Cls!val!5) -> True,\n (Cls!val!6, Cls!val!4) -> True,\n (Cls!val!6, Cls!val!5) -> True,\n (",
  "elems@pre~5": "[else -> Empty(Seq(Ref))]",
  "DFSr_fold@0": "[(Ref!val!22,\n  2,\n  4,\n  Ref!val!1,\n  Empty(Seq(Ref)),\n  Ref!val!12,\n  Unit(Ref!val!14)) ->\n Unit(Ref!val!12),\n (Ref!val!22,\n  2,\n  4,\n  Ref!val!1,\n  Concat(Unit(Ref!val!16),\n         Concat(Unit(Ref!val!8), Unit(Ref!val!17))),\n  Ref!val!12,\n  Unit(Ref!val!14)) ->\n Empty(Seq(Ref)),\n (Ref!val!22,\n  ",
  "_vertices@pre": "[Ref!val!22 -> Unit(Ref!val!8),\n Ref!val!8 -> Unit(Ref!val!20),\n Ref!val!1 -> Unit(Ref!val!19),\n Ref!val!0 -> Empty(Seq(Ref)),\n Ref!val!12 -> Unit(Ref!val!8),\n Ref!val!5 -> Unit(Ref!val!17),\n Ref!val!6 -> Unit(Ref!val!17),\n else -> Unit(Ref!val!22)]",
  "cnt": "[(Unit(Ref!val!19), Ref!val!12) -> 1,\n (Unit(Ref!val!17), Ref!val!8) -> 1,\n (Unit(Ref!val!14), Ref!val!22) -> 1,\n (Unit(Ref!val!14), Ref!val!0) -> 1,\n (Unit(Ref!val!14), Ref!val!4) -> 1,\n (Unit(Ref!val!14), Ref!val!6) -> 1,\n (Unit(Ref!val!12), Ref!val!12) -> 1,\n (Concat(Unit(Ref!val!16),\n         Co",
  "selems@pre": "[else -> Unit(\"!0!\")]",
  "memo_val@pre~12": "[else -> Ref!val!12]",
  "seq.nth_u": "[(Unit(Ref!val!8), 1) -> Ref!val!8,\n (Unit(Ref!val!20), 1) -> Ref!val!10,\n (Unit(Ref!val!20), 0) -> Ref!val!11,\n else -> Ref!val!9]",
  "DFSr_out@0": "[(Ref!val!22,\n  2,\n  4,\n  Ref!val!1,\n  Ref!val!8,\n  Concat(Unit(Ref!val!14), Unit(Ref!val!19))) ->\n Unit(Ref!val!13),\n else -> Empty(Seq(Ref))]",
  "cls": "[Ref!val!12 -> Cls!val!0,\n Ref!val!1 -> Cls!val!10,\n Ref!val!3 -> Cls!val!11,\n Ref!val!8 -> Cls!val!12,\n Ref!val!7 -> Cls!val!13,\n Ref!val!10 -> Cls!val!14,\n Ref!val!20 -> Cls!val!15,\n Ref!val!22 -> Cls!val!16,\n else -> Cls!val!2]",
  "NBf@0": "[(Unit(Ref!val!12), Ref!val!12, 2, 4, Ref!val!1) ->\n Concat(Unit(Ref!val!16),\n        Concat(Unit(Ref!val!8), Unit(Ref!val!17))),\n (Unit(Ref!val!22), Ref!val!2, 2, 4, Ref!val!1) ->\n Empty(Seq(Ref)),\n (Empty(Seq(Ref)), Ref!val!8, 2, 4, Ref!val!1) ->\n Empty(Seq(Ref)),\n (Empty(Seq(Ref)), Ref!val!7, 2, ",
  "memo_has@pre~3": "[else -> False]",
  "elems@pre~13": "[else -> Empty(Seq(Ref))]",
  "ReachFrom@0": "[(Ref!val!22, 2, 4, Ref!val!1, Ref!val!8, Ref!val!22) ->\n False,\n (Ref!val!22, 2, 4, Ref!val!1, Ref!val!8, Ref!val!0) ->\n False,\n (Ref!val!22, 2, 4, Ref!val!1, Ref!val!8, Ref!val!4) ->\n False,\n (Ref!val!22, 2, 4, Ref!val!1, Ref!val!8, Ref!val!2) ->\n False,\n (Ref!val!22, 2, 4, Ref!val!1, Ref!val!8, R",
  "flt": "[(Ref!val!1, Unit(Ref!val!12)) -> Unit(Ref!val!12),\n else -> Empty(Seq(Ref))]",
  "cb1_raises": "[else -> False]",
  "elems@pre": "[else ->\n Concat(Unit(Ref!val!16),\n        Concat(Unit(Ref!val!8), Unit(Ref!val!17)))]",
  "NBbad@0": "[else -> False]",
  "memo_val@pre~4": "[else -> Ref!val!7]",
  "memo_has@pre": "[else -> True]"
 },
 "other_refuted_obligations_of_this_function": [
  "depthfirst._dft_recur/loop0/preserve/state:selems#2",
  "depthfirst._dft_recur/loop0/preserve/state:selems#3",
  "depthfirst._dft_recur/loop0/preserve/state:selems#5",
  "depthfirst._dft_recur/loop0/preserve/state:selems#6",
  "depthfirst._dft_recur/loop0/preserve/state:selems#8",
  "depthfirst._dft_recur/loop0/preserve/state:selems#1",
  "depthfirst._dft_recur/loop0/preserve/state:selems#4",
  "depthfirst._dft_recur/loop0/preserve/state:selems#7"
 ],
 "bounded_search_for_a_failing_input": {
  "histories": 1386633,
  "calls_checked": 0,
  "distinct": 1274313,
  "workers": 14,
  "budget_s_each": 40.0,
  "errors": [],
  "sample": [
   [
    "new_edge",
    -1,
    0,
    -1
   ],
   [
    "u_add_vertex",
    -1,
    2
   ],
   [
    "link_from_to",
    -1,
    1,
    0,
    1
   ],
   [
    "new_edge",
    1,
    -1,
    -1
   ],
   [
    "u_add_vertex",
    1,
    -1
   ],
   [
    "search",
    -1,
    3,
    0,
    -1,
    -1
   ],
   [
    "new_edge",
    0,
    1,
    2
   ]
  ],
  "focus": [
   "depthfirst._dft_recur"
  ],
  "purpose": "search for a failing input for refuted obligations"
 }
}''')
print('failed obligation:', OBLIGATION['obligation'])
print('clause:', OBLIGATION['clause'])
print(json.dumps(OBLIGATION['solver_model'], indent=1))
sys.exit(1)
