"""Failed proof obligation (pyvc). No concrete failing input was constructed for this obligation:
the solver model below is the verifier's counterexample to the verification condition.
"""
import json, sys
OBLIGATION = json.loads(r'''{
 "property": "C07",
 "obligation": "depthfirst.idft_iterative/loop0/preserve/state:selems#1",
 "function": "depthfirst.idft_iterative",
 "source": "edgegraph/traversal/depthfirst.py:274",
 "source_sha256": "d8bfcad8536fd57ff79606bb191383bae8e2846b8947fc95d39ffbcc6dfe3fdb",
 "clause": "loop invariant: heap field selems",
 "path": "[_df_preflight_checks:1]L0wwhile@304+pop+if@306+bool@307-bool@311-if@311+[neighbors:computed]L1x",
 "backend": "z3-5.1.0",
 "solver_model": {
  "spec_nbs!26": "Ref!val!6",
  "class:DirectedEdge": "Cls!val!7",
  "class:UniverseLaws": "Cls!val!10",
  "rest!23": "Unit(Ref!val!17)",
  "class:BaseObject": "Cls!val!4",
  "spec_memoised!27": "Ref!val!7",
  "start": "Ref!val!17",
  "class:Universe": "Cls!val!9",
  "class:TwoEndedLink": "Cls!val!6",
  "ff_result": "Ref!val!19",
  "unknown_handling": "3",
  "direction_sensitive": "2",
  "class:Vertex": "Cls!val!1",
  "class:UnDirectedEdge": "Cls!val!8",
  "list!4": "Ref!val!4",
  "k!21": "21542",
  "Vertex._QA_NB_INVALID": "Ref!val!0",
  "k_selems!360": "Ref!val!6",
  "True": "Ref!val!8",
  "False": "Ref!val!2",
  "ff_via": "Ref!val!1",
  "list!3": "Ref!val!3",
  "class:Link": "Cls!val!5",
  "popped!22": "Ref!val!18",
  "uni": "Ref!val!19",
  "class:NoneType": "Cls!val!11",
  "None": "Ref!val!19",
  "class:<non-edgegraph>": "Cls!val!2",
  "elems@pre~2": "[Ref!val!5 -> Unit(Ref!val!24),\n Ref!val!4 -> Unit(Ref!val!22),\n else -> Concat(Unit(Ref!val!17), Unit(Ref!val!18))]",
  "elems@pre~21": "[Ref!val!3 -> Unit(Ref!val!17),\n Ref!val!4 -> Concat(Unit(Ref!val!22), Unit(Ref!val!18)),\n else -> Empty(Seq(Ref))]",
  "memo_val@pre": "[else -> Ref!val!9]",
  "_links@pre": "[Ref!val!18 -> Unit(Ref!val!22),\n Ref!val!17 -> Unit(Ref!val!22),\n Ref!val!5 -> Unit(Ref!val!21),\n Ref!val!6 -> Unit(Ref!val!21),\n Ref!val!7 -> Unit(Ref!val!21),\n Ref!val!2 -> Unit(Ref!val!21),\n Ref!val!8 -> Unit(Ref!val!21),\n Ref!val!19 -> Unit(Ref!val!19),\n Ref!val!9 -> Unit(Ref!val!12),\n Ref!val!",
  "sub": "[(Cls!val!0, Cls!val!1) -> True,\n (Cls!val!3, Cls!val!1) -> True,\n (Cls!val!4, Cls!val!4) -> True,\n (Cls!val!1, Cls!val!4) -> True,\n (Cls!val!1, Cls!val!1) -> True,\n (Cls!val!5, Cls!val!4) -> True,\n (Cls!val!5, Cls!val!5) -> True,\n (Cls!val!6, Cls!val!4) -> True,\n (Cls!val!6, Cls!val!5) -> True,\n (C",
  "_vertices@pre": "[Ref!val!17 -> Unit(Ref!val!18),\n Ref!val!4 -> Unit(Ref!val!17),\n Ref!val!5 -> Unit(Ref!val!19),\n Ref!val!7 -> Unit(Ref!val!20),\n Ref!val!2 -> Unit(Ref!val!19),\n Ref!val!8 -> Unit(Ref!val!22),\n else -> Empty(Seq(Ref))]",
  "seq.nth_u": "[(Unit(Ref!val!18), 0) -> Ref!val!14,\n (Empty(Seq(Ref)), 1) -> Ref!val!15,\n (Empty(Seq(Ref)), 0) -> Ref!val!16,\n else -> Ref!val!13]",
  "cnt": "[(Concat(Unit(Ref!val!17), Unit(Ref!val!18)), Ref!val!17) ->\n 1,\n (Unit(Ref!val!22), Ref!val!17) -> 1,\n (Concat(Unit(Ref!val!17), Unit(Ref!val!18)), Ref!val!18) ->\n 2,\n (Concat(Unit(Ref!val!22), Unit(Ref!val!18)), Ref!val!17) ->\n 1,\n (Unit(Ref!val!17), Ref!val!17) -> 1,\n (Unit(Ref!val!17), Ref!val!1",
  "selems@pre": "[else -> Unit(\"!0!\")]",
  "DFSi_disc@0": "[(Ref!val!17, Ref!val!19, 2, 3, Ref!val!1, 0) ->\n Empty(Seq(Ref)),\n (Ref!val!17, Ref!val!19, 2, 3, Ref!val!1, 21543) ->\n Concat(Unit(Ref!val!22), Unit(Ref!val!18)),\n else -> Unit(Ref!val!22)]",
  "cls": "[Ref!val!17 -> Cls!val!0,\n Ref!val!18 -> Cls!val!3,\n Ref!val!19 -> Cls!val!11,\n Ref!val!5 -> Cls!val!12,\n Ref!val!9 -> Cls!val!13,\n Ref!val!10 -> Cls!val!14,\n Ref!val!13 -> Cls!val!15,\n Ref!val!15 -> Cls!val!16,\n Ref!val!16 -> Cls!val!17,\n else -> Cls!val!2]",
  "memo_has@pre~0": "[else -> False]",
  "memo_val@pre~1": "[else -> Ref!val!5]",
  "NBf@0": "[(Unit(Ref!val!22), Ref!val!18, 2, 3, Ref!val!1) ->\n Empty(Seq(Ref)),\n (Empty(Seq(Ref)), Ref!val!4, 2, 3, Ref!val!1) ->\n Empty(Seq(Ref)),\n (Unit(Ref!val!21), Ref!val!6, 2, 3, Ref!val!1) ->\n Unit(Ref!val!12),\n (Empty(Seq(Ref)), Ref!val!16, 2, 3, Ref!val!1) ->\n Empty(Seq(Ref)),\n (Empty(Seq(Ref)), Ref!",
  "DFSi_stack@0": "[(Ref!val!17, Ref!val!19, 2, 3, Ref!val!1, 21542) ->\n Concat(Unit(Ref!val!17), Unit(Ref!val!18)),\n else -> Unit(Ref!val!17)]",
  "memo_has@pre~19": "[else -> False]",
  "memo_val@pre~20": "[else -> Ref!val!10]",
  "ReachFrom@0": "[else -> True]",
  "flt": "[(Ref!val!19, Concat(Unit(Ref!val!22), Unit(Ref!val!18))) ->\n Unit(Ref!val!18),\n else -> Empty(Seq(Ref))]",
  "cb1_raises": "[else -> False]",
  "elems@pre": "[else -> Unit(Ref!val!23)]",
  "NBbad@0": "[else -> False]",
  "memo_has@pre": "[else -> False]",
  "_universes@pre": "[Ref!val!17 -> Unit(Ref!val!22),\n Ref!val!18 -> Empty(Seq(Ref)),\n Ref!val!1 -> Empty(Seq(Ref)),\n Ref!val!2 -> Empty(Seq(Ref)),\n Ref!val!16 -> Empty(Seq(Ref)),\n Ref!val!15 -> Empty(Seq(Ref)),\n Ref!val!9 -> Empty(Seq(Ref)),\n Ref!val!10 -> Empty(Seq(Ref)),\n else -> Unit(Ref!val!21)]"
 },
 "other_refuted_obligations_of_this_function": [
  "depthfirst.idft_iterative/loop0/preserve/state:selems#5",
  "depthfirst.idft_iterative/loop0/preserve/state:selems#9",
  "depthfirst.idft_iterative/loop0/preserve/state:selems#12",
  "depthfirst.idft_iterative/loop0/preserve/state:selems#2",
  "depthfirst.idft_iterative/loop0/preserve/state:selems#6",
  "depthfirst.idft_iterative/loop0/preserve/state:selems#10",
  "depthfirst.idft_iterative/loop0/preserve/state:selems#3",
  "depthfirst.idft_iterative/loop0/preserve/state:selems#7",
  "depthfirst.idft_iterative/loop0/preserve/state:selems#11",
  "depthfirst.idft_iterative/loop0/preserve/state:selems",
  "depthfirst.idft_iterative/loop0/preserve/state:selems#4",
  "depthfirst.idft_iterative/loop0/preserve/state:selems#8"
 ],
 "bounded_search_for_a_failing_input": {
  "histories": 2686827,
  "calls_checked": 0,
  "distinct": 2440542,
  "workers": 14,
  "budget_s_each": 40.0,
  "errors": [],
  "sample": [
   [
    "traverse",
    2,
    2,
    2,
    0,
    0,
    2,
    3
   ],
   [
    "new_edge",
    1,
    0,
    1
   ],
   [
    "new_vertex_unis",
    3,
    0,
    1
   ],
   [
    "u_add_vertex",
    0,
    1
   ],
   [
    "traverse",
    2,
    1,
    0,
    3,
    3,
    -1,
    1
   ],
   [
    "link_from_to",
    0,
    2,
    0,
    0
   ],
   [
    "u_add_vertex",
    2,
    2
   ],
   [
    "u_add_vertex",
    3,
    3
   ],
   [
    "new_edge",
    0,
    0,
    1
   ]
  ],
  "focus": [
   "depthfirst.idft_iterative"
  ],
  "purpose": "search for a failing input for refuted obligations"
 }
}''')
print('failed obligation:', OBLIGATION['obligation'])
print('clause:', OBLIGATION['clause'])
print(json.dumps(OBLIGATION['solver_model'], indent=1))
sys.exit(1)
