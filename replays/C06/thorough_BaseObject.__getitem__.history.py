"""Replay of a failing history against the real code (pyvc bounded explorer + run-time contract monitor).
Run with: python3-vt <this file>   (exit 1 = the failure reproduces)"""
import json, sys
sys.path.insert(0, '/verif')
CASE = json.loads(r'''{
 "property": "C06",
 "history": [
  [
   "scenario",
   1700000000
  ]
 ],
 "error": "ContractViolation: BaseObject.__getitem__: 0 outcomes apply (contract conditions must partition) ",
 "note": "thorough-tier run-time contract check"
}''')
from pyvc import bounded
sys.exit(bounded.replay(CASE))
