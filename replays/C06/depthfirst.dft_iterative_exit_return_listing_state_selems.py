"""Failed proof obligation (pyvc). No concrete failing input was constructed for this obligation:
the solver model below is the verifier's counterexample to the verification condition.
"""
import json, sys
OBLIGATION = json.loads(r'''{
 "property": "C06",
 "obligation": "depthfirst.dft_iterative/exit:return/listing/state:selems",
 "function": "depthfirst.dft_iterative",
 "source": "edgegraph/traversal/depthfirst.py:323",
 "source_sha256": "73450f23e371497b5747c2383ae07175f88bbfe89c1302f292b5dcc135e483f4",
 "clause": "post-state of field selems",
 "path": "[idft_iterative:listing]",
 "backend": "z3-5.1.0",
 "solver_model": {
  "spec_K!2": "18588",
  "class:DirectedEdge": "Cls!val!6",
  "class:UniverseLaws": "Cls!val!8",
  "class:BaseObject": "Cls!val!3",
  "k_selems!18": "Ref!val!4",
  "list!17": "Ref!val!4",
  "start": "Ref!val!11",
  "class:Universe": "Cls!val!1",
  "class:TwoEndedLink": "Cls!val!5",
  "ff_result": "Ref!val!1",
  "unknown_handling": "3",
  "direction_sensitive": "2",
  "class:Vertex": "Cls!val!2",
  "class:UnDirectedEdge": "Cls!val!7",
  "True": "Ref!val!5",
  "None": "Ref!val!1",
  "Vertex._QA_NB_INVALID": "Ref!val!2",
  "False": "Ref!val!3",
  "ff_via": "Ref!val!1",
  "class:Link": "Cls!val!4",
  "uni": "Ref!val!0",
  "class:NoneType": "Cls!val!9",
  "class:<non-edgegraph>": "Cls!val!10",
  "cls": "[Ref!val!0 -> Cls!val!0,\n Ref!val!1 -> Cls!val!9,\n Ref!val!11 -> Cls!val!11,\n Ref!val!7 -> Cls!val!12,\n Ref!val!8 -> Cls!val!13,\n Ref!val!9 -> Cls!val!14,\n else -> Cls!val!10]",
  "_links@pre": "[Ref!val!0 -> Unit(Ref!val!12),\n Ref!val!11 -> Unit(Ref!val!13),\n else -> Empty(Seq(Ref))]",
  "DFSi_stack@0": "[else -> Empty(Seq(Ref))]",
  "sub": "[(Cls!val!0, Cls!val!1) -> True,\n (Cls!val!3, Cls!val!3) -> True,\n (Cls!val!2, Cls!val!3) -> True,\n (Cls!val!2, Cls!val!2) -> True,\n (Cls!val!4, Cls!val!3) -> True,\n (Cls!val!4, Cls!val!4) -> True,\n (Cls!val!5, Cls!val!3) -> True,\n (Cls!val!5, Cls!val!4) -> True,\n (Cls!val!5, Cls!val!5) -> True,\n (C",
  "ReachFrom@0": "[else -> True]",
  "_vertices@pre": "[Ref!val!0 -> Unit(Ref!val!11), else -> Empty(Seq(Ref))]",
  "cnt": "[(Unit(Ref!val!13), Ref!val!0) -> 0,\n (Unit(Ref!val!11), Ref!val!0) -> 0,\n (Empty(Seq(Ref)), Ref!val!4) -> 0,\n (Unit(Ref!val!11), Ref!val!7) -> 0,\n (Unit(Ref!val!12), Ref!val!11) -> 0,\n (Unit(Ref!val!12), Ref!val!7) -> 0,\n (Empty(Seq(Ref)), Ref!val!0) -> 0,\n (Unit(Ref!val!10), Ref!val!9) -> 0,\n (Uni",
  "selems@pre": "[else -> Unit(\"!0!\")]",
  "cb1_raises": "[else -> False]",
  "seq.nth_u": "[(Unit(Ref!val!11), 1) -> Ref!val!7,\n (Empty(Seq(Ref)), 1) -> Ref!val!8,\n (Empty(Seq(Ref)), 0) -> Ref!val!9,\n else -> Ref!val!6]",
  "NBbad@0": "[else -> False]",
  "DFSi_disc@0": "[else -> Unit(Ref!val!10)]",
  "_universes@pre": "[Ref!val!11 -> Unit(Ref!val!11),\n Ref!val!7 -> Empty(Seq(Ref)),\n else -> Unit(Ref!val!12)]"
 },
 "other_refuted_obligations_of_this_function": [],
 "bounded_search_for_a_failing_input": {
  "histories": 2142584,
  "calls_checked": 0,
  "distinct": 1953627,
  "workers": 14,
  "budget_s_each": 40.0,
  "errors": [],
  "sample": [
   [
    "unlink_from",
    0,
    0
   ],
   [
    "unlink",
    0,
    0,
    0
   ]
  ],
  "focus": [
   "depthfirst.dft_iterative"
  ],
  "purpose": "search for a failing input for refuted obligations"
 }
}''')
print('failed obligation:', OBLIGATION['obligation'])
print('clause:', OBLIGATION['clause'])
print(json.dumps(OBLIGATION['solver_model'], indent=1))
sys.exit(1)
