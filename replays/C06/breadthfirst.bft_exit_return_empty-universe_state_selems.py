"""Failed proof obligation (pyvc). No concrete failing input was constructed for this obligation:
the solver model below is the verifier's counterexample to the verification condition.
"""
import json, sys
OBLIGATION = json.loads(r'''{
 "property": "C06",
 "obligation": "breadthfirst.bft/exit:return/empty-universe/state:selems",
 "function": "breadthfirst.bft",
 "source": "edgegraph/traversal/breadthfirst.py:217",
 "source_sha256": "bf162ae15de7f62d318678aec92a4f2cb0b5b27b40b7e9eba4c2bdc93a3b4ae5",
 "clause": "post-state of field selems",
 "path": "[ibft:empty-universe]",
 "backend": "z3-5.1.0",
 "solver_model": {
  "list!18": "Ref!val!5",
  "class:DirectedEdge": "Cls!val!7",
  "class:UniverseLaws": "Cls!val!9",
  "class:BaseObject": "Cls!val!4",
  "start": "Ref!val!2",
  "class:Universe": "Cls!val!1",
  "class:TwoEndedLink": "Cls!val!6",
  "ff_result": "Ref!val!3",
  "unknown_handling": "2",
  "direction_sensitive": "0",
  "class:Vertex": "Cls!val!3",
  "class:UnDirectedEdge": "Cls!val!8",
  "True": "Ref!val!6",
  "k_selems!21": "Ref!val!5",
  "Vertex._QA_NB_INVALID": "Ref!val!1",
  "None": "Ref!val!3",
  "False": "Ref!val!4",
  "ff_via": "Ref!val!3",
  "class:Link": "Cls!val!5",
  "uni": "Ref!val!0",
  "class:NoneType": "Cls!val!10",
  "class:<non-edgegraph>": "Cls!val!11",
  "cls": "[Ref!val!0 -> Cls!val!0,\n Ref!val!2 -> Cls!val!2,\n Ref!val!3 -> Cls!val!10,\n else -> Cls!val!11]",
  "selems@pre": "[else -> Unit(\"!0!\")]",
  "_links@pre": "[else -> Unit(Ref!val!7)]",
  "cb1_raises": "[else -> False]",
  "sub": "[(Cls!val!0, Cls!val!1) -> True,\n (Cls!val!2, Cls!val!3) -> True,\n (Cls!val!4, Cls!val!4) -> True,\n (Cls!val!3, Cls!val!4) -> True,\n (Cls!val!3, Cls!val!3) -> True,\n (Cls!val!5, Cls!val!4) -> True,\n (Cls!val!5, Cls!val!5) -> True,\n (Cls!val!6, Cls!val!4) -> True,\n (Cls!val!6, Cls!val!5) -> True,\n (C",
  "NBbad@0": "[else -> False]",
  "_vertices@pre": "[else -> Empty(Seq(Ref))]"
 },
 "other_refuted_obligations_of_this_function": [
  "breadthfirst.bft/exit:return/listing/state:selems"
 ],
 "bounded_search_for_a_failing_input": {
  "histories": 2225041,
  "calls_checked": 0,
  "distinct": 2027422,
  "workers": 14,
  "budget_s_each": 40.0,
  "errors": [],
  "sample": [
   [
    "remove_from_link",
    2,
    2
   ],
   [
    "new_edge",
    0,
    2,
    2
   ],
   [
    "new_edge",
    3,
    2,
    0
   ],
   [
    "v_remove_from_universe",
    0,
    3
   ],
   [
    "set_tag",
    0,
    0
   ],
   [
    "new_edge",
    3,
    0,
    2
   ],
   [
    "new_edge",
    2,
    3,
    2
   ],
   [
    "u_add_vertex",
    0,
    0
   ],
   [
    "search",
    2,
    2,
    0,
    3,
    2
   ],
   [
    "unlink",
    2,
    2,
    2
   ]
  ],
  "focus": [
   "breadthfirst.bft"
  ],
  "purpose": "search for a failing input for refuted obligations"
 }
}''')
print('failed obligation:', OBLIGATION['obligation'])
print('clause:', OBLIGATION['clause'])
print(json.dumps(OBLIGATION['solver_model'], indent=1))
sys.exit(1)
