"""Failed proof obligation (pyvc). No concrete failing input was constructed for this obligation:
the solver model below is the verifier's counterexample to the verification condition.
"""
import json, sys
OBLIGATION = json.loads(r'''{
 "property": "C06",
 "obligation": "depthfirst.idft_iterative/loop0/preserve/state:selems#1",
 "function": "depthfirst.idft_iterative",
 "source": "edgegraph/traversal/depthfirst.py:274",
 "source_sha256": "d8bfcad8536fd57ff79606bb191383bae8e2846b8947fc95d39ffbcc6dfe3fdb",
 "clause": "loop invariant: heap field selems",
 "path": "[_df_preflight_checks:1]L0wwhile@304+pop+if@306+bool@307-bool@311-if@311+[neighbors:computed]L1x",
 "backend": "z3-5.1.0",
 "solver_model": {
  "spec_nbs!26": "Ref!val!6",
  "class:DirectedEdge": "Cls!val!6",
  "class:UniverseLaws": "Cls!val!9",
  "rest!23": "Unit(Ref!val!24)",
  "class:BaseObject": "Cls!val!3",
  "spec_memoised!27": "Ref!val!7",
  "start": "Ref!val!17",
  "class:Universe": "Cls!val!8",
  "class:TwoEndedLink": "Cls!val!5",
  "ff_result": "Ref!val!0",
  "unknown_handling": "3",
  "direction_sensitive": "0",
  "class:Vertex": "Cls!val!1",
  "class:UnDirectedEdge": "Cls!val!7",
  "list!4": "Ref!val!4",
  "k!21": "23970",
  "Vertex._QA_NB_INVALID": "Ref!val!1",
  "k_selems!360": "Ref!val!7",
  "True": "Ref!val!8",
  "False": "Ref!val!2",
  "ff_via": "Ref!val!0",
  "list!3": "Ref!val!3",
  "class:Link": "Cls!val!4",
  "popped!22": "Ref!val!18",
  "uni": "Ref!val!0",
  "class:NoneType": "Cls!val!10",
  "None": "Ref!val!0",
  "class:<non-edgegraph>": "Cls!val!2",
  "elems@pre~2": "[Ref!val!5 -> Empty(Seq(Ref)),\n Ref!val!4 -> Unit(Ref!val!23),\n else -> Concat(Unit(Ref!val!24), Unit(Ref!val!18))]",
  "elems@pre~21": "[Ref!val!3 -> Concat(Unit(Ref!val!24), Unit(Ref!val!19)),\n Ref!val!4 -> Concat(Unit(Ref!val!23), Unit(Ref!val!18)),\n else -> Empty(Seq(Ref))]",
  "memo_val@pre": "[else -> Ref!val!9]",
  "_links@pre": "[Ref!val!3 -> Unit(Ref!val!21),\n Ref!val!4 -> Unit(Ref!val!21),\n Ref!val!5 -> Unit(Ref!val!21),\n Ref!val!6 -> Unit(Ref!val!17),\n Ref!val!2 -> Unit(Ref!val!21),\n Ref!val!8 -> Unit(Ref!val!17),\n Ref!val!0 -> Unit(Ref!val!21),\n Ref!val!1 -> Unit(Ref!val!21),\n else -> Empty(Seq(Ref))]",
  "sub": "[(Cls!val!0, Cls!val!1) -> True,\n (Cls!val!3, Cls!val!3) -> True,\n (Cls!val!1, Cls!val!3) -> True,\n (Cls!val!1, Cls!val!1) -> True,\n (Cls!val!4, Cls!val!3) -> True,\n (Cls!val!4, Cls!val!4) -> True,\n (Cls!val!5, Cls!val!3) -> True,\n (Cls!val!5, Cls!val!4) -> True,\n (Cls!val!5, Cls!val!5) -> True,\n (C",
  "_vertices@pre": "[Ref!val!17 -> Unit(Ref!val!18),\n Ref!val!18 -> Unit(Ref!val!11),\n Ref!val!3 -> Unit(Ref!val!0),\n Ref!val!5 -> Unit(Ref!val!24),\n Ref!val!7 -> Unit(Ref!val!23),\n Ref!val!2 -> Unit(Ref!val!0),\n else -> Empty(Seq(Ref))]",
  "seq.nth_u": "[(Empty(Seq(Ref)), 1) -> Ref!val!13,\n (Unit(Ref!val!18), 1) -> Ref!val!18,\n (Unit(Ref!val!18), 0) -> Ref!val!14,\n (Unit(Ref!val!11), 1) -> Ref!val!15,\n (Unit(Ref!val!11), 0) -> Ref!val!16,\n else -> Ref!val!12]",
  "cnt": "[(Unit(Ref!val!23), Ref!val!17) -> 1,\n (Concat(Unit(Ref!val!24), Unit(Ref!val!18)), Ref!val!17) ->\n 1,\n (Unit(Ref!val!17), Ref!val!17) -> 1,\n (Concat(Unit(Ref!val!23), Unit(Ref!val!18)), Ref!val!17) ->\n 1,\n (Concat(Unit(Ref!val!24), Unit(Ref!val!19)), Ref!val!17) ->\n 1,\n (Unit(Ref!val!24), Ref!val!1",
  "selems@pre": "[else -> Unit(\"!0!\")]",
  "DFSi_disc@0": "[(Ref!val!17, Ref!val!0, 0, 3, Ref!val!0, 0) ->\n Empty(Seq(Ref)),\n (Ref!val!17, Ref!val!0, 0, 3, Ref!val!0, 23971) ->\n Concat(Unit(Ref!val!23), Unit(Ref!val!18)),\n else -> Unit(Ref!val!23)]",
  "cls": "[Ref!val!17 -> Cls!val!0,\n Ref!val!0 -> Cls!val!10,\n Ref!val!5 -> Cls!val!11,\n Ref!val!12 -> Cls!val!12,\n Ref!val!13 -> Cls!val!13,\n Ref!val!9 -> Cls!val!14,\n Ref!val!10 -> Cls!val!15,\n Ref!val!18 -> Cls!val!16,\n Ref!val!15 -> Cls!val!17,\n Ref!val!11 -> Cls!val!18,\n else -> Cls!val!2]",
  "memo_has@pre~0": "[else -> False]",
  "memo_val@pre~1": "[else -> Ref!val!5]",
  "NBf@0": "[(Empty(Seq(Ref)), Ref!val!18, 0, 3, Ref!val!0) ->\n Unit(Ref!val!19),\n (Unit(Ref!val!21), Ref!val!1, 0, 3, Ref!val!0) ->\n Unit(Ref!val!22),\n (Empty(Seq(Ref)), Ref!val!17, 0, 3, Ref!val!0) ->\n Unit(Ref!val!21),\n (Empty(Seq(Ref)), Ref!val!7, 0, 3, Ref!val!0) ->\n Unit(Ref!val!21),\n (Unit(Ref!val!21), R",
  "DFSi_stack@0": "[(Ref!val!17, Ref!val!0, 0, 3, Ref!val!0, 0) ->\n Unit(Ref!val!17),\n (Ref!val!17, Ref!val!0, 0, 3, Ref!val!0, 23971) ->\n Concat(Unit(Ref!val!24), Unit(Ref!val!19)),\n else -> Concat(Unit(Ref!val!24), Unit(Ref!val!18))]",
  "memo_has@pre~19": "[else -> False]",
  "memo_val@pre~20": "[else -> Ref!val!10]",
  "ReachFrom@0": "[else -> True]",
  "flt": "[(Ref!val!0, Concat(Unit(Ref!val!23), Unit(Ref!val!18))) ->\n Unit(Ref!val!18),\n else -> Empty(Seq(Ref))]",
  "cb1_raises": "[else -> False]",
  "elems@pre": "[else -> Empty(Seq(Ref))]",
  "NBbad@0": "[else -> False]",
  "memo_has@pre": "[else -> False]",
  "_universes@pre": "[Ref!val!17 -> Unit(Ref!val!23),\n Ref!val!18 -> Unit(Ref!val!23),\n Ref!val!0 -> Unit(Ref!val!0),\n Ref!val!12 -> Empty(Seq(Ref)),\n Ref!val!13 -> Empty(Seq(Ref)),\n Ref!val!9 -> Unit(Ref!val!22),\n Ref!val!10 -> Unit(Ref!val!22),\n else -> Unit(Ref!val!17)]"
 },
 "other_refuted_obligations_of_this_function": [
  "depthfirst.idft_iterative/loop0/preserve/state:selems#5",
  "depthfirst.idft_iterative/loop0/preserve/state:selems#9",
  "depthfirst.idft_iterative/loop0/preserve/state:selems#12",
  "depthfirst.idft_iterative/loop0/preserve/state:selems#2",
  "depthfirst.idft_iterative/loop0/preserve/state:selems#6",
  "depthfirst.idft_iterative/loop0/preserve/state:selems#10",
  "depthfirst.idft_iterative/loop0/preserve/state:selems#3",
  "depthfirst.idft_iterative/loop0/preserve/state:selems#7",
  "depthfirst.idft_iterative/loop0/preserve/state:selems#11",
  "depthfirst.idft_iterative/loop0/preserve/state:selems",
  "depthfirst.idft_iterative/loop0/preserve/state:selems#4",
  "depthfirst.idft_iterative/loop0/preserve/state:selems#8"
 ],
 "bounded_search_for_a_failing_input": {
  "histories": 2963727,
  "calls_checked": 0,
  "distinct": 2687398,
  "workers": 14,
  "budget_s_each": 40.0,
  "errors": [],
  "sample": [
   [
    "new_edge",
    1,
    1,
    0
   ]
  ],
  "focus": [
   "depthfirst.idft_iterative"
  ],
  "purpose": "search for a failing input for refuted obligations"
 }
}''')
print('failed obligation:', OBLIGATION['obligation'])
print('clause:', OBLIGATION['clause'])
print(json.dumps(OBLIGATION['solver_model'], indent=1))
sys.exit(1)
