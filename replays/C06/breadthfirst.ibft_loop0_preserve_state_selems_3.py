"""Failed proof obligation (pyvc). No concrete failing input was constructed for this obligation:
the solver model below is the verifier's counterexample to the verification condition.
"""
import json, sys
OBLIGATION = json.loads(r'''{
 "property": "C06",
 "obligation": "breadthfirst.ibft/loop0/preserve/state:selems#3",
 "function": "breadthfirst.ibft",
 "source": "edgegraph/traversal/breadthfirst.py:111",
 "source_sha256": "c3c302e8c73e73ab8684b4c0d719dbe560cb92f69e3e8bfd5fc1b3e911b512b9",
 "clause": "loop invariant: heap field selems",
 "path": "bool@183-bool@186-bool@193+cbNone-cb:ffrraises-if@193+L0wwhile@196+popleft+[neighbors:computed]L1x",
 "backend": "z3-5.1.0",
 "solver_model": {
  "class:DirectedEdge": "Cls!val!7",
  "class:UniverseLaws": "Cls!val!10",
  "rest!204": "Unit(Ref!val!12)",
  "class:BaseObject": "Cls!val!4",
  "k_selems!383": "Ref!val!8",
  "deque!6": "Ref!val!5",
  "start": "Ref!val!15",
  "class:Universe": "Cls!val!9",
  "class:TwoEndedLink": "Cls!val!6",
  "ff_result": "Ref!val!2",
  "unknown_handling": "5",
  "class:UnDirectedEdge": "Cls!val!8",
  "Vertex._QA_NB_INVALID": "Ref!val!0",
  "spec_nbs!206": "Ref!val!7",
  "done!201": "Unit(Ref!val!17)",
  "list!5": "Ref!val!4",
  "set!3": "Ref!val!3",
  "direction_sensitive": "1",
  "class:Vertex": "Cls!val!1",
  "spec_memoised!207": "Ref!val!8",
  "True": "Ref!val!9",
  "None": "Ref!val!12",
  "CACHING@pre": "False",
  "popped!203": "Ref!val!17",
  "False": "Ref!val!1",
  "ff_via": "Ref!val!12",
  "class:Link": "Cls!val!5",
  "uni": "Ref!val!12",
  "class:NoneType": "Cls!val!11",
  "k!200": "1",
  "queue_now!202": "Concat(Unit(Ref!val!17), Unit(Ref!val!12))",
  "class:<non-edgegraph>": "Cls!val!2",
  "memo_has@pre~42": "[else -> False]",
  "memo_val@pre": "[else -> Ref!val!10]",
  "memo_val@pre~24": "[else -> Ref!val!6]",
  "_links@pre": "[Ref!val!17 -> Unit(Ref!val!17),\n Ref!val!15 -> Unit(Ref!val!17),\n Ref!val!6 -> Unit(Ref!val!21),\n Ref!val!8 -> Unit(Ref!val!22),\n Ref!val!10 -> Empty(Seq(Ref)),\n Ref!val!11 -> Unit(Ref!val!24),\n Ref!val!12 -> Unit(Ref!val!16),\n Ref!val!0 -> Unit(Ref!val!22),\n Ref!val!13 -> Empty(Seq(Ref)),\n Ref!val",
  "sub": "[(Cls!val!0, Cls!val!1) -> True,\n (Cls!val!3, Cls!val!1) -> True,\n (Cls!val!4, Cls!val!4) -> True,\n (Cls!val!1, Cls!val!4) -> True,\n (Cls!val!1, Cls!val!1) -> True,\n (Cls!val!5, Cls!val!4) -> True,\n (Cls!val!5, Cls!val!5) -> True,\n (Cls!val!6, Cls!val!4) -> True,\n (Cls!val!6, Cls!val!5) -> True,\n (C",
  "_vertices@pre": "[Ref!val!2 -> Unit(Ref!val!12),\n Ref!val!4 -> Unit(Ref!val!12),\n Ref!val!5 -> Unit(Ref!val!12),\n Ref!val!7 -> Unit(Ref!val!12),\n Ref!val!1 -> Unit(Ref!val!12),\n Ref!val!9 -> Unit(Ref!val!12),\n Ref!val!11 -> Unit(Ref!val!25),\n else -> Empty(Seq(Ref))]",
  "seq.nth_u": "[(Empty(Seq(Ref)), 1) -> Ref!val!14, else -> Ref!val!13]",
  "cnt": "[(Concat(Unit(Ref!val!17),\n         Concat(Unit(Ref!val!17), Unit(Ref!val!12))),\n  Ref!val!15) ->\n 1,\n (Concat(Unit(Ref!val!17), Unit(Ref!val!12)), Ref!val!15) ->\n 1,\n (Concat(Unit(Ref!val!17),\n         Concat(Unit(Ref!val!17), Unit(Ref!val!12))),\n  Ref!val!6) ->\n 1,\n (Concat(Unit(Ref!val!17),\n     ",
  "selems@pre": "[else -> Unit(\"!0!\")]",
  "memo_val@pre~43": "[else -> Ref!val!11]",
  "BFS_np@0": "[(Ref!val!12,\n  Empty(Seq(Ref)),\n  Concat(Unit(Ref!val!17),\n         Concat(Unit(Ref!val!17), Unit(Ref!val!12)))) ->\n Empty(Seq(Ref)),\n else -> Unit(Ref!val!18)]",
  "elems@pre~44": "[Ref!val!5 -> Concat(Unit(Ref!val!12), Unit(Ref!val!18)),\n else -> Empty(Seq(Ref))]",
  "cls": "[Ref!val!15 -> Cls!val!0,\n Ref!val!17 -> Cls!val!3,\n Ref!val!12 -> Cls!val!11,\n Ref!val!6 -> Cls!val!12,\n Ref!val!10 -> Cls!val!13,\n Ref!val!11 -> Cls!val!14,\n Ref!val!13 -> Cls!val!15,\n Ref!val!14 -> Cls!val!16,\n else -> Cls!val!2]",
  "BFS_A@0": "[(Ref!val!15, Ref!val!12, 1, 5, Ref!val!12, 0) ->\n Unit(Ref!val!15),\n (Ref!val!15, Ref!val!12, 1, 5, Ref!val!12, 2) ->\n Concat(Unit(Ref!val!17),\n        Concat(Unit(Ref!val!17),\n               Concat(Unit(Ref!val!12), Unit(Ref!val!18)))),\n else ->\n Concat(Unit(Ref!val!17),\n        Concat(Unit(Ref!va",
  "elems@pre~25": "[Ref!val!6 -> Empty(Seq(Ref)),\n else -> Concat(Unit(Ref!val!17), Unit(Ref!val!12))]",
  "NBf@0": "[(Unit(Ref!val!17), Ref!val!17, 1, 5, Ref!val!12) ->\n Unit(Ref!val!19),\n (Unit(Ref!val!22), Ref!val!0, 1, 5, Ref!val!12) ->\n Unit(Ref!val!21),\n (Unit(Ref!val!17), Ref!val!15, 1, 5, Ref!val!12) ->\n Empty(Seq(Ref)),\n (Unit(Ref!val!16), Ref!val!12, 1, 5, Ref!val!12) ->\n Unit(Ref!val!21),\n (Unit(Ref!val",
  "memo_has@pre~23": "[else -> False]",
  "ReachFrom@0": "[else -> True]",
  "flt": "[(Ref!val!2, Unit(Ref!val!15)) -> Unit(Ref!val!15),\n else -> Empty(Seq(Ref))]",
  "cb1_raises": "[else -> False]",
  "cb1": "[else -> True]",
  "elems@pre": "[else -> Empty(Seq(Ref))]",
  "NBbad@0": "[else -> False]",
  "_universes@pre": "[Ref!val!15 -> Unit(Ref!val!21),\n Ref!val!17 -> Unit(Ref!val!21),\n Ref!val!6 -> Unit(Ref!val!21),\n Ref!val!8 -> Unit(Ref!val!22),\n Ref!val!12 -> Unit(Ref!val!20),\n Ref!val!10 -> Empty(Seq(Ref)),\n Ref!val!11 -> Empty(Seq(Ref)),\n else -> Unit(Ref!val!15)]",
  "memo_has@pre": "[else -> False]"
 },
 "other_refuted_obligations_of_this_function": [
  "breadthfirst.ibft/loop0/preserve/state:selems",
  "breadthfirst.ibft/loop0/preserve/state:selems#4",
  "breadthfirst.ibft/loop1/preserve/state:selems#1",
  "breadthfirst.ibft/loop0/preserve/state:selems#6",
  "breadthfirst.ibft/loop0/preserve/state:selems#1",
  "breadthfirst.ibft/loop0/preserve/state:selems#5",
  "breadthfirst.ibft/loop1/preserve/state:selems#2",
  "breadthfirst.ibft/loop0/preserve/state:selems#2",
  "breadthfirst.ibft/loop1/preserve/state:selems#4",
  "breadthfirst.ibft/loop1/preserve/state:selems#9"
 ],
 "bounded_search_for_a_failing_input": {
  "histories": 3010945,
  "calls_checked": 0,
  "distinct": 2729531,
  "workers": 14,
  "budget_s_each": 40.0,
  "errors": [],
  "sample": [
   [
    "set_v1",
    2,
    2
   ],
   [
    "new_universe",
    2,
    2,
    2
   ],
   [
    "set_v1",
    2,
    2
   ],
   [
    "new_edge",
    2,
    1,
    2
   ],
   [
    "link_from_to",
    2,
    2,
    -1,
    2
   ],
   [
    "new_edge",
    2,
    2,
    2
   ],
   [
    "u_remove_vertex",
    3,
    3
   ]
  ],
  "focus": [
   "breadthfirst.ibft"
  ],
  "purpose": "search for a failing input for refuted obligations"
 }
}''')
print('failed obligation:', OBLIGATION['obligation'])
print('clause:', OBLIGATION['clause'])
print(json.dumps(OBLIGATION['solver_model'], indent=1))
sys.exit(1)
