"""Failed proof obligation (pyvc). No concrete failing input was constructed for this obligation:
the solver model below is the verifier's counterexample to the verification condition.
"""
import json, sys
OBLIGATION = json.loads(r'''{
 "property": "C06",
 "obligation": "breadthfirst.ibft/loop1/preserve/schema:listed-vertices-are-reachable#11",
 "function": "breadthfirst.ibft",
 "source": "edgegraph/traversal/breadthfirst.py:111",
 "source_sha256": "c3c302e8c73e73ab8684b4c0d719dbe560cb92f69e3e8bfd5fc1b3e911b512b9",
 "clause": "loop invariant listed-vertices-are-reachable",
 "path": "if@193-L0wwhile@196+popleft+[neighbors:cached]L1ibool@205-if@209+bool@213+cbNone-cb:ffrraises-if@213-",
 "backend": "z3-5.1.0",
 "solver_model": {
  "class:DirectedEdge": "Cls!val!7",
  "class:UniverseLaws": "Cls!val!10",
  "class:BaseObject": "Cls!val!4",
  "deque!6": "Ref!val!5",
  "start": "Ref!val!14",
  "class:Universe": "Cls!val!9",
  "class:TwoEndedLink": "Cls!val!6",
  "ff_result": "Ref!val!2",
  "unknown_handling": "4",
  "class:UnDirectedEdge": "Cls!val!8",
  "sk!463": "Ref!val!16",
  "Vertex._QA_NB_INVALID": "Ref!val!0",
  "popped!414": "Ref!val!15",
  "list!5": "Ref!val!4",
  "x!441": "Ref!val!16",
  "suf!442": "Unit(Ref!val!19)",
  "set!3": "Ref!val!3",
  "rest!415": "Empty(Seq(Ref))",
  "pre!440": "Unit(Ref!val!14)",
  "direction_sensitive": "2",
  "class:Vertex": "Cls!val!1",
  "True": "Ref!val!8",
  "spec_nbs!416": "Ref!val!7",
  "None": "Ref!val!17",
  "done!412": "Unit(Ref!val!16)",
  "False": "Ref!val!1",
  "ff_via": "Ref!val!17",
  "class:Link": "Cls!val!5",
  "uni": "Ref!val!17",
  "class:NoneType": "Cls!val!11",
  "queue_now!413": "Unit(Ref!val!15)",
  "CACHING@pre": "True",
  "k!411": "1",
  "class:<non-edgegraph>": "Cls!val!2",
  "NBbad@0": "[else -> False]",
  "_universes@pre": "[Ref!val!16 -> Unit(Ref!val!22),\n Ref!val!14 -> Unit(Ref!val!14),\n Ref!val!17 -> Unit(Ref!val!21),\n else -> Empty(Seq(Ref))]",
  "memo_val@pre": "[else -> Ref!val!9]",
  "_links@pre": "[Ref!val!17 -> Unit(Ref!val!20), else -> Empty(Seq(Ref))]",
  "memo_has@pre": "[else -> False]",
  "sub": "[(Cls!val!0, Cls!val!1) -> True,\n (Cls!val!3, Cls!val!1) -> True,\n (Cls!val!4, Cls!val!4) -> True,\n (Cls!val!1, Cls!val!4) -> True,\n (Cls!val!1, Cls!val!1) -> True,\n (Cls!val!5, Cls!val!4) -> True,\n (Cls!val!5, Cls!val!5) -> True,\n (Cls!val!6, Cls!val!4) -> True,\n (Cls!val!6, Cls!val!5) -> True,\n (C",
  "_vertices@pre": "[Ref!val!17 -> Unit(Ref!val!17), else -> Empty(Seq(Ref))]",
  "seq.nth_u": "[(Unit(Ref!val!17), 1) -> Ref!val!16,\n (Empty(Seq(Ref)), 1) -> Ref!val!12,\n (Empty(Seq(Ref)), 0) -> Ref!val!13,\n else -> Ref!val!11]",
  "cnt": "[(Concat(Unit(Ref!val!16), Unit(Ref!val!15)), Ref!val!14) ->\n 1,\n (Concat(Unit(Ref!val!23), Unit(Ref!val!16)), Ref!val!16) ->\n 1,\n (Concat(Unit(Ref!val!14),\n         Concat(Unit(Ref!val!16), Unit(Ref!val!19))),\n  Ref!val!16) ->\n 2,\n (Unit(Ref!val!15), Ref!val!14) -> 1,\n (Unit(Ref!val!14), Ref!val!14",
  "memo_val@pre~47": "[else -> Ref!val!6]",
  "BFS_np@0": "[(Ref!val!17,\n  Empty(Seq(Ref)),\n  Concat(Unit(Ref!val!16), Unit(Ref!val!15))) ->\n Empty(Seq(Ref)),\n (Ref!val!17,\n  Concat(Unit(Ref!val!14), Unit(Ref!val!16)),\n  Concat(Unit(Ref!val!16), Unit(Ref!val!15))) ->\n Concat(Unit(Ref!val!23), Unit(Ref!val!16)),\n else -> Unit(Ref!val!23)]",
  "cls": "[Ref!val!14 -> Cls!val!0,\n Ref!val!15 -> Cls!val!3,\n Ref!val!16 -> Cls!val!12,\n Ref!val!6 -> Cls!val!13,\n Ref!val!17 -> Cls!val!11,\n Ref!val!9 -> Cls!val!14,\n Ref!val!10 -> Cls!val!15,\n Ref!val!12 -> Cls!val!16,\n Ref!val!13 -> Cls!val!17,\n else -> Cls!val!2]",
  "BFS_A@0": "[(Ref!val!14, Ref!val!17, 2, 4, Ref!val!17, 0) ->\n Unit(Ref!val!14),\n else -> Concat(Unit(Ref!val!16), Unit(Ref!val!15))]",
  "memo_has@pre~46": "[else -> True]",
  "NBf@0": "[(Empty(Seq(Ref)), Ref!val!15, 2, 4, Ref!val!17) ->\n Concat(Unit(Ref!val!14),\n        Concat(Unit(Ref!val!16), Unit(Ref!val!19))),\n (Empty(Seq(Ref)), Ref!val!16, 2, 4, Ref!val!17) ->\n Unit(Ref!val!22),\n else -> Empty(Seq(Ref))]",
  "elems@pre~48": "[Ref!val!6 ->\n Concat(Unit(Ref!val!14),\n        Concat(Unit(Ref!val!16), Unit(Ref!val!19))),\n else -> Unit(Ref!val!15)]",
  "ReachFrom@0": "[(Ref!val!17, 2, 4, Ref!val!17, Ref!val!14, Ref!val!14) ->\n True,\n else -> False]",
  "flt": "[else -> Empty(Seq(Ref))]",
  "cb1_raises": "[else -> False]",
  "cb1": "[else -> False]",
  "memo_has@pre~53": "[else -> False]",
  "elems@pre": "[else -> Empty(Seq(Ref))]",
  "memo_val@pre~54": "[else -> Ref!val!10]",
  "elems@pre~55": "[Ref!val!5 -> Unit(Ref!val!23), else -> Empty(Seq(Ref))]"
 },
 "other_refuted_obligations_of_this_function": [
  "breadthfirst.ibft/loop1/preserve/schema:listed-vertices-are-reachable#19",
  "breadthfirst.ibft/loop1/preserve/schema:listed-vertices-are-reachable",
  "breadthfirst.ibft/loop1/preserve/schema:listed-vertices-are-reachable#30",
  "breadthfirst.ibft/loop1/preserve/schema:listed-vertices-are-reachable#22",
  "breadthfirst.ibft/loop1/preserve/schema:listed-vertices-are-reachable#31",
  "breadthfirst.ibft/loop0/entry/schema:listed-vertices-are-reachable",
  "breadthfirst.ibft/loop0/entry/schema:listed-vertices-are-reachable#2",
  "breadthfirst.ibft/loop1/preserve/schema:listed-vertices-are-reachable#13",
  "breadthfirst.ibft/loop1/preserve/schema:listed-vertices-are-reachable#23",
  "breadthfirst.ibft/loop1/preserve/schema:listed-vertices-are-reachable#2",
  "breadthfirst.ibft/loop1/preserve/schema:listed-vertices-are-reachable#4",
  "breadthfirst.ibft/call:helpers.neighbors/type:vert#2",
  "breadthfirst.ibft/loop1/preserve/schema:listed-vertices-are-reachable#14",
  "breadthfirst.ibft/loop0/entry/schema:listed-vertices-are-reachable#5",
  "breadthfirst.ibft/call:helpers.neighbors/type:vert",
  "breadthfirst.ibft/loop1/preserve/schema:listed-vertices-are-reachable#5",
  "breadthfirst.ibft/loop1/preserve/schema:listed-vertices-are-reachable#16",
  "breadthfirst.ibft/loop0/entry/schema:listed-vertices-are-reachable#4",
  "breadthfirst.ibft/call:helpers.neighbors/type:vert#5",
  "breadthfirst.ibft/call:helpers.neighbors/type:vert#4",
  "breadthfirst.ibft/loop1/preserve/schema:listed-vertices-are-reachable#34",
  "breadthfirst.ibft/loop0/entry/schema:listed-vertices-are-reachable#1",
  "breadthfirst.ibft/loop1/preserve/schema:listed-vertices-are-reachable#7",
  "breadthfirst.ibft/loop0/entry/schema:listed-vertices-are-reachable#3",
  "breadthfirst.ibft/loop1/preserve/schema:listed-vertices-are-reachable#26",
  "breadthfirst.ibft/loop1/preserve/schema:listed-vertices-are-reachable#35",
  "breadthfirst.ibft/call:helpers.neighbors/type:vert#1",
  "breadthfirst.ibft/loop1/preserve/schema:listed-vertices-are-reachable#8",
  "breadthfirst.ibft/loop1/preserve/schema:listed-vertices-are-reachable#10",
  "breadthfirst.ibft/call:helpers.neighbors/type:vert#3",
  "breadthfirst.ibft/loop1/preserve/schema:listed-vertices-are-reachable#27"
 ],
 "bounded_search_for_a_failing_input": {
  "histories": 2513177,
  "calls_checked": 0,
  "distinct": 2285343,
  "workers": 14,
  "budget_s_each": 40.0,
  "errors": [],
  "sample": [
   [
    "new_edge",
    -1,
    -1,
    -1
   ],
   [
    "u_add_vertex",
    -1,
    -1
   ],
   [
    "new_edge",
    2,
    2,
    2
   ],
   [
    "new_edge",
    -1,
    2,
    -1
   ],
   [
    "traverse",
    2,
    0,
    3,
    -1,
    2,
    1,
    -1
   ],
   [
    "search",
    3,
    -1,
    2,
    1,
    -1
   ],
   [
    "link_from_to",
    2,
    -1,
    1,
    2
   ],
   [
    "add_vertex",
    3,
    3
   ]
  ],
  "focus": [
   "breadthfirst.ibft"
  ],
  "purpose": "search for a failing input for refuted obligations"
 }
}''')
print('failed obligation:', OBLIGATION['obligation'])
print('clause:', OBLIGATION['clause'])
print(json.dumps(OBLIGATION['solver_model'], indent=1))
sys.exit(1)
