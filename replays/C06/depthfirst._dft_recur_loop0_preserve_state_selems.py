"""Failed proof obligation (pyvc). No concrete failing input was constructed for this obligation:
the solver model below is the verifier's counterexample to the verification condition.
"""
import json, sys
OBLIGATION = json.loads(r'''{
 "property": "C06",
 "obligation": "depthfirst._dft_recur/loop0/preserve/state:selems",
 "function": "depthfirst._dft_recur",
 "source": "edgegraph/traversal/depthfirst.py:75",
 "source_sha256": "e432847f917f9e128d6cfca72111f3a24c9c6b39ce432b6d46e9dddc79521fbf",
 "clause": "loop invariant: heap field selems",
 "path": "bool@98-if@98+[neighbors:cached]L0ibool@107+None.vertices-[vertices:0]if@107-if@109+[_dft_recur:0]",
 "backend": "z3-5.1.0",
 "solver_model": {
  "class:DirectedEdge": "Cls!val!8",
  "class:UniverseLaws": "Cls!val!10",
  "pre!16": "Unit(Ref!val!23)",
  "k_selems!73": "Ref!val!6",
  "spec_nbs!0": "Ref!val!5",
  "class:BaseObject": "Cls!val!5",
  "class:Universe": "Cls!val!4",
  "class:TwoEndedLink": "Cls!val!7",
  "unknown_handling": "4",
  "v": "Ref!val!21",
  "class:Vertex": "Cls!val!1",
  "direction_sensitive": "0",
  "visited": "Ref!val!10",
  "class:UnDirectedEdge": "Cls!val!9",
  "x!17": "Ref!val!10",
  "suf!18": "Unit(Ref!val!17)",
  "Vertex._QA_NB_INVALID": "Ref!val!1",
  "None": "Ref!val!2",
  "True": "Ref!val!7",
  "False": "Ref!val!3",
  "ff_via": "Ref!val!2",
  "spec_vertices!19": "Ref!val!6",
  "class:Link": "Cls!val!6",
  "uni": "Ref!val!0",
  "ff_result": "Ref!val!2",
  "class:NoneType": "Cls!val!11",
  "CACHING@pre": "True",
  "class:<non-edgegraph>": "Cls!val!2",
  "dkeys@pre": "[else -> Unit(Ref!val!18)]",
  "_universes@pre": "[Ref!val!0 -> Empty(Seq(Ref)),\n Ref!val!10 -> Unit(Ref!val!22),\n Ref!val!2 -> Unit(Ref!val!22),\n Ref!val!6 -> Unit(Ref!val!23),\n else -> Unit(Ref!val!24)]",
  "memo_val@pre": "[else -> Ref!val!4]",
  "_links@pre": "[Ref!val!21 -> Unit(Ref!val!21),\n Ref!val!0 -> Unit(Ref!val!20),\n Ref!val!4 -> Unit(Ref!val!21),\n Ref!val!6 -> Unit(Ref!val!23),\n Ref!val!10 -> Unit(Ref!val!21),\n Ref!val!12 -> Unit(Ref!val!19),\n Ref!val!8 -> Empty(Seq(Ref)),\n Ref!val!9 -> Empty(Seq(Ref)),\n Ref!val!2 -> Unit(Ref!val!22),\n Ref!val!14",
  "memo_has@pre~11": "[else -> False]",
  "sub": "[(Cls!val!0, Cls!val!1) -> True,\n (Cls!val!3, Cls!val!4) -> True,\n (Cls!val!5, Cls!val!5) -> True,\n (Cls!val!1, Cls!val!5) -> True,\n (Cls!val!1, Cls!val!1) -> True,\n (Cls!val!6, Cls!val!5) -> True,\n (Cls!val!6, Cls!val!6) -> True,\n (Cls!val!7, Cls!val!5) -> True,\n (Cls!val!7, Cls!val!6) -> True,\n (C",
  "elems@pre~5": "[else -> Empty(Seq(Ref))]",
  "DFSr_fold@0": "[(Ref!val!0,\n  0,\n  4,\n  Ref!val!2,\n  Empty(Seq(Ref)),\n  Ref!val!21,\n  Unit(Ref!val!18)) ->\n Unit(Ref!val!21),\n (Ref!val!0,\n  0,\n  4,\n  Ref!val!2,\n  Concat(Unit(Ref!val!23),\n         Concat(Unit(Ref!val!10), Unit(Ref!val!17))),\n  Ref!val!21,\n  Unit(Ref!val!18)) ->\n Empty(Seq(Ref)),\n (Ref!val!0,\n  0,",
  "_vertices@pre": "[Ref!val!0 -> Unit(Ref!val!10),\n Ref!val!4 -> Unit(Ref!val!15),\n else -> Empty(Seq(Ref))]",
  "cnt": "[(Unit(Ref!val!16), Ref!val!21) -> 1,\n (Unit(Ref!val!17), Ref!val!10) -> 1,\n (Unit(Ref!val!18), Ref!val!0) -> 1,\n (Unit(Ref!val!18), Ref!val!2) -> 1,\n (Unit(Ref!val!18), Ref!val!1) -> 1,\n (Unit(Ref!val!18), Ref!val!5) -> 1,\n (Unit(Ref!val!18), Ref!val!6) -> 1,\n (Unit(Ref!val!18), Ref!val!7) -> 1,\n (",
  "selems@pre": "[else -> Unit(\"!0!\")]",
  "memo_val@pre~12": "[else -> Ref!val!9]",
  "seq.nth_u": "[(Unit(Ref!val!10), 1) -> Ref!val!12,\n (Empty(Seq(Ref)), 1) -> Ref!val!13,\n (Empty(Seq(Ref)), 0) -> Ref!val!14,\n else -> Ref!val!11]",
  "DFSr_out@0": "[(Ref!val!0,\n  0,\n  4,\n  Ref!val!2,\n  Ref!val!10,\n  Concat(Unit(Ref!val!18), Unit(Ref!val!16))) ->\n Unit(Ref!val!15),\n else -> Empty(Seq(Ref))]",
  "cls": "[Ref!val!21 -> Cls!val!0,\n Ref!val!0 -> Cls!val!3,\n Ref!val!2 -> Cls!val!11,\n Ref!val!4 -> Cls!val!12,\n Ref!val!10 -> Cls!val!13,\n Ref!val!12 -> Cls!val!14,\n Ref!val!8 -> Cls!val!15,\n Ref!val!9 -> Cls!val!16,\n Ref!val!13 -> Cls!val!17,\n Ref!val!14 -> Cls!val!18,\n else -> Cls!val!2]",
  "NBf@0": "[(Unit(Ref!val!21), Ref!val!21, 0, 4, Ref!val!2) ->\n Concat(Unit(Ref!val!23),\n        Concat(Unit(Ref!val!10), Unit(Ref!val!17))),\n (Unit(Ref!val!22), Ref!val!2, 0, 4, Ref!val!2) ->\n Unit(Ref!val!24),\n (Unit(Ref!val!24), Ref!val!7, 0, 4, Ref!val!2) ->\n Empty(Seq(Ref)),\n (Unit(Ref!val!19), Ref!val!12",
  "memo_has@pre~3": "[else -> False]",
  "elems@pre~13": "[else -> Empty(Seq(Ref))]",
  "ReachFrom@0": "[(Ref!val!0, 0, 4, Ref!val!2, Ref!val!21, Ref!val!21) ->\n True,\n (Ref!val!0, 0, 4, Ref!val!2, Ref!val!0, Ref!val!0) -> True,\n (Ref!val!0, 0, 4, Ref!val!2, Ref!val!2, Ref!val!2) -> True,\n (Ref!val!0, 0, 4, Ref!val!2, Ref!val!1, Ref!val!1) -> True,\n (Ref!val!0, 0, 4, Ref!val!2, Ref!val!4, Ref!val!4) -",
  "flt": "[(Ref!val!2, Unit(Ref!val!21)) -> Unit(Ref!val!21),\n else -> Empty(Seq(Ref))]",
  "cb1_raises": "[else -> False]",
  "elems@pre": "[else ->\n Concat(Unit(Ref!val!23),\n        Concat(Unit(Ref!val!10), Unit(Ref!val!17)))]",
  "NBbad@0": "[else -> False]",
  "memo_val@pre~4": "[else -> Ref!val!8]",
  "memo_has@pre": "[else -> True]"
 },
 "other_refuted_obligations_of_this_function": [
  "depthfirst._dft_recur/loop0/preserve/state:selems#2",
  "depthfirst._dft_recur/loop0/preserve/state:selems#3",
  "depthfirst._dft_recur/loop0/preserve/state:selems#5",
  "depthfirst._dft_recur/loop0/preserve/state:selems#6",
  "depthfirst._dft_recur/loop0/preserve/state:selems#1",
  "depthfirst._dft_recur/loop0/preserve/state:selems#4",
  "depthfirst._dft_recur/loop0/preserve/state:selems#7"
 ],
 "bounded_search_for_a_failing_input": {
  "histories": 2979563,
  "calls_checked": 0,
  "distinct": 2701524,
  "workers": 14,
  "budget_s_each": 40.0,
  "errors": [],
  "sample": [
   [
    "traverse",
    2,
    2,
    2,
    0,
    2,
    3,
    0
   ],
   [
    "u_remove_vertex",
    -1,
    1
   ]
  ],
  "focus": [
   "depthfirst._dft_recur"
  ],
  "purpose": "search for a failing input for refuted obligations"
 }
}''')
print('failed obligation:', OBLIGATION['obligation'])
print('clause:', OBLIGATION['clause'])
print(json.dumps(OBLIGATION['solver_model'], indent=1))
sys.exit(1)
