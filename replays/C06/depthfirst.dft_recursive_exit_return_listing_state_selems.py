"""Failed proof obligation (pyvc). No concrete failing input was constructed for this obligation:
the solver model below is the verifier's counterexample to the verification condition.
"""
import json, sys
OBLIGATION = json.loads(r'''{
 "property": "C06",
 "obligation": "depthfirst.dft_recursive/exit:return/listing/state:selems",
 "function": "depthfirst.dft_recursive",
 "source": "edgegraph/traversal/depthfirst.py:161",
 "source_sha256": "4981a6b42593737b1ce029350f67f52ad999ae404d9e3ab2ec46b2198bd72be9",
 "clause": "post-state of field selems",
 "path": "[idft_recursive:listing]",
 "backend": "z3-5.1.0",
 "solver_model": {
  "class:DirectedEdge": "Cls!val!6",
  "class:UniverseLaws": "Cls!val!8",
  "class:BaseObject": "Cls!val!3",
  "start": "Ref!val!10",
  "class:Universe": "Cls!val!1",
  "class:TwoEndedLink": "Cls!val!5",
  "ff_result": "Ref!val!1",
  "unknown_handling": "3",
  "direction_sensitive": "1",
  "class:Vertex": "Cls!val!2",
  "class:UnDirectedEdge": "Cls!val!7",
  "True": "Ref!val!5",
  "k_selems!21": "Ref!val!4",
  "None": "Ref!val!1",
  "Vertex._QA_NB_INVALID": "Ref!val!2",
  "False": "Ref!val!3",
  "list!20": "Ref!val!4",
  "ff_via": "Ref!val!1",
  "class:Link": "Cls!val!4",
  "uni": "Ref!val!0",
  "class:NoneType": "Cls!val!9",
  "class:<non-edgegraph>": "Cls!val!10",
  "cls": "[Ref!val!0 -> Cls!val!0,\n Ref!val!1 -> Cls!val!9,\n Ref!val!10 -> Cls!val!11,\n Ref!val!7 -> Cls!val!12,\n Ref!val!8 -> Cls!val!13,\n Ref!val!9 -> Cls!val!14,\n else -> Cls!val!10]",
  "_links@pre": "[Ref!val!0 -> Unit(Ref!val!12),\n Ref!val!10 -> Unit(Ref!val!13),\n else -> Empty(Seq(Ref))]",
  "sub": "[(Cls!val!0, Cls!val!1) -> True,\n (Cls!val!3, Cls!val!3) -> True,\n (Cls!val!2, Cls!val!3) -> True,\n (Cls!val!2, Cls!val!2) -> True,\n (Cls!val!4, Cls!val!3) -> True,\n (Cls!val!4, Cls!val!4) -> True,\n (Cls!val!5, Cls!val!3) -> True,\n (Cls!val!5, Cls!val!4) -> True,\n (Cls!val!5, Cls!val!5) -> True,\n (C",
  "ReachFrom@0": "[else -> True]",
  "_vertices@pre": "[Ref!val!0 -> Unit(Ref!val!10), else -> Empty(Seq(Ref))]",
  "cnt": "[(Unit(Ref!val!11), Ref!val!0) -> 1,\n (Unit(Ref!val!11), Ref!val!1) -> 1,\n (Unit(Ref!val!11), Ref!val!2) -> 1,\n (Unit(Ref!val!11), Ref!val!4) -> 1,\n (Unit(Ref!val!11), Ref!val!5) -> 1,\n (Unit(Ref!val!10), Ref!val!10) -> 1,\n (Unit(Ref!val!11), Ref!val!10) -> 1,\n (Unit(Ref!val!11), Ref!val!7) -> 1,\n e",
  "selems@pre": "[else -> Unit(\"!0!\")]",
  "cb1_raises": "[else -> False]",
  "seq.nth_u": "[(Unit(Ref!val!10), 1) -> Ref!val!7,\n (Empty(Seq(Ref)), 1) -> Ref!val!8,\n (Empty(Seq(Ref)), 0) -> Ref!val!9,\n else -> Ref!val!6]",
  "NBbad@0": "[else -> False]",
  "_universes@pre": "[Ref!val!10 -> Unit(Ref!val!12),\n Ref!val!7 -> Empty(Seq(Ref)),\n else -> Unit(Ref!val!11)]",
  "DFSr_out@0": "[else -> Unit(Ref!val!11)]"
 },
 "other_refuted_obligations_of_this_function": [],
 "bounded_search_for_a_failing_input": {
  "histories": 2256211,
  "calls_checked": 0,
  "distinct": 2055346,
  "workers": 14,
  "budget_s_each": 40.0,
  "errors": [],
  "sample": [
   [
    "u_add_vertex",
    -1,
    -1
   ],
   [
    "search",
    -1,
    0,
    -1,
    0,
    0
   ],
   [
    "add_vertex",
    0,
    -1
   ],
   [
    "new_vertex_unis",
    0,
    0,
    0
   ],
   [
    "traverse",
    0,
    -1,
    0,
    -1,
    0,
    -1,
    -1
   ],
   [
    "new_vertex_unis",
    0,
    -1,
    -1
   ],
   [
    "search",
    0,
    0,
    1,
    -1,
    -1
   ]
  ],
  "focus": [
   "depthfirst.dft_recursive"
  ],
  "purpose": "search for a failing input for refuted obligations"
 }
}''')
print('failed obligation:', OBLIGATION['obligation'])
print('clause:', OBLIGATION['clause'])
print(json.dumps(OBLIGATION['solver_model'], indent=1))
sys.exit(1)
