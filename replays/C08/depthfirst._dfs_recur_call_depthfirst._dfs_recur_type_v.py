"""Failed proof obligation (pyvc). No concrete failing input was constructed for this obligation:
the solver model below is the verifier's counterexample to the verification condition.
"""
import json, sys
OBLIGATION = json.loads(r'''{
 "property": "C08",
 "obligation": "depthfirst._dfs_recur/call:depthfirst._dfs_recur/type:v",
 "function": "depthfirst._dfs_recur",
 "source": "edgegraph/traversal/depthfirst.py:200",
 "source_sha256": "33216a08145ce8a19d39512a96458353b01eede2c7c64944ea9c4e9620b9dd88",
 "clause": "argument v of depthfirst._dfs_recur has type Vertex",
 "path": "[neighbors:cached]L0ibool@222-if@224+if@226+[__getitem__:1]if@227-",
 "backend": "z3-5.1.0",
 "solver_model": {
  "class:DirectedEdge": "Cls!val!6",
  "class:UniverseLaws": "Cls!val!9",
  "class:BaseObject": "Cls!val!3",
  "class:Universe": "Cls!val!8",
  "class:TwoEndedLink": "Cls!val!5",
  "x!420": "Ref!val!15",
  "v": "Ref!val!16",
  "class:Vertex": "Cls!val!1",
  "spec_nbs!407": "Ref!val!4",
  "visited": "Ref!val!2",
  "pre!419": "Empty(Seq(Ref))",
  "attrib": "\"!0!\"",
  "class:UnDirectedEdge": "Cls!val!7",
  "True": "Ref!val!9",
  "Vertex._QA_NB_INVALID": "Ref!val!1",
  "val": "Ref!val!5",
  "False": "Ref!val!8",
  "suf!421": "Empty(Seq(Ref))",
  "class:Link": "Cls!val!4",
  "uni": "Ref!val!0",
  "class:NoneType": "Cls!val!14",
  "None": "Ref!val!0",
  "CACHING@pre": "True",
  "class:<non-edgegraph>": "Cls!val!10",
  "dkeys@pre": "[else -> Unit(Ref!val!10)]",
  "memo_val@pre": "[else -> Ref!val!3]",
  "_links@pre": "[Ref!val!0 -> Unit(Ref!val!15),\n Ref!val!15 -> Unit(Ref!val!15),\n else -> Empty(Seq(Ref))]",
  "sub": "[(Cls!val!0, Cls!val!1) -> True,\n (Cls!val!2, Cls!val!3) -> True,\n (Cls!val!3, Cls!val!3) -> True,\n (Cls!val!1, Cls!val!3) -> True,\n (Cls!val!1, Cls!val!1) -> True,\n (Cls!val!4, Cls!val!3) -> True,\n (Cls!val!4, Cls!val!4) -> True,\n (Cls!val!5, Cls!val!3) -> True,\n (Cls!val!5, Cls!val!4) -> True,\n (C",
  "memo_has@pre~83": "[else -> False]",
  "py_eq": "[else -> False]",
  "flt": "[else -> Unit(Ref!val!16)]",
  "dyn_has@pre": "[else -> False]",
  "elems@pre~85": "[else -> Unit(Ref!val!10)]",
  "NBbad@0": "[else -> False]",
  "_universes@pre": "[Ref!val!15 -> Unit(Ref!val!16),\n Ref!val!0 -> Unit(Ref!val!15),\n else -> Empty(Seq(Ref))]",
  "memo_has@pre": "[else -> True]",
  "cls_get": "[else -> Ref!val!7]",
  "cls_has": "[else -> True]",
  "DFSr_fold@0": "[(Ref!val!0,\n  0,\n  2,\n  Ref!val!0,\n  Unit(Ref!val!15),\n  Ref!val!16,\n  Unit(Ref!val!10)) ->\n Empty(Seq(Ref)),\n else -> Unit(Ref!val!16)]",
  "_vertices@pre": "[Ref!val!0 -> Unit(Ref!val!10), else -> Empty(Seq(Ref))]",
  "cnt": "[(Unit(Ref!val!15), Ref!val!15) -> 1,\n (Unit(Ref!val!16), Ref!val!16) -> 1,\n (Unit(Ref!val!10), Ref!val!10) -> 1,\n (Unit(Ref!val!15), Ref!val!0) -> 1,\n else -> 0]",
  "seq.nth_u": "[(Unit(Ref!val!10), 1) -> Ref!val!13,\n (Empty(Seq(Ref)), 1) -> Ref!val!14,\n (Empty(Seq(Ref)), 0) -> Ref!val!16,\n else -> Ref!val!12]",
  "DFSr_out@0": "[else -> Empty(Seq(Ref))]",
  "cls": "[Ref!val!16 -> Cls!val!0,\n Ref!val!15 -> Cls!val!2,\n Ref!val!0 -> Cls!val!14,\n Ref!val!2 -> Cls!val!11,\n Ref!val!3 -> Cls!val!12,\n Ref!val!5 -> Cls!val!13,\n Ref!val!7 -> Cls!val!15,\n Ref!val!6 -> Cls!val!16,\n Ref!val!10 -> Cls!val!17,\n Ref!val!13 -> Cls!val!18,\n Ref!val!11 -> Cls!val!19,\n Ref!val!14",
  "NBf@0": "[else -> Unit(Ref!val!15)]",
  "memo_val@pre~84": "[else -> Ref!val!11]",
  "dyn_val@pre": "[else -> Ref!val!6]",
  "DFSr_firstmatch@0": "[else -> Ref!val!0]",
  "cb1_raises": "[else -> False]",
  "elems@pre": "[else -> Unit(Ref!val!15)]",
  "DFSr_firstmatch_fold@0": "[else -> Ref!val!0]"
 },
 "other_refuted_obligations_of_this_function": [
  "depthfirst._dfs_recur/call:depthfirst._dfs_recur/type:v#2",
  "depthfirst._dfs_recur/call:depthfirst._dfs_recur/type:v#1",
  "depthfirst._dfs_recur/call:depthfirst._dfs_recur/type:v#3",
  "depthfirst._dfs_recur/call:BaseObject.__getitem__/type:self"
 ],
 "bounded_search_for_a_failing_input": {
  "histories": 2792442,
  "calls_checked": 0,
  "distinct": 2534769,
  "workers": 14,
  "budget_s_each": 40.0,
  "errors": [],
  "sample": [
   [
    "new_universe",
    2,
    1,
    -1
   ],
   [
    "new_edge",
    1,
    2,
    2
   ],
   [
    "new_edge",
    2,
    2,
    2
   ],
   [
    "traverse",
    2,
    2,
    3,
    2,
    1,
    1,
    1
   ],
   [
    "new_edge",
    2,
    2,
    3
   ]
  ],
  "focus": [
   "depthfirst._dfs_recur"
  ],
  "purpose": "search for a failing input for refuted obligations"
 }
}''')
print('failed obligation:', OBLIGATION['obligation'])
print('clause:', OBLIGATION['clause'])
print(json.dumps(OBLIGATION['solver_model'], indent=1))
sys.exit(1)
