"""Failed proof obligation (pyvc). No concrete failing input was constructed for this obligation:
the solver model below is the verifier's counterexample to the verification condition.
"""
import json, sys
OBLIGATION = json.loads(r'''{
 "property": "C08",
 "obligation": "depthfirst._dfs_recur/call:BaseObject.__getitem__/type:self",
 "function": "depthfirst._dfs_recur",
 "source": "edgegraph/traversal/depthfirst.py:200",
 "source_sha256": "33216a08145ce8a19d39512a96458353b01eede2c7c64944ea9c4e9620b9dd88",
 "clause": "argument self of BaseObject.__getitem__ has type BaseObject",
 "path": "[neighbors:cached]L0ibool@222-if@224+if@226+",
 "backend": "z3-5.1.0",
 "solver_model": {
  "class:DirectedEdge": "Cls!val!5",
  "class:UniverseLaws": "Cls!val!8",
  "class:BaseObject": "Cls!val!2",
  "suf!15": "Empty(Seq(Ref))",
  "class:Universe": "Cls!val!7",
  "class:TwoEndedLink": "Cls!val!4",
  "v": "Ref!val!15",
  "class:Vertex": "Cls!val!1",
  "spec_nbs!1": "Ref!val!3",
  "visited": "Ref!val!2",
  "pre!13": "Empty(Seq(Ref))",
  "x!14": "Ref!val!14",
  "attrib": "\"!0!\"",
  "class:UnDirectedEdge": "Cls!val!6",
  "Vertex._QA_NB_INVALID": "Ref!val!1",
  "True": "Ref!val!9",
  "val": "Ref!val!4",
  "False": "Ref!val!8",
  "class:Link": "Cls!val!3",
  "uni": "Ref!val!0",
  "class:NoneType": "Cls!val!9",
  "None": "Ref!val!0",
  "CACHING@pre": "True",
  "class:<non-edgegraph>": "Cls!val!10",
  "dkeys@pre": "[else -> Unit(Ref!val!16)]",
  "memo_val@pre": "[else -> Ref!val!15]",
  "_links@pre": "[Ref!val!14 -> Unit(Ref!val!14),\n Ref!val!0 -> Unit(Ref!val!14),\n else -> Empty(Seq(Ref))]",
  "sub": "[(Cls!val!0, Cls!val!1) -> True,\n (Cls!val!2, Cls!val!2) -> True,\n (Cls!val!1, Cls!val!2) -> True,\n (Cls!val!1, Cls!val!1) -> True,\n (Cls!val!3, Cls!val!2) -> True,\n (Cls!val!3, Cls!val!3) -> True,\n (Cls!val!4, Cls!val!2) -> True,\n (Cls!val!4, Cls!val!3) -> True,\n (Cls!val!4, Cls!val!4) -> True,\n (C",
  "py_eq": "[else -> True]",
  "flt": "[else -> Unit(Ref!val!15)]",
  "dyn_has@pre": "[else -> True]",
  "NBbad@0": "[else -> False]",
  "_universes@pre": "[Ref!val!12 -> Empty(Seq(Ref)), else -> Unit(Ref!val!14)]",
  "memo_has@pre": "[else -> True]",
  "cls_get": "[else -> Ref!val!6]",
  "elems@pre~5": "[else -> Unit(Ref!val!16)]",
  "DFSr_fold@0": "[(Ref!val!0,\n  0,\n  2,\n  Ref!val!0,\n  Unit(Ref!val!14),\n  Ref!val!15,\n  Unit(Ref!val!16)) ->\n Empty(Seq(Ref)),\n else -> Unit(Ref!val!15)]",
  "_vertices@pre": "[Ref!val!0 -> Unit(Ref!val!14), else -> Empty(Seq(Ref))]",
  "cnt": "[(Unit(Ref!val!14), Ref!val!0) -> 1,\n (Unit(Ref!val!14), Ref!val!14) -> 1,\n (Unit(Ref!val!15), Ref!val!15) -> 1,\n else -> 0]",
  "seq.nth_u": "[(Unit(Ref!val!14), 1) -> Ref!val!12,\n (Empty(Seq(Ref)), 1) -> Ref!val!13,\n (Empty(Seq(Ref)), 0) -> Ref!val!15,\n else -> Ref!val!11]",
  "DFSr_out@0": "[else -> Empty(Seq(Ref))]",
  "cls": "[Ref!val!15 -> Cls!val!0,\n Ref!val!14 -> Cls!val!13,\n Ref!val!0 -> Cls!val!9,\n Ref!val!2 -> Cls!val!11,\n Ref!val!4 -> Cls!val!12,\n Ref!val!7 -> Cls!val!14,\n Ref!val!6 -> Cls!val!15,\n Ref!val!5 -> Cls!val!16,\n Ref!val!12 -> Cls!val!17,\n Ref!val!10 -> Cls!val!18,\n Ref!val!13 -> Cls!val!19,\n else -> Cl",
  "NBf@0": "[else -> Unit(Ref!val!14)]",
  "memo_has@pre~3": "[else -> False]",
  "dyn_val@pre": "[else -> Ref!val!5]",
  "DFSr_firstmatch@0": "[(Ref!val!0,\n  0,\n  2,\n  Ref!val!0,\n  \"!0!\",\n  Ref!val!4,\n  Ref!val!14,\n  Concat(Unit(Ref!val!16), Unit(Ref!val!15))) ->\n Ref!val!7,\n else -> Ref!val!14]",
  "cb1_raises": "[else -> False]",
  "elems@pre": "[else -> Unit(Ref!val!14)]",
  "DFSr_firstmatch_fold@0": "[(Ref!val!0,\n  0,\n  2,\n  Ref!val!0,\n  \"!0!\",\n  Ref!val!4,\n  Unit(Ref!val!14),\n  Ref!val!15,\n  Unit(Ref!val!16)) ->\n Ref!val!14,\n else -> Ref!val!0]",
  "memo_val@pre~4": "[else -> Ref!val!10]"
 },
 "other_refuted_obligations_of_this_function": [
  "depthfirst._dfs_recur/call:depthfirst._dfs_recur/type:v",
  "depthfirst._dfs_recur/call:depthfirst._dfs_recur/type:v#1",
  "depthfirst._dfs_recur/call:depthfirst._dfs_recur/type:v#2",
  "depthfirst._dfs_recur/call:depthfirst._dfs_recur/type:v#3"
 ],
 "bounded_search_for_a_failing_input": {
  "histories": 2355939,
  "calls_checked": 0,
  "distinct": 2144741,
  "workers": 14,
  "budget_s_each": 40.0,
  "errors": [],
  "sample": [
   [
    "new_vertex_links",
    1,
    1
   ],
   [
    "traverse",
    1,
    1,
    1,
    2,
    -1,
    1,
    1
   ],
   [
    "u_add_vertex",
    1,
    1
   ],
   [
    "new_edge",
    1,
    1,
    3
   ],
   [
    "new_edge",
    1,
    -1,
    0
   ],
   [
    "new_vertex_links",
    0,
    0
   ],
   [
    "set_v2",
    0,
    0
   ],
   [
    "u_add_vertex",
    1,
    1
   ],
   [
    "set_tag",
    3,
    1
   ]
  ],
  "focus": [
   "depthfirst._dfs_recur"
  ],
  "purpose": "search for a failing input for refuted obligations"
 }
}''')
print('failed obligation:', OBLIGATION['obligation'])
print('clause:', OBLIGATION['clause'])
print(json.dumps(OBLIGATION['solver_model'], indent=1))
sys.exit(1)
