"""Failed proof obligation (pyvc). No concrete failing input was constructed for this obligation:
the solver model below is the verifier's counterexample to the verification condition.
"""
import json, sys
OBLIGATION = json.loads(r'''{
 "property": "C05",
 "obligation": "helpers.neighbors/exit:return/cached/state:selems",
 "function": "helpers.neighbors",
 "source": "edgegraph/traversal/helpers.py:70",
 "source_sha256": "14368df6350e32edc1b65e73245ef671dd36b1e10ca47079451b42d23e93f79b",
 "clause": "post-state of field selems",
 "path": "None._qa_neighbors_get-[_qa_neighbors_get:hit]if@184+",
 "backend": "z3-5.1.0+small-model",
 "solver_model": {
  "class:DirectedEdge": "Cls!val!5",
  "class:UniverseLaws": "Cls!val!8",
  "class:BaseObject": "Cls!val!2",
  "class:Universe": "Cls!val!7",
  "class:TwoEndedLink": "Cls!val!4",
  "unknown_handling": "3",
  "direction_sensitive": "2",
  "class:Vertex": "Cls!val!1",
  "class:UnDirectedEdge": "Cls!val!6",
  "True": "Ref!val!7",
  "vert": "Ref!val!0",
  "None": "Ref!val!1",
  "Vertex._QA_NB_INVALID": "Ref!val!2",
  "filterfunc": "Ref!val!3",
  "False": "Ref!val!4",
  "list!3": "Ref!val!6",
  "class:Link": "Cls!val!3",
  "k_selems!44": "Ref!val!6",
  "class:NoneType": "Cls!val!9",
  "CACHING@pre": "True",
  "class:<non-edgegraph>": "Cls!val!10",
  "cls": "[Ref!val!0 -> Cls!val!0,\n Ref!val!1 -> Cls!val!9,\n Ref!val!5 -> Cls!val!11,\n Ref!val!8 -> Cls!val!12,\n Ref!val!9 -> Cls!val!13,\n Ref!val!10 -> Cls!val!14,\n Ref!val!18 -> Cls!val!15,\n else -> Cls!val!10]",
  "NBf@0": "[else -> Empty(Seq(Ref))]",
  "memo_val@pre": "[else -> Ref!val!5]",
  "_links@pre": "[Ref!val!3 -> Unit(Ref!val!20),\n Ref!val!5 -> Unit(Ref!val!21),\n Ref!val!6 -> Unit(Ref!val!22),\n Ref!val!4 -> Unit(Ref!val!22),\n Ref!val!7 -> Unit(Ref!val!19),\n Ref!val!1 -> Unit(Ref!val!22),\n Ref!val!2 -> Unit(Ref!val!22),\n else -> Empty(Seq(Ref))]",
  "sub": "[(Cls!val!0, Cls!val!1) -> True,\n (Cls!val!2, Cls!val!2) -> True,\n (Cls!val!1, Cls!val!2) -> True,\n (Cls!val!1, Cls!val!1) -> True,\n (Cls!val!3, Cls!val!2) -> True,\n (Cls!val!3, Cls!val!3) -> True,\n (Cls!val!4, Cls!val!2) -> True,\n (Cls!val!4, Cls!val!3) -> True,\n (Cls!val!4, Cls!val!4) -> True,\n (C",
  "_vertices@pre": "[Ref!val!4 -> Unit(Ref!val!18),\n Ref!val!10 -> Unit(Ref!val!22),\n Ref!val!18 -> Unit(Ref!val!21),\n else -> Empty(Seq(Ref))]",
  "seq.nth_u": "[(Empty(Seq(Ref)), 0) -> Ref!val!9,\n (Unit(Ref!val!18), 1) -> Ref!val!10,\n (Unit(Ref!val!18), 0) -> Ref!val!12,\n (Unit(Ref!val!22), 1) -> Ref!val!14,\n (Unit(Ref!val!22), 0) -> Ref!val!15,\n (Unit(Ref!val!21), 1) -> Ref!val!16,\n (Unit(Ref!val!21), 0) -> Ref!val!17,\n else -> Ref!val!8]",
  "cnt": "[(Empty(Seq(Ref)), Ref!val!20) -> -1,\n (Empty(Seq(Ref)), Ref!val!19) -> 2,\n (Unit(Ref!val!18), Ref!val!18) -> 1,\n (Unit(Ref!val!20), Ref!val!0) -> 1,\n (Unit(Ref!val!21), Ref!val!0) -> 1,\n (Unit(Ref!val!22), Ref!val!0) -> 1,\n (Unit(Ref!val!19), Ref!val!0) -> 1,\n (Unit(Ref!val!22), Ref!val!22) -> 2,\n ",
  "selems@pre": "[else -> Unit(\"!0!\")]",
  "elems@pre": "[else -> Empty(Seq(Ref))]",
  "NBbad@0": "[else -> False]",
  "memo_has@pre": "[else -> True]"
 },
 "other_refuted_obligations_of_this_function": [
  "helpers.neighbors/exit:return/computed/state:selems"
 ],
 "bounded_search_for_a_failing_input": {
  "histories": 7040,
  "calls_checked": 4969,
  "distinct": 6949,
  "workers": 14,
  "budget_s_each": 40.0,
  "errors": [],
  "sample": [
   [
    "mutate_last_result",
    1
   ],
   [
    "query_neighbors",
    0,
    0,
    0,
    0
   ],
   [
    "new_edge",
    0,
    1,
    0
   ]
  ],
  "focus": [
   "helpers.neighbors"
  ],
  "purpose": "search for a failing input for refuted obligations"
 }
}''')
print('failed obligation:', OBLIGATION['obligation'])
print('clause:', OBLIGATION['clause'])
print(json.dumps(OBLIGATION['solver_model'], indent=1))
sys.exit(1)
