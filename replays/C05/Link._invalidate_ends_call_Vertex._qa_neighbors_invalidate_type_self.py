"""Failed proof obligation (pyvc). No concrete failing input was constructed for this obligation:
the solver model below is the verifier's counterexample to the verification condition.
"""
import json, sys
OBLIGATION = json.loads(r'''{
 "property": "C05",
 "obligation": "Link._invalidate_ends/call:Vertex._qa_neighbors_invalidate/type:self",
 "function": "Link._invalidate_ends",
 "source": "edgegraph/structure/link.py:125",
 "source_sha256": "81d9a32e529feee6e3454d49df2121dc46795d4c1323b1c6c28969a951d92f62",
 "clause": "argument self of Vertex._qa_neighbors_invalidate has type Vertex",
 "path": "None._vertices-L0iif@133+None._qa_neighbors_invalidate-",
 "backend": "z3-5.1.0",
 "solver_model": {
  "pre!5": "Unit(Ref!val!3)",
  "class:DirectedEdge": "Cls!val!6",
  "class:UniverseLaws": "Cls!val!9",
  "class:BaseObject": "Cls!val!4",
  "x!6": "Ref!val!7",
  "class:Universe": "Cls!val!8",
  "class:TwoEndedLink": "Cls!val!5",
  "suf!7": "Unit(Ref!val!4)",
  "class:Vertex": "Cls!val!3",
  "class:UnDirectedEdge": "Cls!val!7",
  "True": "Ref!val!5",
  "None": "Ref!val!1",
  "Vertex._QA_NB_INVALID": "Ref!val!2",
  "self": "Ref!val!0",
  "False": "Ref!val!6",
  "class:Link": "Cls!val!1",
  "class:NoneType": "Cls!val!10",
  "class:<non-edgegraph>": "Cls!val!11",
  "cls": "[Ref!val!0 -> Cls!val!0,\n Ref!val!7 -> Cls!val!2,\n Ref!val!1 -> Cls!val!10,\n else -> Cls!val!11]",
  "sub": "[(Cls!val!0, Cls!val!1) -> True,\n (Cls!val!4, Cls!val!4) -> True,\n (Cls!val!3, Cls!val!4) -> True,\n (Cls!val!3, Cls!val!3) -> True,\n (Cls!val!1, Cls!val!4) -> True,\n (Cls!val!1, Cls!val!1) -> True,\n (Cls!val!5, Cls!val!4) -> True,\n (Cls!val!5, Cls!val!1) -> True,\n (Cls!val!5, Cls!val!5) -> True,\n (C",
  "_vertices@pre": "[else ->\n Concat(Unit(Ref!val!3),\n        Concat(Unit(Ref!val!7), Unit(Ref!val!4)))]"
 },
 "other_refuted_obligations_of_this_function": [],
 "bounded_search_for_a_failing_input": {
  "histories": 5076,
  "calls_checked": 12293,
  "distinct": 5047,
  "workers": 14,
  "budget_s_each": 40.0,
  "errors": [],
  "sample": [
   [
    "toggle_cache",
    -1
   ],
   [
    "toggle_cache",
    1
   ],
   [
    "unlink_from",
    -1,
    2
   ],
   [
    "query_neighbors",
    -1,
    -1,
    2,
    -1
   ],
   [
    "find_links",
    -1,
    -1,
    0,
    -1,
    3
   ],
   [
    "link_from_to",
    2,
    1,
    1,
    -1
   ]
  ],
  "focus": [
   "Link._invalidate_ends"
  ],
  "purpose": "search for a failing input for refuted obligations"
 }
}''')
print('failed obligation:', OBLIGATION['obligation'])
print('clause:', OBLIGATION['clause'])
print(json.dumps(OBLIGATION['solver_model'], indent=1))
sys.exit(1)
