"""Failed proof obligation (pyvc). No concrete failing input was constructed for this obligation:
the solver model below is the verifier's counterexample to the verification condition.
"""
import json, sys
OBLIGATION = json.loads(r'''{
 "property": "C04",
 "obligation": "helpers.neighbors/exit:return/cached/state:selems",
 "function": "helpers.neighbors",
 "source": "edgegraph/traversal/helpers.py:70",
 "source_sha256": "14368df6350e32edc1b65e73245ef671dd36b1e10ca47079451b42d23e93f79b",
 "clause": "post-state of field selems",
 "path": "None._qa_neighbors_get-[_qa_neighbors_get:hit]if@184+",
 "backend": "z3-5.1.0+small-model",
 "solver_model": {
  "class:DirectedEdge": "Cls!val!5",
  "class:UniverseLaws": "Cls!val!8",
  "class:BaseObject": "Cls!val!2",
  "class:Universe": "Cls!val!7",
  "class:TwoEndedLink": "Cls!val!4",
  "unknown_handling": "10",
  "direction_sensitive": "2",
  "class:Vertex": "Cls!val!1",
  "class:UnDirectedEdge": "Cls!val!6",
  "True": "Ref!val!6",
  "vert": "Ref!val!0",
  "None": "Ref!val!1",
  "Vertex._QA_NB_INVALID": "Ref!val!2",
  "filterfunc": "Ref!val!3",
  "False": "Ref!val!4",
  "list!3": "Ref!val!5",
  "class:Link": "Cls!val!3",
  "k_selems!44": "Ref!val!5",
  "class:NoneType": "Cls!val!9",
  "CACHING@pre": "True",
  "class:<non-edgegraph>": "Cls!val!10",
  "cls": "[Ref!val!0 -> Cls!val!0,\n Ref!val!1 -> Cls!val!9,\n Ref!val!10 -> Cls!val!11,\n Ref!val!45 -> Cls!val!12,\n Ref!val!13 -> Cls!val!13,\n Ref!val!9 -> Cls!val!14,\n Ref!val!15 -> Cls!val!15,\n Ref!val!46 -> Cls!val!16,\n Ref!val!17 -> Cls!val!17,\n Ref!val!47 -> Cls!val!18,\n Ref!val!12 -> Cls!val!19,\n Ref!val",
  "NBf@0": "[else -> Empty(Seq(Ref))]",
  "memo_val@pre": "[else -> Ref!val!45]",
  "_links@pre": "[Ref!val!10 -> Unit(Ref!val!7),\n Ref!val!9 -> Unit(Ref!val!44),\n Ref!val!17 -> Unit(Ref!val!8),\n Ref!val!47 -> Unit(Ref!val!49),\n Ref!val!22 -> Unit(Ref!val!49),\n else -> Empty(Seq(Ref))]",
  "sub": "[(Cls!val!0, Cls!val!1) -> True,\n (Cls!val!2, Cls!val!2) -> True,\n (Cls!val!1, Cls!val!2) -> True,\n (Cls!val!1, Cls!val!1) -> True,\n (Cls!val!3, Cls!val!2) -> True,\n (Cls!val!3, Cls!val!3) -> True,\n (Cls!val!4, Cls!val!2) -> True,\n (Cls!val!4, Cls!val!3) -> True,\n (Cls!val!4, Cls!val!4) -> True,\n (C",
  "_vertices@pre": "[Ref!val!3 -> Unit(Ref!val!47),\n Ref!val!6 -> Unit(Ref!val!52),\n Ref!val!0 -> Unit(Ref!val!45),\n Ref!val!1 -> Unit(Ref!val!9),\n Ref!val!2 -> Unit(Ref!val!46),\n Ref!val!45 -> Unit(Ref!val!12),\n Ref!val!13 -> Unit(Ref!val!48),\n Ref!val!15 -> Unit(Ref!val!44),\n Ref!val!46 -> Unit(Ref!val!35),\n Ref!val!",
  "seq.nth_u": "[(Unit(Ref!val!45), 0) -> Ref!val!11,\n (Unit(Ref!val!9), 1) -> Ref!val!13,\n (Unit(Ref!val!9), 0) -> Ref!val!14,\n (Unit(Ref!val!46), 1) -> Ref!val!15,\n (Unit(Ref!val!46), 0) -> Ref!val!16,\n (Unit(Ref!val!47), 1) -> Ref!val!17,\n (Unit(Ref!val!47), 0) -> Ref!val!19,\n (Empty(Seq(Ref)), 1) -> Ref!val!20,",
  "cnt": "[(Unit(Ref!val!45), Ref!val!45) -> 1,\n (Unit(Ref!val!9), Ref!val!9) -> 1,\n (Unit(Ref!val!46), Ref!val!46) -> 1,\n (Unit(Ref!val!47), Ref!val!47) -> 1,\n (Empty(Seq(Ref)), Ref!val!8) -> -1,\n (Empty(Seq(Ref)), Ref!val!7) -> -8,\n (Unit(Ref!val!52), Ref!val!52) -> 1,\n (Unit(Ref!val!12), Ref!val!12) -> 1,\n",
  "selems@pre": "[else -> Unit(\"!0!\")]",
  "elems@pre": "[else -> Empty(Seq(Ref))]",
  "NBbad@0": "[else -> False]",
  "memo_has@pre": "[else -> True]"
 },
 "other_refuted_obligations_of_this_function": [
  "helpers.neighbors/exit:return/computed/state:selems"
 ],
 "bounded_search_for_a_failing_input": {
  "histories": 13967,
  "calls_checked": 9579,
  "distinct": 13559,
  "workers": 14,
  "budget_s_each": 40.0,
  "errors": [],
  "sample": [
   [
    "query_neighbors",
    3,
    3,
    0,
    2
   ],
   [
    "find_links",
    0,
    1,
    0,
    1,
    3
   ],
   [
    "query_neighbors",
    3,
    0,
    0,
    2
   ],
   [
    "new_vertex_links",
    0,
    3
   ]
  ],
  "focus": [
   "helpers.neighbors"
  ],
  "purpose": "search for a failing input for refuted obligations"
 }
}''')
print('failed obligation:', OBLIGATION['obligation'])
print('clause:', OBLIGATION['clause'])
print(json.dumps(OBLIGATION['solver_model'], indent=1))
sys.exit(1)
