"""Failed proof obligation (pyvc). No concrete failing input was constructed for this obligation:
the solver model below is the verifier's counterexample to the verification condition.
"""
import json, sys
OBLIGATION = json.loads(r'''{
 "property": "C14",
 "obligation": "plantuml._one_vert_to_puml/exit:return/outcome0/state:selems",
 "function": "plantuml._one_vert_to_puml",
 "source": "edgegraph/output/plantuml.py:235",
 "source_sha256": "a1484be4c6f91dbff2244c344a30edb657492fce0d792b8aeb7ee5e99fcd5f4f",
 "clause": "post-state of field selems",
 "path": "[_resolve_options:resolved]if@238-optname+[_vertex_title:0]optname+L0x",
 "backend": "z3-5.1.0",
 "solver_model": {
  "attributes!0": "Ref!val!5",
  "class:DirectedEdge": "Cls!val!6",
  "class:UniverseLaws": "Cls!val!9",
  "class:BaseObject": "Cls!val!3",
  "class:Universe": "Cls!val!8",
  "class:TwoEndedLink": "Cls!val!5",
  "class:Vertex": "Cls!val!1",
  "class:UnDirectedEdge": "Cls!val!7",
  "vertex": "Ref!val!0",
  "True": "Ref!val!9",
  "None": "Ref!val!1",
  "Vertex._QA_NB_INVALID": "Ref!val!2",
  "list!1": "Ref!val!7",
  "False": "Ref!val!6",
  "k_selems!12": "Ref!val!8",
  "options": "Ref!val!3",
  "class:Link": "Cls!val!4",
  "class:NoneType": "Cls!val!10",
  "class:<non-edgegraph>": "Cls!val!2",
  "join_o": "[else -> \"!0!\"]",
  "sub": "[(Cls!val!0, Cls!val!1) -> True,\n (Cls!val!3, Cls!val!3) -> True,\n (Cls!val!1, Cls!val!3) -> True,\n (Cls!val!1, Cls!val!1) -> True,\n (Cls!val!4, Cls!val!3) -> True,\n (Cls!val!4, Cls!val!4) -> True,\n (Cls!val!5, Cls!val!3) -> True,\n (Cls!val!5, Cls!val!4) -> True,\n (Cls!val!5, Cls!val!5) -> True,\n (C",
  "opt_has@pre": "[else -> True]",
  "attr_lines@0": "[else -> Empty(Seq(String))]",
  "selems@pre~1": "[else -> Empty(Seq(String))]",
  "selems@pre": "[else -> Unit(\"!1!\")]",
  "mro_len": "[Cls!val!33 -> 1324,\n Cls!val!35 -> 0,\n Cls!val!37 -> 28881,\n Cls!val!39 -> 2240,\n else -> 1]",
  "opt_get@pre": "[(Ref!val!3, Cls!val!12) -> Ref!val!10,\n (Ref!val!3, Cls!val!14) -> Ref!val!11,\n (Ref!val!3, Cls!val!15) -> Ref!val!12,\n (Ref!val!3, Cls!val!16) -> Ref!val!15,\n (Ref!val!3, Cls!val!18) -> Ref!val!16,\n (Ref!val!3, Cls!val!20) -> Ref!val!17,\n (Ref!val!3, Cls!val!22) -> Ref!val!18,\n (Ref!val!3, Cls!val",
  "mro_at": "[(Cls!val!11, 20537) -> Cls!val!12,\n (Cls!val!13, 8945) -> Cls!val!14,\n (Cls!val!2, 16202) -> Cls!val!15,\n (Cls!val!10, 0) -> Cls!val!10,\n (Cls!val!11, 0) -> Cls!val!11,\n (Cls!val!13, 0) -> Cls!val!13,\n (Cls!val!2, 0) -> Cls!val!2,\n (Cls!val!10, 6) -> Cls!val!16,\n (Cls!val!17, 26285) -> Cls!val!18,\n",
  "cls": "[Ref!val!0 -> Cls!val!0,\n Ref!val!1 -> Cls!val!10,\n Ref!val!4 -> Cls!val!11,\n Ref!val!8 -> Cls!val!13,\n Ref!val!15 -> Cls!val!17,\n Ref!val!10 -> Cls!val!19,\n Ref!val!11 -> Cls!val!21,\n Ref!val!12 -> Cls!val!23,\n Ref!val!13 -> Cls!val!25,\n Ref!val!14 -> Cls!val!27,\n Ref!val!16 -> Cls!val!29,\n Ref!val",
  "rx_compile": "[else -> Ref!val!14]",
  "od_has@pre": "[(Ref!val!4,\n  Concat(Unit(117),\n         Concat(Unit(115),\n                Concat(Unit(101),\n                       Concat(Unit(114),\n                              Concat(Unit(95),\n                                     Concat(Unit(114),\n                                        Concat(Unit(101),\n     ",
  "od_val@pre": "[else -> Ref!val!13]",
  "is_pattern": "[else -> True]",
  "residx@0": "[(Ref!val!3, Cls!val!11, 0) -> 20537,\n (Ref!val!3, Cls!val!13, 0) -> 8945,\n (Ref!val!3, Cls!val!2, 0) -> 16202,\n (Ref!val!3, Cls!val!10, 0) -> 6,\n (Ref!val!3, Cls!val!17, 0) -> 26285,\n (Ref!val!3, Cls!val!19, 0) -> 14680,\n (Ref!val!3, Cls!val!21, 0) -> 20976,\n (Ref!val!3, Cls!val!23, 0) -> 2997,\n (R"
 },
 "other_refuted_obligations_of_this_function": [],
 "bounded_search_for_a_failing_input": {
  "histories": 3312184,
  "calls_checked": 207197,
  "distinct": 2592788,
  "workers": 14,
  "budget_s_each": 40.0,
  "errors": [],
  "sample": [
   [
    "link_from_to",
    2,
    0,
    2,
    0
   ],
   [
    "set_v2",
    2,
    0
   ],
   [
    "plantuml_src",
    -1,
    0
   ],
   [
    "unlink_from",
    0,
    -1
   ]
  ],
  "focus": [
   "plantuml._one_vert_to_puml"
  ],
  "purpose": "search for a failing input for refuted obligations"
 }
}''')
print('failed obligation:', OBLIGATION['obligation'])
print('clause:', OBLIGATION['clause'])
print(json.dumps(OBLIGATION['solver_model'], indent=1))
sys.exit(1)
