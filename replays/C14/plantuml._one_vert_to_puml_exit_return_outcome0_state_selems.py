"""Failed proof obligation (pyvc). No concrete failing input was constructed for this obligation:
the solver model below is the verifier's counterexample to the verification condition.
"""
import json, sys
OBLIGATION = json.loads(r'''{
 "property": "C14",
 "obligation": "plantuml._one_vert_to_puml/exit:return/outcome0/state:selems",
 "function": "plantuml._one_vert_to_puml",
 "source": "edgegraph/output/plantuml.py:235",
 "source_sha256": "a1484be4c6f91dbff2244c344a30edb657492fce0d792b8aeb7ee5e99fcd5f4f",
 "clause": "post-state of field selems",
 "path": "[_resolve_options:resolved]if@238-optname+[_vertex_title:0]optname+L0x",
 "backend": "z3-5.1.0",
 "solver_model": {
  "attributes!0": "Ref!val!5",
  "class:DirectedEdge": "Cls!val!6",
  "class:UniverseLaws": "Cls!val!9",
  "class:BaseObject": "Cls!val!3",
  "class:Universe": "Cls!val!8",
  "attrlines!8": "Ref!val!15",
  "class:TwoEndedLink": "Cls!val!5",
  "class:Vertex": "Cls!val!1",
  "class:UnDirectedEdge": "Cls!val!7",
  "vertex": "Ref!val!0",
  "True": "Ref!val!16",
  "None": "Ref!val!1",
  "Vertex._QA_NB_INVALID": "Ref!val!2",
  "list!1": "Ref!val!9",
  "False": "Ref!val!6",
  "options": "Ref!val!3",
  "class:Link": "Cls!val!4",
  "k_selems!14": "Ref!val!15",
  "class:NoneType": "Cls!val!10",
  "class:<non-edgegraph>": "Cls!val!2",
  "join_o": "[(Concat(Unit(41), Concat(Unit(124), Unit(40))), Ref!val!7) ->\n \"title_format\",\n else -> \"title_format\"]",
  "sub": "[(Cls!val!0, Cls!val!1) -> True,\n (Cls!val!3, Cls!val!3) -> True,\n (Cls!val!1, Cls!val!3) -> True,\n (Cls!val!1, Cls!val!1) -> True,\n (Cls!val!4, Cls!val!3) -> True,\n (Cls!val!4, Cls!val!4) -> True,\n (Cls!val!5, Cls!val!3) -> True,\n (Cls!val!5, Cls!val!4) -> True,\n (Cls!val!5, Cls!val!5) -> True,\n (C",
  "opt_has@pre": "[else -> True]",
  "attr_lines@0": "[else -> Empty(Seq(String))]",
  "attr_names@0": "[else -> Unit(\"!0!\")]",
  "selems@pre~1": "[else -> Empty(Seq(String))]",
  "mro_len": "[Cls!val!53 -> 29534,\n Cls!val!55 -> 0,\n Cls!val!57 -> 28224,\n Cls!val!61 -> 20585,\n Cls!val!65 -> 31111,\n Cls!val!69 -> 17067,\n Cls!val!73 -> 0,\n else -> 1]",
  "opt_get@pre": "[(Ref!val!3, Cls!val!12) -> Ref!val!17,\n (Ref!val!3, Cls!val!14) -> Ref!val!18,\n (Ref!val!3, Cls!val!16) -> Ref!val!19,\n (Ref!val!3, Cls!val!18) -> Ref!val!20,\n (Ref!val!3, Cls!val!20) -> Ref!val!21,\n (Ref!val!3, Cls!val!22) -> Ref!val!22,\n (Ref!val!3, Cls!val!24) -> Ref!val!23,\n (Ref!val!3, Cls!val",
  "hexid": "[else -> Ref!val!10]",
  "py_eq": "[else -> True]",
  "cls": "[Ref!val!0 -> Cls!val!0,\n Ref!val!1 -> Cls!val!10,\n Ref!val!4 -> Cls!val!11,\n Ref!val!7 -> Cls!val!13,\n Ref!val!8 -> Cls!val!15,\n Ref!val!14 -> Cls!val!17,\n Ref!val!13 -> Cls!val!19,\n Ref!val!11 -> Cls!val!21,\n Ref!val!10 -> Cls!val!23,\n Ref!val!12 -> Cls!val!25,\n Ref!val!15 -> Cls!val!27,\n Ref!val!",
  "rx_compile": "[else -> Ref!val!8]",
  "od_has@pre": "[(Ref!val!4,\n  Concat(Unit(117),\n         Concat(Unit(115),\n                Concat(Unit(101),\n                       Concat(Unit(114),\n                              Concat(Unit(95),\n                                     Concat(Unit(114),\n                                        Concat(Unit(101),\n     ",
  "od_val@pre": "[(Ref!val!4,\n  Concat(Unit(116),\n         Concat(Unit(105),\n                Concat(Unit(116),\n                       Concat(Unit(108),\n                              Concat(Unit(101),\n                                     Concat(Unit(95),\n                                        Concat(Unit(102),\n     ",
  "attr_map@0": "[else -> Ref!val!13]",
  "fmt_apply": "[else -> Ref!val!14]",
  "mro_at": "[(Cls!val!11, 2997) -> Cls!val!12,\n (Cls!val!13, 14680) -> Cls!val!14,\n (Cls!val!15, 20976) -> Cls!val!16,\n (Cls!val!17, 21655) -> Cls!val!18,\n (Cls!val!19, 25906) -> Cls!val!20,\n (Cls!val!21, 18457) -> Cls!val!22,\n (Cls!val!23, 1323) -> Cls!val!24,\n (Cls!val!25, 28881) -> Cls!val!26,\n (Cls!val!27, ",
  "selems@pre": "[else -> Unit(\"!1!\")]",
  "str_box": "[else -> Ref!val!12]",
  "is_pattern": "[else -> True]",
  "residx@0": "[(Ref!val!3, Cls!val!11, 0) -> 2997,\n (Ref!val!3, Cls!val!13, 0) -> 14680,\n (Ref!val!3, Cls!val!15, 0) -> 20976,\n (Ref!val!3, Cls!val!17, 0) -> 21655,\n (Ref!val!3, Cls!val!19, 0) -> 25906,\n (Ref!val!3, Cls!val!21, 0) -> 18457,\n (Ref!val!3, Cls!val!23, 0) -> 1323,\n (Ref!val!3, Cls!val!25, 0) -> 28881",
  "py_str": "[Ref!val!12 -> \"$id\", else -> \"$id\"]"
 },
 "other_refuted_obligations_of_this_function": [],
 "bounded_search_for_a_failing_input": {
  "histories": 3158006,
  "calls_checked": 197703,
  "distinct": 2476142,
  "workers": 14,
  "budget_s_each": 40.0,
  "errors": [],
  "operations_run": {
   "new_edge": 1525865,
   "u_add_vertex": 383173,
   "new_link_multi": 380552,
   "set_v1": 380508,
   "set_v2": 381056,
   "add_to_link": 382402,
   "remove_from_link": 380829,
   "add_vertex": 379656,
   "unlink_from": 381167,
   "new_vertex_links": 380873,
   "link_from_to": 1523233,
   "unlink": 381629,
   "u_remove_vertex": 380266,
   "v_add_to_universe": 380809,
   "v_remove_from_universe": 380325,
   "new_vertex_unis": 382050,
   "new_universe": 381424,
   "plantuml_src": 2285480
  },
  "sample": [
   [
    "v_remove_from_universe",
    0,
    0
   ],
   [
    "new_edge",
    0,
    0,
    0
   ],
   [
    "link_from_to",
    0,
    0,
    2,
    0
   ],
   [
    "plantuml_src",
    0,
    2
   ],
   [
    "new_edge",
    0,
    0,
    0
   ],
   [
    "new_edge",
    2,
    0,
    0
   ]
  ],
  "focus": [
   "plantuml._one_vert_to_puml"
  ],
  "purpose": "search for a failing input for refuted obligations"
 }
}''')
print('failed obligation:', OBLIGATION['obligation'])
print('clause:', OBLIGATION['clause'])
print(json.dumps(OBLIGATION['solver_model'], indent=1))
sys.exit(1)
