"""Failed proof obligation (pyvc). No concrete failing input was constructed for this obligation:
the solver model below is the verifier's counterexample to the verification condition.
"""
import json, sys
OBLIGATION = json.loads(r'''{
 "property": "C14",
 "obligation": "plantuml.render_to_plantuml_src/exit:return/rendered/state:setmem#3",
 "function": "plantuml.render_to_plantuml_src",
 "source": "edgegraph/output/plantuml.py:284",
 "source_sha256": "3da0b09a27febdad525fcb0ceefe517728724e369df4305e3e9815148d47c4cd",
 "clause": "post-state of field setmem",
 "path": "[vertices:0]if@302-None.vertices-[vertices:0]L0xbool@315+skinkey+if@315+skinkey+L1xif@320-L2x",
 "backend": "z3-5.1.0",
 "solver_model": {
  "uni": "Ref!val!0",
  "set!5": "Ref!val!8",
  "class:DirectedEdge": "Cls!val!7",
  "spec_vertices!7": "Ref!val!10",
  "class:UniverseLaws": "Cls!val!9",
  "class:BaseObject": "Cls!val!3",
  "links!37": "Ref!val!13",
  "spec_links!0": "Empty(Seq(Ref))",
  "class:Universe": "Cls!val!1",
  "set!4": "Ref!val!7",
  "class:TwoEndedLink": "Cls!val!6",
  "spec_vertices!2": "Ref!val!4",
  "list!6": "Ref!val!9",
  "class:Vertex": "Cls!val!4",
  "class:UnDirectedEdge": "Cls!val!8",
  "k_setmem!166": "Ref!val!15",
  "strlist!3": "Ref!val!6",
  "True": "Ref!val!14",
  "None": "Ref!val!1",
  "Vertex._QA_NB_INVALID": "Ref!val!2",
  "False": "Ref!val!5",
  "enum!92": "Unit(Ref!val!20)",
  "class:Link": "Cls!val!5",
  "options": "Ref!val!3",
  "class:NoneType": "Cls!val!10",
  "k_setmem!165": "Ref!val!13",
  "setlen!43": "0",
  "class:<non-edgegraph>": "Cls!val!2",
  "py_str": "[Ref!val!12 -> \"show_attrs\", else -> \"show_attrs\"]",
  "puml_rels@0": "[else -> Empty(Seq(String))]",
  "setmem@pre": "[else -> True]",
  "sub": "[(Cls!val!0, Cls!val!1) -> True,\n (Cls!val!3, Cls!val!3) -> True,\n (Cls!val!4, Cls!val!3) -> True,\n (Cls!val!4, Cls!val!4) -> True,\n (Cls!val!5, Cls!val!3) -> True,\n (Cls!val!5, Cls!val!5) -> True,\n (Cls!val!6, Cls!val!3) -> True,\n (Cls!val!6, Cls!val!5) -> True,\n (Cls!val!6, Cls!val!6) -> True,\n (C",
  "ad_val": "[else -> Ref!val!12]",
  "_vertices@pre": "[Ref!val!0 -> Unit(Ref!val!21),\n Ref!val!6 -> Unit(Ref!val!51),\n Ref!val!9 -> Unit(Ref!val!49),\n Ref!val!12 -> Unit(Ref!val!20),\n Ref!val!1 -> Unit(Ref!val!25),\n Ref!val!2 -> Unit(Ref!val!52),\n Ref!val!21 -> Unit(Ref!val!43),\n Ref!val!43 -> Unit(Ref!val!20),\n Ref!val!44 -> Unit(Ref!val!20),\n else ->",
  "ad_key": "[(Ref!val!11, 7200) -> \"show_attrs\", else -> \"show_attrs\"]",
  "cnt": "[(Empty(Seq(Ref)), Ref!val!20) -> 2,\n (Unit(Ref!val!21), Ref!val!21) -> 1,\n (Unit(Ref!val!25), Ref!val!25) -> 1,\n (Unit(Ref!val!52), Ref!val!52) -> 1,\n (Unit(Ref!val!51), Ref!val!51) -> 1,\n (Unit(Ref!val!49), Ref!val!49) -> 1,\n (Unit(Ref!val!20), Ref!val!20) -> 1,\n (Unit(Ref!val!43), Ref!val!43) -> ",
  "seq.nth_u": "[(Unit(Ref!val!21), 1) -> Ref!val!21,\n (Unit(Ref!val!21), 0) -> Ref!val!23,\n (Unit(Ref!val!25), 1) -> Ref!val!25,\n (Unit(Ref!val!25), 0) -> Ref!val!24,\n (Unit(Ref!val!52), 1) -> Ref!val!26,\n (Unit(Ref!val!52), 0) -> Ref!val!27,\n (Unit(Ref!val!51), 1) -> Ref!val!28,\n (Unit(Ref!val!51), 0) -> Ref!val!",
  "puml_inc@0": "[else -> False]",
  "mro_len": "[Cls!val!13 -> 18962,\n Cls!val!28 -> 36944,\n Cls!val!23 -> 533,\n Cls!val!22 -> 12984,\n Cls!val!29 -> 15502,\n else -> 1]",
  "mro_at": "[(Cls!val!13, 18961) -> Cls!val!16,\n (Cls!val!14, -14519) -> Cls!val!17,\n (Cls!val!2, 7859) -> Cls!val!18,\n (Cls!val!0, 0) -> Cls!val!0,\n (Cls!val!10, 0) -> Cls!val!10,\n (Cls!val!11, 0) -> Cls!val!11,\n (Cls!val!12, 0) -> Cls!val!12,\n (Cls!val!13, 0) -> Cls!val!13,\n (Cls!val!14, 0) -> Cls!val!14,\n (C",
  "opt_get@pre": "[(Ref!val!3, Cls!val!16) -> Ref!val!17,\n (Ref!val!3, Cls!val!17) -> Ref!val!18,\n (Ref!val!3, Cls!val!18) -> Ref!val!19,\n (Ref!val!3, Cls!val!30) -> Ref!val!33,\n (Ref!val!3, Cls!val!35) -> Ref!val!34,\n (Ref!val!3, Cls!val!36) -> Ref!val!35,\n (Ref!val!3, Cls!val!37) -> Ref!val!36,\n (Ref!val!3, Cls!val",
  "cls": "[Ref!val!0 -> Cls!val!0,\n Ref!val!1 -> Cls!val!10,\n Ref!val!11 -> Cls!val!11,\n Ref!val!12 -> Cls!val!12,\n Ref!val!15 -> Cls!val!13,\n Ref!val!13 -> Cls!val!14,\n Ref!val!51 -> Cls!val!25,\n Ref!val!49 -> Cls!val!26,\n Ref!val!21 -> Cls!val!19,\n Ref!val!25 -> Cls!val!20,\n Ref!val!26 -> Cls!val!21,\n Ref!v",
  "ad_len": "[else -> 7200]",
  "od_has@pre": "[else -> True]",
  "puml_decls@0": "[else -> Empty(Seq(String))]",
  "puml_skin": "[(Ref!val!11, 7201) ->\n Concat(Unit(\"!0!\"),\n        Unit(\"skinparam show_attrs show_attrs\n\")),\n (Ref!val!11, 7200) -> Unit(\"!0!\"),\n else -> Empty(Seq(String))]",
  "residx@1": "[(Ref!val!3, Cls!val!13, 0) -> 18961,\n (Ref!val!3, Cls!val!14, 0) -> -14519,\n (Ref!val!3, Cls!val!2, 0) -> 7859,\n (Ref!val!3, Cls!val!10, 0) -> 70,\n (Ref!val!3, Cls!val!28, 0) -> 36943,\n (Ref!val!3, Cls!val!19, 0) -> -31567,\n (Ref!val!3, Cls!val!20, 0) -> -39070,\n (Ref!val!3, Cls!val!23, 0) -> -1457",
  "opt_skin": "[else -> Ref!val!11]",
  "opt_has_skin": "[else -> True]",
  "setmem@pre~5": "[else -> False]"
 },
 "other_refuted_obligations_of_this_function": [
  "plantuml.render_to_plantuml_src/exit:return/rendered/state:setmem#1",
  "plantuml.render_to_plantuml_src/exit:return/rendered/state:setmem#5"
 ],
 "bounded_search_for_a_failing_input": {
  "histories": 3081830,
  "calls_checked": 2155382,
  "distinct": 2418246,
  "workers": 14,
  "budget_s_each": 40.0,
  "errors": [],
  "operations_run": {
   "new_edge": 1489277,
   "u_add_vertex": 373807,
   "new_link_multi": 371168,
   "set_v1": 371290,
   "set_v2": 371895,
   "add_to_link": 373110,
   "remove_from_link": 371891,
   "add_vertex": 370403,
   "unlink_from": 371988,
   "new_vertex_links": 371996,
   "link_from_to": 1486701,
   "unlink": 372431,
   "u_remove_vertex": 371039,
   "v_add_to_universe": 371728,
   "v_remove_from_universe": 371160,
   "new_vertex_unis": 372932,
   "new_universe": 371948,
   "plantuml_src": 2230504
  },
  "sample": [
   [
    "plantuml_src",
    3,
    -1
   ],
   [
    "link_from_to",
    -1,
    -1,
    -1,
    -1
   ],
   [
    "plantuml_src",
    2,
    -1
   ],
   [
    "new_edge",
    -1,
    -1,
    -1
   ]
  ],
  "focus": [
   "plantuml.render_to_plantuml_src"
  ],
  "purpose": "search for a failing input for refuted obligations"
 }
}''')
print('failed obligation:', OBLIGATION['obligation'])
print('clause:', OBLIGATION['clause'])
print(json.dumps(OBLIGATION['solver_model'], indent=1))
sys.exit(1)
