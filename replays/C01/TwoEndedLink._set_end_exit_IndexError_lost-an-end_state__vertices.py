"""Failed proof obligation (pyvc). No concrete failing input was constructed for this obligation:
the solver model below is the verifier's counterexample to the verification condition.
"""
import json, sys
OBLIGATION = json.loads(r'''{
 "property": "C01",
 "obligation": "TwoEndedLink._set_end/exit:IndexError/lost-an-end/state:_vertices",
 "function": "TwoEndedLink._set_end",
 "source": "edgegraph/structure/twoendedlink.py:120",
 "source_sha256": "e12aa07a09f5522d66d8df72ef789ea5ecb7333dea7777130130e0299035989b",
 "clause": "post-state of field _vertices",
 "path": "None._vertices-idx+None._vertices-setidx0+len>0+bool@133+None.v1-[v1:1]bool@133+None.v2-[v2:0]",
 "backend": "z3-5.1.0",
 "solver_model": {
  "new": "Ref!val!1",
  "class:DirectedEdge": "Cls!val!5",
  "class:UniverseLaws": "Cls!val!8",
  "class:BaseObject": "Cls!val!3",
  "class:Universe": "Cls!val!7",
  "class:TwoEndedLink": "Cls!val!1",
  "class:Vertex": "Cls!val!2",
  "class:UnDirectedEdge": "Cls!val!6",
  "True": "Ref!val!4",
  "None": "Ref!val!1",
  "Vertex._QA_NB_INVALID": "Ref!val!2",
  "self": "Ref!val!0",
  "False": "Ref!val!5",
  "class:Link": "Cls!val!4",
  "k__vertices!238": "Ref!val!0",
  "class:NoneType": "Cls!val!9",
  "class:<non-edgegraph>": "Cls!val!10",
  "idx": "0",
  "cls": "[Ref!val!0 -> Cls!val!0,\n Ref!val!1 -> Cls!val!9,\n Ref!val!3 -> Cls!val!11,\n else -> Cls!val!10]",
  "cnt": "[(Unit(Ref!val!3), Ref!val!3) -> 1, else -> 0]",
  "_links@pre": "[else -> Empty(Seq(Ref))]",
  "sub": "[(Cls!val!0, Cls!val!1) -> True,\n (Cls!val!3, Cls!val!3) -> True,\n (Cls!val!2, Cls!val!3) -> True,\n (Cls!val!2, Cls!val!2) -> True,\n (Cls!val!4, Cls!val!3) -> True,\n (Cls!val!4, Cls!val!4) -> True,\n (Cls!val!1, Cls!val!3) -> True,\n (Cls!val!1, Cls!val!4) -> True,\n (Cls!val!1, Cls!val!1) -> True,\n (C",
  "setnth": "[else -> Unit(Ref!val!6)]",
  "_vertices@pre": "[Ref!val!3 -> Empty(Seq(Ref)), else -> Unit(Ref!val!3)]"
 }
}''')
print('failed obligation:', OBLIGATION['obligation'])
print('clause:', OBLIGATION['clause'])
print(json.dumps(OBLIGATION['solver_model'], indent=1))
sys.exit(1)
