"""Failed proof obligation (pyvc). No concrete failing input was constructed for this obligation:
the solver model below is the verifier's counterexample to the verification condition.
"""
import json, sys
OBLIGATION = json.loads(r'''{
 "property": "C01",
 "obligation": "TwoEndedLink._set_end/exit:return/outcome1/state:_vertices#19",
 "function": "TwoEndedLink._set_end",
 "source": "edgegraph/structure/twoendedlink.py:120",
 "source_sha256": "e12aa07a09f5522d66d8df72ef789ea5ecb7333dea7777130130e0299035989b",
 "clause": "post-state of field _vertices",
 "path": "bool@133+None.v2-[v2:1]if@133+None.remove_from_link-[remove_from_link:0]bool@135+None.links-[links:0]if@135-None._invalidate_ends-[_invalidate_ends:0]",
 "backend": "z3-5.1.0",
 "solver_model": {
  "class:DirectedEdge": "Cls!val!7",
  "class:UniverseLaws": "Cls!val!10",
  "class:BaseObject": "Cls!val!6",
  "class:Universe": "Cls!val!9",
  "class:TwoEndedLink": "Cls!val!1",
  "class:Vertex": "Cls!val!3",
  "class:UnDirectedEdge": "Cls!val!8",
  "True": "Ref!val!5",
  "None": "Ref!val!7",
  "Vertex._QA_NB_INVALID": "Ref!val!1",
  "self": "Ref!val!0",
  "False": "Ref!val!6",
  "new": "Ref!val!2",
  "class:Link": "Cls!val!4",
  "class:NoneType": "Cls!val!12",
  "class:<non-edgegraph>": "Cls!val!11",
  "k__vertices!218": "Ref!val!0",
  "idx": "1",
  "cls": "[Ref!val!0 -> Cls!val!0,\n Ref!val!3 -> Cls!val!2,\n Ref!val!2 -> Cls!val!5,\n Ref!val!7 -> Cls!val!12,\n else -> Cls!val!11]",
  "_links@pre": "[Ref!val!0 -> Empty(Seq(Ref)),\n Ref!val!7 -> Empty(Seq(Ref)),\n else -> Unit(Ref!val!3)]",
  "sub": "[(Cls!val!0, Cls!val!1) -> True,\n (Cls!val!2, Cls!val!3) -> True,\n (Cls!val!0, Cls!val!4) -> True,\n (Cls!val!5, Cls!val!3) -> True,\n (Cls!val!6, Cls!val!6) -> True,\n (Cls!val!3, Cls!val!6) -> True,\n (Cls!val!3, Cls!val!3) -> True,\n (Cls!val!4, Cls!val!6) -> True,\n (Cls!val!4, Cls!val!4) -> True,\n (C",
  "without": "[else -> Unit(Ref!val!3)]",
  "seq.nth_u": "[else -> Ref!val!4]",
  "cnt": "[(Unit(Ref!val!3), Ref!val!0) -> 1,\n (Concat(Unit(Ref!val!7), Unit(Ref!val!3)), Ref!val!3) -> 2,\n (Concat(Unit(Ref!val!7), Unit(Ref!val!3)), Ref!val!7) -> 1,\n else -> 0]",
  "_vertices@pre": "[Ref!val!0 -> Concat(Unit(Ref!val!7), Unit(Ref!val!3)),\n else -> Empty(Seq(Ref))]",
  "setnth": "[(Concat(Unit(Ref!val!7), Unit(Ref!val!3)), 0, Ref!val!2) ->\n Concat(Unit(Ref!val!8), Unit(Ref!val!9)),\n else -> Concat(Unit(Ref!val!7), Unit(Ref!val!3))]"
 }
}''')
print('failed obligation:', OBLIGATION['obligation'])
print('clause:', OBLIGATION['clause'])
print(json.dumps(OBLIGATION['solver_model'], indent=1))
sys.exit(1)
