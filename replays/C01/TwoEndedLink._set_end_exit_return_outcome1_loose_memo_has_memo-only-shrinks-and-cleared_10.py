"""Failed proof obligation (pyvc). No concrete failing input was constructed for this obligation:
the solver model below is the verifier's counterexample to the verification condition.
"""
import json, sys
OBLIGATION = json.loads(r'''{
 "property": "C01",
 "obligation": "TwoEndedLink._set_end/exit:return/outcome1/loose:memo_has:memo-only-shrinks-and-cleared#10",
 "function": "TwoEndedLink._set_end",
 "source": "edgegraph/structure/twoendedlink.py:120",
 "source_sha256": "e12aa07a09f5522d66d8df72ef789ea5ecb7333dea7777130130e0299035989b",
 "clause": "constraint memo-only-shrinks-and-cleared on field memo_has",
 "path": "None.v1-[v1:1]bool@133+None.v2-[v2:1]if@133-bool@135+None.links-[links:0]if@135-None._invalidate_ends-[_invalidate_ends:0]",
 "backend": "z3-5.1.0",
 "solver_model": {
  "sk!157": "3",
  "class:DirectedEdge": "Cls!val!6",
  "class:UniverseLaws": "Cls!val!9",
  "sk!158": "4",
  "class:BaseObject": "Cls!val!5",
  "class:Universe": "Cls!val!8",
  "class:TwoEndedLink": "Cls!val!1",
  "class:Vertex": "Cls!val!3",
  "class:UnDirectedEdge": "Cls!val!7",
  "sk!159": "Ref!val!6",
  "True": "Ref!val!7",
  "None": "Ref!val!1",
  "Vertex._QA_NB_INVALID": "Ref!val!2",
  "self": "Ref!val!0",
  "False": "Ref!val!8",
  "new": "Ref!val!3",
  "class:Link": "Cls!val!4",
  "class:NoneType": "Cls!val!10",
  "sk!156": "Ref!val!4",
  "class:<non-edgegraph>": "Cls!val!11",
  "idx": "0",
  "cls": "[Ref!val!0 -> Cls!val!0,\n Ref!val!3 -> Cls!val!2,\n Ref!val!1 -> Cls!val!10,\n Ref!val!4 -> Cls!val!12,\n else -> Cls!val!11]",
  "_links@pre": "[Ref!val!3 -> Unit(Ref!val!4), else -> Empty(Seq(Ref))]",
  "sub": "[(Cls!val!0, Cls!val!1) -> True,\n (Cls!val!2, Cls!val!3) -> True,\n (Cls!val!0, Cls!val!4) -> True,\n (Cls!val!5, Cls!val!5) -> True,\n (Cls!val!3, Cls!val!5) -> True,\n (Cls!val!3, Cls!val!3) -> True,\n (Cls!val!4, Cls!val!5) -> True,\n (Cls!val!4, Cls!val!4) -> True,\n (Cls!val!1, Cls!val!5) -> True,\n (C",
  "_vertices@pre": "[Ref!val!0 -> Concat(Unit(Ref!val!4), Unit(Ref!val!4)),\n else -> Empty(Seq(Ref))]",
  "seq.nth_u": "[else -> Ref!val!5]",
  "cnt": "[(Unit(Ref!val!4), Ref!val!0) -> 1,\n (Concat(Unit(Ref!val!4), Unit(Ref!val!4)), Ref!val!4) -> 1,\n else -> 0]",
  "memo_has@pre~40": "[else -> True]",
  "memo_has@pre": "[else -> True]"
 }
}''')
print('failed obligation:', OBLIGATION['obligation'])
print('clause:', OBLIGATION['clause'])
print(json.dumps(OBLIGATION['solver_model'], indent=1))
sys.exit(1)
