"""Failed proof obligation (pyvc). No concrete failing input was constructed for this obligation:
the solver model below is the verifier's counterexample to the verification condition.
"""
import json, sys
OBLIGATION = json.loads(r'''{
 "property": "C01",
 "obligation": "TwoEndedLink._set_end/exit:return/not:lost-an-end",
 "function": "TwoEndedLink._set_end",
 "source": "edgegraph/structure/twoendedlink.py:120",
 "source_sha256": "e12aa07a09f5522d66d8df72ef789ea5ecb7333dea7777130130e0299035989b",
 "clause": "path ends with return but contract outcome 'lost-an-end' (IndexError) applies",
 "path": "None._vertices-idx+None._vertices-setidx0+len>0+bool@133-bool@135-None._invalidate_ends-[_invalidate_ends:0]",
 "backend": "z3-5.1.0",
 "solver_model": {
  "class:Vertex": "Cls!val!4",
  "class:DirectedEdge": "Cls!val!5",
  "class:UnDirectedEdge": "Cls!val!6",
  "class:UniverseLaws": "Cls!val!8",
  "class:BaseObject": "Cls!val!3",
  "True": "Ref!val!3",
  "Vertex._QA_NB_INVALID": "Ref!val!2",
  "self": "Ref!val!0",
  "class:TwoEndedLink": "Cls!val!1",
  "class:Universe": "Cls!val!7",
  "False": "Ref!val!4",
  "class:Link": "Cls!val!2",
  "new": "Ref!val!1",
  "class:NoneType": "Cls!val!9",
  "class:<non-edgegraph>": "Cls!val!10",
  "None": "Ref!val!1",
  "idx": "0",
  "cls": "[Ref!val!0 -> Cls!val!0,\n Ref!val!1 -> Cls!val!9,\n else -> Cls!val!10]",
  "cnt": "[(Unit(Ref!val!1), Ref!val!1) -> 1, else -> 0]",
  "_links@pre": "[else -> Empty(Seq(Ref))]",
  "sub": "[(Cls!val!0, Cls!val!1) -> True,\n (Cls!val!0, Cls!val!2) -> True,\n (Cls!val!3, Cls!val!3) -> True,\n (Cls!val!4, Cls!val!3) -> True,\n (Cls!val!4, Cls!val!4) -> True,\n (Cls!val!2, Cls!val!3) -> True,\n (Cls!val!2, Cls!val!2) -> True,\n (Cls!val!1, Cls!val!3) -> True,\n (Cls!val!1, Cls!val!2) -> True,\n (C",
  "_vertices@pre": "[Ref!val!1 -> Empty(Seq(Ref)), else -> Unit(Ref!val!1)]"
 }
}''')
print('failed obligation:', OBLIGATION['obligation'])
print('clause:', OBLIGATION['clause'])
print(json.dumps(OBLIGATION['solver_model'], indent=1))
sys.exit(1)
