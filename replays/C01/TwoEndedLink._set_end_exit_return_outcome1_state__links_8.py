"""Failed proof obligation (pyvc). No concrete failing input was constructed for this obligation:
the solver model below is the verifier's counterexample to the verification condition.
"""
import json, sys
OBLIGATION = json.loads(r'''{
 "property": "C01",
 "obligation": "TwoEndedLink._set_end/exit:return/outcome1/state:_links#8",
 "function": "TwoEndedLink._set_end",
 "source": "edgegraph/structure/twoendedlink.py:120",
 "source_sha256": "e12aa07a09f5522d66d8df72ef789ea5ecb7333dea7777130130e0299035989b",
 "clause": "post-state of field _links",
 "path": "setidx0+len>0+bool@133+None.v1-[v1:1]bool@133+None.v2-[v2:1]if@133-bool@135-None._invalidate_ends-[_invalidate_ends:0]",
 "backend": "z3-5.1.0",
 "solver_model": {
  "class:DirectedEdge": "Cls!val!5",
  "class:UniverseLaws": "Cls!val!8",
  "class:BaseObject": "Cls!val!3",
  "class:Universe": "Cls!val!7",
  "class:TwoEndedLink": "Cls!val!1",
  "class:Vertex": "Cls!val!4",
  "class:UnDirectedEdge": "Cls!val!6",
  "True": "Ref!val!5",
  "None": "Ref!val!1",
  "Vertex._QA_NB_INVALID": "Ref!val!2",
  "self": "Ref!val!0",
  "False": "Ref!val!6",
  "k__links!140": "Ref!val!3",
  "class:Link": "Cls!val!2",
  "new": "Ref!val!1",
  "class:NoneType": "Cls!val!9",
  "class:<non-edgegraph>": "Cls!val!10",
  "idx": "0",
  "cls": "[Ref!val!0 -> Cls!val!0,\n Ref!val!1 -> Cls!val!9,\n Ref!val!3 -> Cls!val!11,\n else -> Cls!val!10]",
  "seq.nth_u": "[else -> Ref!val!4]",
  "cnt": "[(Concat(Unit(Ref!val!3), Unit(Ref!val!3)), Ref!val!3) -> 1,\n (Unit(Ref!val!7), Ref!val!0) -> 1,\n else -> 0]",
  "_links@pre": "[Ref!val!3 -> Unit(Ref!val!7), else -> Empty(Seq(Ref))]",
  "rem1": "[else -> Empty(Seq(Ref))]",
  "sub": "[(Cls!val!0, Cls!val!1) -> True,\n (Cls!val!0, Cls!val!2) -> True,\n (Cls!val!3, Cls!val!3) -> True,\n (Cls!val!4, Cls!val!3) -> True,\n (Cls!val!4, Cls!val!4) -> True,\n (Cls!val!2, Cls!val!3) -> True,\n (Cls!val!2, Cls!val!2) -> True,\n (Cls!val!1, Cls!val!3) -> True,\n (Cls!val!1, Cls!val!2) -> True,\n (C",
  "_vertices@pre": "[Ref!val!0 -> Concat(Unit(Ref!val!3), Unit(Ref!val!3)),\n else -> Empty(Seq(Ref))]"
 }
}''')
print('failed obligation:', OBLIGATION['obligation'])
print('clause:', OBLIGATION['clause'])
print(json.dumps(OBLIGATION['solver_model'], indent=1))
sys.exit(1)
