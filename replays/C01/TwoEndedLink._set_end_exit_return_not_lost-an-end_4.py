"""Failed proof obligation (pyvc). No concrete failing input was constructed for this obligation:
the solver model below is the verifier's counterexample to the verification condition.
"""
import json, sys
OBLIGATION = json.loads(r'''{
 "property": "C01",
 "obligation": "TwoEndedLink._set_end/exit:return/not:lost-an-end#4",
 "function": "TwoEndedLink._set_end",
 "source": "edgegraph/structure/twoendedlink.py:120",
 "source_sha256": "e12aa07a09f5522d66d8df72ef789ea5ecb7333dea7777130130e0299035989b",
 "clause": "path ends with return but contract outcome 'lost-an-end' (IndexError) applies",
 "path": "setidx0+len>0+bool@133+None.v1-[v1:1]bool@133-bool@135+None.links-[links:0]if@135-None._invalidate_ends-[_invalidate_ends:0]",
 "backend": "z3-5.1.0",
 "solver_model": {
  "class:DirectedEdge": "Cls!val!6",
  "class:UniverseLaws": "Cls!val!9",
  "class:Vertex": "Cls!val!3",
  "class:UnDirectedEdge": "Cls!val!7",
  "class:BaseObject": "Cls!val!5",
  "True": "Ref!val!3",
  "None": "Ref!val!1",
  "Vertex._QA_NB_INVALID": "Ref!val!2",
  "class:Universe": "Cls!val!8",
  "class:TwoEndedLink": "Cls!val!1",
  "self": "Ref!val!0",
  "False": "Ref!val!4",
  "class:Link": "Cls!val!4",
  "new": "Ref!val!5",
  "class:NoneType": "Cls!val!10",
  "class:<non-edgegraph>": "Cls!val!11",
  "idx": "0",
  "cls": "[Ref!val!0 -> Cls!val!0,\n Ref!val!5 -> Cls!val!2,\n Ref!val!1 -> Cls!val!10,\n else -> Cls!val!11]",
  "cnt": "[(Empty(Seq(Ref)), Ref!val!5) -> 0,\n (Empty(Seq(Ref)), Ref!val!0) -> 0,\n else -> 1]",
  "_links@pre": "[Ref!val!0 -> Empty(Seq(Ref)), else -> Unit(Ref!val!5)]",
  "sub": "[(Cls!val!0, Cls!val!1) -> True,\n (Cls!val!2, Cls!val!3) -> True,\n (Cls!val!0, Cls!val!4) -> True,\n (Cls!val!5, Cls!val!5) -> True,\n (Cls!val!3, Cls!val!5) -> True,\n (Cls!val!3, Cls!val!3) -> True,\n (Cls!val!4, Cls!val!5) -> True,\n (Cls!val!4, Cls!val!4) -> True,\n (Cls!val!1, Cls!val!5) -> True,\n (C",
  "_vertices@pre": "[Ref!val!5 -> Empty(Seq(Ref)), else -> Unit(Ref!val!5)]"
 }
}''')
print('failed obligation:', OBLIGATION['obligation'])
print('clause:', OBLIGATION['clause'])
print(json.dumps(OBLIGATION['solver_model'], indent=1))
sys.exit(1)
