"""Replay of a failing history against the real code (pyvc bounded explorer + run-time contract monitor).
Run with: python3-vt <this file>   (exit 1 = the failure reproduces)"""
import json, sys
sys.path.insert(0, '/verif')
CASE = json.loads(r'''{
 "property": "C01",
 "history": [
  [
   "new_edge",
   -1,
   1,
   1
  ],
  [
   "remove_from_link",
   1,
   -1
  ]
 ],
 "error": "ContractViolation: Link.unlink_from: post-state of _vertices at <UnDirectedEdge#2912> differs from the contract expected Empty(Seq(Ref)) observed Unit(o0:Vertex)",
 "note": "bounded stand-in for undecided functions: Link.unlink_from"
}''')
from pyvc import bounded
sys.exit(bounded.replay(CASE))
