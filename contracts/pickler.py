"""Contracts of edgegraph.output.nrpickler (C10): the work-list scheduler of _NonrecursivePickler.

What is decided here is the *mechanism* C10 is anchored in: save() defers to a queue, dump() drains it in stream order, memoisation
is deferred in stream order.  dill's `Pickler.save` (realsave) is not verified; it is abstracted as a token list
`pk_body(obj, events so far)` fed in order to the three overridden entry points write / memoize / save (assumption A13; in particular
its control flow does not look at the memo *after* a nested save returned - the one place where pickle does, recursive tuples, is the
known limitation recorded in DESIGN.md).  Vocabulary:
  Q            the pending queue      = the elements of the list bound to self.lazywrites (items are record values, A13)
  R            ghost: the real events performed through this pickler so far (ev_w(args) / ev_m(obj)), field `rtrace`
  applyTok     what write / memoize / save do with a token list (pk_aq, pk_ar): lean/Scheduler.lean
  pk_exec(Q, R)  the depth-first, left-to-right execution of a queue = what a recursive pickler performs
The contract of dump: the events performed are exactly pk_exec([save obj], R after the header) followed by the STOP write, and the
queue is empty again."""
from __future__ import annotations
import z3
from z3 import And, Or, Not, Implies, BoolVal, If, StringVal
from pyvc import terms as T
from pyvc.terms import Ref, Int, RSeq, NONE, Len, snoc, cat, ite, EMPTY, unit
from pyvc.contracts import REG, Schema, LoopInv, Loose
from pyvc.values import *
from .common import *

contract = REG.contract
LW = StringVal("lazywrites")
PK = "_NonrecursivePickler"
STOP = T.pack1(z3.Const("ext:pickle.STOP", Ref))


def lwlist(S, P):
    return S.read("dyn_val", P, LW)


def Qof(S, P):
    return S.elems(lwlist(S, P))


def Rof(S, P):
    return S.read("rtrace", P)


def is_save(ct, it):
    return T.sub(T.cls_of(it), ct.c("_LazySave"))


def is_memo(ct, it):
    return T.sub(T.cls_of(it), ct.c("_LazyMemo"))


def apply1_defs(ct, it, Q, R):
    """applyTok [it] Q R, the three cases of lean/Scheduler.lean (definitional)"""
    direct = And(Len(Q) == 0, Not(is_save(ct, it)))
    ev = ite(is_memo(ct, it), T.ev_m(T.item_obj(it)), T.ev_w(it))
    return [T.pk_aq(unit(it), Q, R) == ite(direct, Q, snoc(Q, it)),
            T.pk_ar(unit(it), Q, R) == ite(direct, snoc(R, ev), R)]


def exec_step_defs(ct, it, rest, R):
    """pk_exec at a queue with head `it`: the constructors of Exec (definitional)"""
    q = cat(unit(it), rest)
    return [Implies(is_save(ct, it), T.pk_exec(q, R) == T.pk_exec(cat(T.pk_body(T.item_obj(it), R), rest), R)),
            Implies(And(Not(is_save(ct, it)), is_memo(ct, it)), T.pk_exec(q, R) == T.pk_exec(rest, snoc(R, T.ev_m(T.item_obj(it))))),
            Implies(And(Not(is_save(ct, it)), Not(is_memo(ct, it))), T.pk_exec(q, R) == T.pk_exec(rest, snoc(R, T.ev_w(it))))]


def exec_nil_def(R):
    return T.pk_exec(EMPTY(), R) == R


def exec_apply_fact(t, rest, R):
    """[L] lean/Scheduler.lean exec_apply: feeding the tokens t to the entry points on an empty queue and continuing with what
    they queued, then `rest`, is the same as expanding t in place before `rest`"""
    return T.pk_exec(cat(T.pk_aq(t, EMPTY(), R), rest), T.pk_ar(t, EMPTY(), R)) == T.pk_exec(cat(t, rest), R)


def layout(c, S, P):
    """class invariant established by __init__ (A13): the attribute `lazywrites` is bound to a list object"""
    c.requires(And(S.read("dyn_has", P, LW), lwlist(S, P) != NONE), "lazywrites-is-a-list")


# ----------------------------------------------------------------------------------------------- dill / file (assumed, A13)
@contract(f"{PK}.realwrite", f"self:{PK}, args:pack", trusted=True, no_body=True, props=("C10",), oracle_op=True)
def _(c):
    o = c.normal()
    o.set("rtrace", c.self, snoc(Rof(c.S, c.self), T.ev_w(c.val("args").term)))


@contract(f"{PK}.realmemoize", f"self:{PK}, obj:any", trusted=True, no_body=True, props=("C10",), oracle_op=True)
def _(c):
    o = c.normal()
    o.set("rtrace", c.self, snoc(Rof(c.S, c.self), T.ev_m(c.obj)))


@contract(f"{PK}.realsave", f"self:{PK}, obj:any", trusted=True, no_body=True, props=("C10",), oracle_op=True)
def _(c):
    """ASSUMED contract of dill.Pickler.save as seen by this class: it feeds the tokens pk_body(obj, R) to write / memoize / save in
    order and touches the queue and the output only through them (so its effect is applyTok of those tokens)"""
    S, P = c.S, c.self
    layout(c, S, P)
    Q, R = Qof(S, P), Rof(S, P)
    t = T.pk_body(c.obj, R)
    o = c.normal()
    o.set("elems", lwlist(S, P), T.pk_aq(t, Q, R))
    o.set("rtrace", P, T.pk_ar(t, Q, R))


# ----------------------------------------------------------------------------------------------- the three entry points
@contract(f"{PK}.lazywrite", f"self:{PK}, args:pack", props=("C10",), oracle_op=True)
def _(c):
    """write(*args): performed at once while nothing is pending, queued behind what is pending otherwise (applyTok, W case)"""
    S, P, ct = c.S, c.self, c.ct
    layout(c, S, P)
    Q, R = Qof(S, P), Rof(S, P)
    a = c.val("args").term
    c.requires(And(Not(is_save(ct, a)), Not(is_memo(ct, a))), "an-argument-tuple-is-not-a-marker")
    c.define(*apply1_defs(ct, a, Q, R))
    o = c.normal()
    o.set("elems", lwlist(S, P), T.pk_aq(unit(a), Q, R))
    o.set("rtrace", P, T.pk_ar(unit(a), Q, R))


@contract(f"{PK}.lazymemoize", f"self:{PK}, obj:any", props=("C10",), oracle_op=True)
def _(c):
    """memoize(obj): at once while nothing is pending, otherwise deferred in stream order (applyTok, M case)"""
    S, P, ct = c.S, c.self, c.ct
    layout(c, S, P)
    Q, R = Qof(S, P), Rof(S, P)
    it = T.mk_memo(c.obj)
    c.define(*apply1_defs(ct, it, Q, R))
    o = c.normal()
    o.set("elems", lwlist(S, P), T.pk_aq(unit(it), Q, R))
    o.set("rtrace", P, T.pk_ar(unit(it), Q, R))


@contract(f"{PK}.save", f"self:{PK}, obj:any, save_persistent_id:any=None", props=("C10",), oracle_op=True)
def _(c):
    """save(obj): never performed at once - always queued (applyTok, S case); nothing is written, nothing memoised"""
    S, P, ct = c.S, c.self, c.ct
    layout(c, S, P)
    Q, R = Qof(S, P), Rof(S, P)
    it = T.mk_save(c.obj)
    c.define(*apply1_defs(ct, it, Q, R))
    c.raises("NotImplementedError", when=c.save_persistent_id != NONE, label="persistent-id")
    o = c.normal(when=c.save_persistent_id == NONE)
    o.set("elems", lwlist(S, P), T.pk_aq(unit(it), Q, R))
    o.set("rtrace", P, T.pk_ar(unit(it), Q, R))


# ----------------------------------------------------------------------------------------------- dump
def _r1_of(term):
    """the trace just before realsave(obj): third argument of the pk_ar application that realsave's contract left in rtrace"""
    if z3.is_app(term) and term.decl().eq(T.pk_ar):
        return term.arg(2)
    return None


@contract(f"{PK}.dump", f"self:{PK}, obj:any", props=("C10",), oracle_op=True)
def _(c):
    """the real events of dump(obj) are: the protocol header (protocol >= 2), then the depth-first left-to-right execution of
    [save obj] - the order of a recursive pickler -, then STOP; afterwards nothing is pending"""
    S, P = c.S, c.self
    layout(c, S, P)
    c.requires(Len(Qof(S, P)) == 0, "nothing-pending")
    c.requires(S.read("dyn_has", P, StringVal("proto")), "protocol-set")
    H = c.ghost("H", RSeq)
    o = c.normal()
    R0 = Rof(S, P)
    o.set("rtrace", P, snoc(T.pk_exec(unit(T.mk_save(c.obj)), cat(R0, H)), T.ev_w(STOP)))
    o.fact(Len(H) <= 1)
    o.loose("dyn_val", lambda new, old, *_: [Schema("only-the-queue-is-rebound", (Ref, T.Str), lambda x, n: Implies(Not(And(x == P, n == LW)), new(x, n) == old(x, n)), trigger=("dyn_val",))])
    o.loose("elems", lambda new, old, st=None, *_: [Schema("nothing-pending-afterwards", (Ref,), lambda x: Implies(x == st.read("dyn_val", P, LW), Len(new(x)) == 0), trigger=("elems",))] if st is not None else [])


def _dump_env(L):
    eng = L.engine
    P = L.args["self"].term
    obj = L.args["obj"].term
    return eng, eng.ct, P, obj


@REG.loop(f"{PK}.dump", 0)
def _(L):
    """outer loop: pk_exec(pending queue, events so far) is the target T = pk_exec([save obj], R1)"""
    eng, ct, P, obj = _dump_env(L)
    ent = L.st
    R1 = _r1_of(Rof(ent, P))
    if R1 is None:
        return LoopInv(facts=[BoolVal(False)])         # the code before the loop is not `realsave(obj)` on an empty queue: no witness
    R0 = Rof(L.pre, P)
    parts = T._flat(R1)
    H = cat(*parts[1:]) if (parts and parts[0].eq(R0)) else None
    if H is None and z3.is_app(R1) and R1.decl().eq(T.pk_ar) and R1.arg(2).eq(R0) and T._is_unit(R1.arg(0)):
        H = unit(T.ev_w(R1.arg(0).arg(0)))       # the header went through write() on an empty queue: one real write (witness)
    Tgt = T.pk_exec(unit(T.mk_save(obj)), R1)
    define = {"$R1": VSeq(R1)}
    if H is not None:
        define["$H"] = VSeq(H)
    if L.phase in ("assume", "exit"):
        Qc, Rc = T.fresh("Qhead", RSeq), T.fresh("Rhead", RSeq)

        def c_rt(new, old, *_):
            return [Schema("trace-at-loop-head", (Ref,), lambda x: If(x == P, new(x) == Rc, new(x) == ent.read("rtrace", x)), trigger=("rtrace",))]

        def c_dv(new, old, *_):
            return [Schema("only-the-queue-is-rebound", (Ref, T.Str), lambda x, n: If(And(x == P, n == LW), new(x, n) != NONE, new(x, n) == ent.read("dyn_val", x, n)), trigger=("dyn_val",))]

        def c_el(new, old, st=None, *_):
            return [Schema("queue-at-loop-head", (Ref,), lambda x: Implies(x == st.read("dyn_val", P, LW), new(x) == Qc), trigger=("elems",))] if st is not None else []
        return LoopInv(facts=[T.pk_exec(Qc, Rc) == Tgt], define=define, ground_defs=[exec_nil_def(Rc)],
                       loose=[Loose("rtrace", c_rt), Loose("dyn_val", c_dv), Loose("elems", c_el)])
    cur = L.cur if L.cur is not None else L.path.st
    Qc, Rc = Qof(cur, P), Rof(cur, P)
    gdefs = [exec_nil_def(Rc)]
    if L.phase == "entry":
        t = T.pk_body(obj, R1)
        gdefs += [exec_apply_fact(t, EMPTY(), R1)] + exec_step_defs(ct, T.mk_save(obj), EMPTY(), R1)
    else:
        gdefs += _step_instances(L, ct)
    return LoopInv(facts=[T.pk_exec(Qc, Rc) == Tgt], define=define, ground_defs=gdefs,
                   loose=[Loose("rtrace", lambda new, old, *_: []), Loose("dyn_val", lambda new, old, *_: [
                       Schema("only-the-queue-is-rebound", (Ref, T.Str), lambda x, n: Implies(Not(And(x == P, n == LW)), new(x, n) == ent.read("dyn_val", x, n)), trigger=("dyn_val",))]),
                       Loose("elems", lambda new, old, *_: [])])


def _step_instances(L, ct):
    """the unfoldings of pk_exec / the scheduler lemma for the item popped in this iteration (head `lw`, tail `$rest`, trace at
    the head of the iteration `$Rb`)"""
    env = L.env
    if not all(k in env for k in ("lw", "$rest", "$Rb")):
        return []
    lw, rest, Rb = env["lw"].term, env["$rest"].term, env["$Rb"].term
    t = T.pk_body(T.item_obj(lw), Rb)
    return exec_step_defs(ct, lw, rest, Rb) + [exec_apply_fact(t, rest, Rb), exec_nil_def(Rb)]


@REG.loop(f"{PK}.dump", 1)
def _(L):
    """inner loop: nothing is pending in self.lazywrites, and pk_exec(lws, events so far) is the target"""
    eng, ct, P, obj = _dump_env(L)
    ent = L.st
    R1 = L.env["$R1"].term
    Tgt = T.pk_exec(unit(T.mk_save(obj)), R1)
    lws = L.env["lws"].ref
    lazy = lwlist(ent, P)                       # the list bound to self.lazywrites does not change inside the inner loop
    if L.phase in ("assume", "exit"):
        Lc, Rc = T.fresh("lws_head", RSeq), T.fresh("Rb", RSeq)

        def c_rt(new, old, *_):
            return [Schema("trace-at-iteration-head", (Ref,), lambda x: If(x == P, new(x) == Rc, new(x) == ent.read("rtrace", x)), trigger=("rtrace",))]

        def c_el(new, old, *_):
            return [Schema("lists-at-iteration-head", (Ref,), lambda x: If(x == lws, new(x) == Lc, If(x == lazy, new(x) == EMPTY(), new(x) == ent.read("elems", x))), trigger=("elems",))]
        return LoopInv(facts=[T.pk_exec(Lc, Rc) == Tgt, lws != lazy], define={"$Rb": VSeq(Rc)}, ground_defs=[exec_nil_def(Rc)],
                       loose=[Loose("rtrace", c_rt), Loose("elems", c_el)])
    cur = L.cur if L.cur is not None else L.path.st
    facts = [T.pk_exec(cur.elems(lws), Rof(cur, P)) == Tgt, Len(cur.elems(lazy)) == 0, lws != lazy]
    gdefs = [] if L.phase == "entry" else _step_instances(L, ct)
    return LoopInv(facts=facts, ground_defs=gdefs, loose=[Loose("rtrace", lambda new, old, *_: []), Loose("elems", lambda new, old, *_: [])])
