"""Contracts of edgegraph.output.plantuml (C14): the option lookup, the per-vertex / per-link text and the assembled source.

Vocabulary (all taken from the statement of C14, none from the code):
  options          the option table {class: {option: value}}             heap fields opt_has / opt_get (+ "skinparams")
  NEAR(c)          index of the first class of c.__mro__ that is a key   RESIDX(options, c, 0)  (recursive definition below)
  RES(c)           the options of the nearest configured class           opt_get(options, mro_at(c, NEAR(c)))
  CMP(x)           the `show_attrs` value after _resolve_options ran     x if it is a pattern object, else re.compile("(" + ")|(".join(x) + ")")
  TITLE(v, o)      the configured title of vertex v under options o      hex(id(v)) if title_format == "$id" else title_format.format(**attrs)
  DECL(v)          the declaration text of v                             header line with type, TITLE, <<class name>>, one line per shown attribute
  REL(l)           the relation line of link l                           TITLE(v1) + " " + v1side + "--" + v2side + " " + TITLE(v2) + "\\n"
dir(), re and str.format are not modelled: the names matched, the mapping built from them and the formatted text are
uninterpreted functions of exactly the values the statement lets them depend on (vertex, pattern, format, attribute heap).
"""
from __future__ import annotations
import z3
from z3 import And, Or, Not, Implies, BoolVal, If, StringVal, Concat, Unit, Length
from pyvc import terms as T
from pyvc.terms import Ref, Int, Str, Cls, RSeq, SSeq, NONE, Cnt, Mem, Len, snoc, cat, ite, EMPTY, unit, Nth
from pyvc.contracts import REG, Schema, LoopInv, Loose
from pyvc.values import *
from pyvc.ops import py_eq
from .common import *

contract = REG.contract
SA, TF, TY, URF = StringVal("show_attrs"), StringVal("title_format"), StringVal("type"), StringVal("user_render_func")
V1S, V2S, SSP = StringVal("v1side"), StringVal("v2side"), StringVal("stereotype_skinparams")
_ids = {}


def _key(S, *names):
    k = []
    keep = []
    for n in names:
        f = S._fs(n)
        k.append((f.base.name(), tuple(id(u) for u in f.updates)))
        keep.append(f)
    k = tuple(k)
    if k not in _ids:
        _ids[k] = (len(_ids), keep)
    return _ids[k][0]


def RESIDX(S):
    """RESIDX(options, c, i): the least j >= i with c.__mro__[j] a key of options, len(c.__mro__) if there is none.
    Defined by recursion on len(mro) - i (conservative); `residx_def` is its unfolding at one index."""
    return z3.Function(f"residx@{_key(S, 'opt_has')}", Ref, Cls, Int, Int)


def residx_def(S, o, c, i):
    R = RESIDX(S)
    n = T.mro_len(c)
    return R(o, c, i) == If(i >= n, n, If(S.read("opt_has", o, T.mro_at(c, i)), i, R(o, c, i + 1)))


def NEAR(S, o, c):
    return RESIDX(S)(o, c, z3.IntVal(0))


def RES(S, o, c):
    return S.read("opt_get", o, T.mro_at(c, NEAR(S, o, c)))


def resolves(S, o, c):
    return NEAR(S, o, c) < T.mro_len(c)


def CMP(x):
    return ite(T.is_pattern(x), x, T.rx_compile(Concat(StringVal("("), T.join_o(StringVal(")|("), x), StringVal(")"))))


def compiled_effect(o_, S, opts):
    """_resolve_options normalises the `show_attrs` entry of the dictionary it returns, and nothing else"""
    has = S.read("od_has", opts, SA)
    o_.set("od_val", (opts, SA), CMP(S.read("od_val", opts, SA)), when=has)


@contract("plantuml._resolve_options", "clas:cls, options:opttable", props=("C14",), oracle_op=True)
def _(c):
    """the options of the nearest configured class: the entry of the first class in clas.__mro__ that is a key of the table;
    ValueError when no class of the MRO is configured"""
    S = c.S
    k = NEAR(S, c.options, c.clas)
    c.define(residx_def(S, c.options, c.clas, z3.IntVal(0)))
    none = k >= T.mro_len(c.clas)
    c.raises("ValueError", when=none, label="nothing-configured")
    o = c.normal(when=Not(none), label="resolved")
    opts = RES(S, c.options, c.clas)
    o.result(VOpts(opts))
    compiled_effect(o, S, opts)
    o.fact(And(k >= 0, k < T.mro_len(c.clas), S.read("opt_has", c.options, T.mro_at(c.clas, k))))


@REG.loop("plantuml._resolve_options", 0)
def _(L):
    S = L.pre
    o, c = L.args["options"].term, L.args["clas"].term
    R = RESIDX(S)
    k = L.k
    defs = [residx_def(S, o, c, k), residx_def(S, o, c, k + 1)]
    return LoopInv(facts=[R(o, c, z3.IntVal(0)) == R(o, c, k), k >= 0, k < T.mro_len(c)],
                   define={"mro_idx": VInt(k), "search": VCls(T.mro_at(c, k), None)},
                   ground_defs=defs)


# =============================================================================================== titles, declarations, relation lines
DOLLAR_ID = T.str_box(StringVal("$id"))
SP, DASHES, NLS = StringVal(" "), StringVal("--"), StringVal("\n")


def TITLEV(eng, S, v, sa, tf):
    """the configured title of v: hex(id(v)) for the "$id" format, else title_format.format(**{a: v[a] for a in the shown attributes})"""
    return ite(py_eq(tf, DOLLAR_ID), T.hexid(v), T.fmt_apply(tf, eng.attr_map(S, v, eng.attr_names(S, v, sa))))


def ATTRCH(eng, S):
    """ATTRCH(v, names): the characters of the attribute lines of v, by snoc recursion over the shown attribute names"""
    return z3.Function(f"attr_lines@{eng.dyn_key(S)}", Ref, SSeq, SSeq)


def attr_line(eng, S, v, a):
    return Concat(StringVal("    {field} "), a, StringVal(" = "), T.py_str(eng.get_attr(S, v, a)), NLS)


def attrch_defs(eng, S, v, q):
    A = ATTRCH(eng, S)
    out = [A(v, z3.Empty(SSeq)) == z3.Empty(SSeq)]
    if T._is_concat(q):
        parts = T._flat(q)
        if T._is_unit(parts[-1]):
            head = parts[0] if len(parts) == 2 else Concat(*parts[:-1])
            out.append(A(v, q) == Concat(A(v, head), T.chars(attr_line(eng, S, v, parts[-1].arg(0)))))
    return out


def DECLSTR(eng, S, v, o):
    """the declaration text of vertex v under the option table o (heap S: before the call that produces it)"""
    opts = RES(S, o, T.cls_of(v))
    sa = CMP(S.read("od_val", opts, SA))
    std = Concat(T.py_str(S.read("od_val", opts, TY)), SP, T.py_str(TITLEV(eng, S, v, sa, S.read("od_val", opts, TF))),
                 StringVal(" <<"), T.cls_name(T.cls_of(v)), StringVal(">> {\n"),
                 T.sjoin(StringVal(""), ATTRCH(eng, S)(v, eng.attr_names(S, v, sa))), StringVal("}\n"))
    return ite(S.read("od_has", opts, URF), T.ocall2_str(S.read("od_val", opts, URF), v, o), std)


def RELSTR(eng, S, l, o):
    """the relation line of link l: title(v1) v1side--v2side title(v2), with the arrow ends configured for the class of l"""
    v1, v2 = S.v1(l), S.v2(l)
    ol, o1, o2 = RES(S, o, T.cls_of(l)), RES(S, o, T.cls_of(v1)), RES(S, o, T.cls_of(v2))
    t1 = TITLEV(eng, S, v1, CMP(S.read("od_val", o1, SA)), S.read("od_val", o1, TF))
    t2 = TITLEV(eng, S, v2, CMP(S.read("od_val", o2, SA)), S.read("od_val", o2, TF))
    return Concat(T.py_str(t1), SP, T.py_str(S.read("od_val", ol, V1S)), DASHES, T.py_str(S.read("od_val", ol, V2S)), SP, T.py_str(t2), NLS)


def WF(S, ct, o):
    """the option table covers the graph: every vertex / link class resolves, and the resolved dictionaries carry the options
    the renderer reads (vertices: show_attrs, title_format, type; links: v1side, v2side)"""
    def f(x):
        opts = RES(S, o, T.cls_of(x))
        isv, isl = ct.is_a(x, "Vertex"), ct.is_a(x, "Link")
        return And(Implies(And(x != NONE, Or(isv, isl)), And(resolves(S, o, T.cls_of(x)), opts != NONE)),
                   Implies(And(x != NONE, isv), And(S.read("od_has", opts, SA), S.read("od_has", opts, TF), S.read("od_has", opts, TY))),
                   Implies(And(x != NONE, isl), And(S.read("od_has", opts, V1S), S.read("od_has", opts, V2S))))
    return Schema("options-cover-the-graph", (Ref,), f)


def wf_defs(S, o, x):
    return residx_def(S, o, T.cls_of(x), z3.IntVal(0))


@contract("plantuml._vertex_title", "vertex:Vertex, opts:opts", props=("C14",), oracle_op=True)
def _(c):
    S = c.S
    c.requires(And(S.read("od_has", c.opts, SA), S.read("od_has", c.opts, TF)), "options-present")
    o = c.normal()
    o.result(VRef(TITLEV(c.engine, S, c.vertex, S.read("od_val", c.opts, SA), S.read("od_val", c.opts, TF)), None, "opaque"))


@contract("plantuml._one_vert_to_puml", "vertex:Vertex, options:opttable", props=("C14",), oracle_op=True)
def _(c):
    """the declaration of one vertex: type, configured title, <<class name>> and one line per shown attribute, all taken from the
    options of the nearest configured class (or whatever its user_render_func returns)"""
    S, ct = c.S, c.ct
    c.assume_inv(WF(S, ct, c.options))
    c.define(wf_defs(S, c.options, c.vertex))
    o = c.normal()
    o.result(VStr(DECLSTR(c.engine, S, c.vertex, c.options)))
    compiled_effect(o, S, RES(S, c.options, T.cls_of(c.vertex)))


@REG.loop("plantuml._one_vert_to_puml", 0)
def _(L):
    eng = L.engine
    S = L.pre
    v = L.args["vertex"].term
    lines = L.env["attrlines"].ref
    q = L.prefix
    ent = L.st
    defs = attrch_defs(eng, S, v, q)
    if L.phase == "assume" and L.elem is not None:
        defs.append(eng.has_attr(S, v, L.elem))          # A12: getattr succeeds on every name dir() lists

    def c_selems(new, old, *_):
        return [Schema("attribute-lines-so-far", (Ref,), lambda r: If(r == lines, new(r) == ATTRCH(eng, S)(v, q), new(r) == ent.read("selems", r)), trigger=("selems",))]
    return LoopInv(ground_defs=defs, loose=[Loose("selems", c_selems)])


def two_ended(S, ct, l):
    v1, v2 = S.v1(l), S.v2(l)
    return And(l != NONE, ct.is_a(l, "TwoEndedLink"), Len(S.ends(l)) == 2, v1 != NONE, v2 != NONE, ct.is_a(v1, "Vertex"), ct.is_a(v2, "Vertex"))


def compiled_where(o_, S, targets):
    """the `show_attrs` entries of the dictionaries in `targets` are normalised (each _resolve_options call does that to the
    dictionary it returns); nothing else in any option dictionary changes"""
    def upd(ad):
        return (And(ad[1] == SA, Or(*[ad[0] == t for t in targets]), S.read("od_has", ad[0], SA)), CMP(S.read("od_val", ad[0], SA)))
    o_.set_where("od_val", upd)


@contract("plantuml._one_link_to_puml", "lnk:Link, options:opttable", props=("C14",), oracle_op=True)
def _(c):
    """one relation line: the titles of v1 and v2 (each under the options of its own class) in that order, joined by the arrow ends
    configured for the class of the link"""
    S, ct, l, o = c.S, c.ct, c.lnk, c.options
    c.requires(two_ended(S, ct, l), "two-ended-link-between-vertices")
    c.assume_inv(WF(S, ct, o))
    v1, v2 = S.v1(l), S.v2(l)
    c.define(wf_defs(S, o, l), wf_defs(S, o, v1), wf_defs(S, o, v2))
    out = c.normal()
    out.result(VStr(RELSTR(c.engine, S, l, o)))
    compiled_where(out, S, [RES(S, o, T.cls_of(l)), RES(S, o, T.cls_of(v1)), RES(S, o, T.cls_of(v2))])


@contract("plantuml._one_vert_to_skinparam", "vert:Vertex, options:opttable", props=("C14",), oracle_op=True)
def _(c):
    """per-object skinparam lines: a new list of strings (their text is not part of C14); only the options dictionary of the
    vertex's class is normalised"""
    S, ct = c.S, c.ct
    c.assume_inv(WF(S, ct, c.options))
    c.define(wf_defs(S, c.options, c.vert))
    o = c.normal()
    r = o.fresh("<container>", "skinlines")
    o.result(VList(r, "<str>"))
    compiled_effect(o, S, RES(S, c.options, T.cls_of(c.vert)))
    o.set("elems", r, EMPTY())
    o.loose("selems", lambda new, old, *_: [Schema("other-lists-untouched", (Ref,), lambda x: Implies(x != r, new(x) == old(x)), trigger=("selems",))])


@REG.loop("plantuml._one_vert_to_skinparam", 0)
def _(L):
    out = L.env["output"].ref
    return LoopInv(loose=[Loose("selems", lambda new, old, *_: [Schema("only-the-output-grows", (Ref,), lambda x: Implies(x != out, new(x) == old(x)), trigger=("selems",))])])


# =============================================================================================== render_to_plantuml_src
START, END_, OBJ_OPEN, OBJ_CLOSE = StringVal("@startuml\n"), StringVal("@enduml\n"), StringVal("skinparam object {\n"), StringVal("}\n")
NOTE = z3.String("const:edgegraph.output.plantuml.PLANTUML_AUTOGEN_NOTE")
EMPTYS = z3.Empty(SSeq)


class PumlEnv:
    """spec vocabulary of one render_to_plantuml_src(uni, options) call, over the heap S at function entry:
         V           the members of uni, in order
         INC(q, l)   some vertex of q lists l among its links          (snoc recursion)
         DECLS(q)    [DECL(v) for v in q]                              (snoc recursion)
         RELS(p)     [REL(l) for l in p]                               (snoc recursion)
         SK1(a, k)   the first k diagram-wide skinparam lines of options["skinparams"] = a"""

    def __init__(self, eng, S, ct, uni, options):
        self.eng, self.S, self.ct, self.uni, self.o = eng, S, ct, uni, options
        k = _key(S, "opt_has", "opt_get", "od_has", "od_val", "dyn_has", "dyn_val", "_links", "_vertices")
        self.V = S.members(uni)
        self.INC = z3.Function(f"puml_inc@{k}", RSeq, Ref, z3.BoolSort())
        self.DECLS = z3.Function(f"puml_decls@{k}", Ref, RSeq, SSeq)
        self.RELS = z3.Function(f"puml_rels@{k}", Ref, RSeq, SSeq)
        self.SK1 = z3.Function("puml_skin", Ref, Int, SSeq)

    def decl(self, v):
        return DECLSTR(self.eng, self.S, v, self.o)

    def rel(self, l):
        return RELSTR(self.eng, self.S, l, self.o)

    def skin_line(self, a, i):
        return Concat(StringVal("skinparam "), T.ad_key(a, i), SP, T.py_str(T.ad_val(a, i)), NLS)

    @staticmethod
    def _snoc(sq):
        parts = T._flat(sq)
        if parts and T._is_unit(parts[-1]) and not T._is_empty(sq):
            return cat(*parts[:-1]), parts[-1].arg(0)
        return None

    def seq_defs(self, F, q, item):
        out = [F(self.o, EMPTY()) == EMPTYS]
        sp = self._snoc(q)
        if sp:
            head, x = sp
            out.append(F(self.o, q) == Concat(F(self.o, head), Unit(item(x))))
        return out

    def inc_defs(self, q):
        S = self.S
        out = [Schema("inc-nil", (Ref,), lambda l: Not(self.INC(EMPTY(), l)))]
        sp = self._snoc(q)
        if sp:
            head, v = sp
            out.append(Schema("inc-snoc", (Ref,), lambda l: self.INC(q, l) == Or(self.INC(head, l), Mem(S.links(v), l))))
        return out

    def skin_defs(self, a, k):
        return [self.SK1(a, z3.IntVal(0)) == EMPTYS,
                Implies(k >= 0, self.SK1(a, k + 1) == Concat(self.SK1(a, k), Unit(self.skin_line(a, k))))]

    def skin_doc(self):
        """the diagram-wide skinparam lines: one per item of options["skinparams"] (none if the key is absent or the dict empty)"""
        a = T.opt_skin(self.o)
        return ite(And(T.opt_has_skin(self.o), T.ad_len(a) != 0), self.SK1(a, T.ad_len(a)), EMPTYS)


def options_only_normalised(S0):
    """every option dictionary is as at function entry, except that `show_attrs` entries may have been normalised"""
    def c_val(new, old, *_):
        return [Schema("options-only-normalised", (Ref, Str), lambda o, k: Or(
            new(o, k) == S0.read("od_val", o, k),
            And(k == SA, S0.read("od_has", o, SA), new(o, k) == CMP(S0.read("od_val", o, k)))), trigger=("od_val",)),
            # consequence (CMP is idempotent), stated so that the solver need not redo the case split for every title
            Schema("normal-form-unchanged", (Ref, Str), lambda o, k: Implies(k == SA, CMP(new(o, k)) == CMP(S0.read("od_val", o, k))), trigger=("od_val",))]
    return Loose("od_val", c_val)


def puml_pre(c, S, ct, uni, o):
    V = S.members(uni)
    c.assume_inv(Schema("members-are-distinct-vertices", (Ref,), lambda x: And(Cnt(V, x) <= 1, Implies(Mem(V, x), And(x != NONE, ct.is_a(x, "Vertex"))))))
    c.assume_inv(Schema("every-link-of-a-member-is-two-ended", (Ref, Ref), lambda x, l: Implies(
        And(Mem(V, x), Mem(S.links(x), l)), two_ended(S, ct, l)), pair_from=("_links@",)))
    c.assume_inv(WF(S, ct, o))


@contract("plantuml.render_to_plantuml_src", "uni:Universe, options:opttable", props=("C14",), oracle_op=True, shards=4)
def _(c):
    """C14.  None for an empty universe; otherwise the text is the concatenation of
         "@startuml", the skinparam lines, the generation note,
         one declaration per member vertex in universe order (DECL),
         one relation line (REL) per link listed by some member - each such link exactly once, in an unspecified order -,
         "@enduml".
    Domain: option tables that cover the graph (WF), two-ended links between vertices, callables / str.format that return."""
    S, ct = c.S, c.ct
    E = PumlEnv(c.engine, S, ct, c.uni, c.options)
    puml_pre(c, S, ct, c.uni, c.options)
    empty = Len(E.V) == 0
    c.normal(when=empty, result=NONE_V, label="empty-universe")
    p = c.enum_where(lambda l: E.INC(E.V, l), "links")
    SKO = c.ghost("SKO", SSeq)                       # the per-object skinparam block: its text is not part of C14
    o = c.normal(when=Not(empty), label="rendered")
    doc = Concat(Unit(START), E.skin_doc(), SKO, Unit(NOTE), E.DECLS(c.options, E.V), E.RELS(c.options, p), Unit(END_))
    o.result(VStr(T.SJoin(StringVal(""), doc)))
    o.o.loose.append(options_only_normalised(S))


def _penv(L):
    return PumlEnv(L.engine, L.pre, L.engine.ct, L.args["uni"].term, L.args["options"].term)


@REG.loop("plantuml.render_to_plantuml_src", 0)
def _(L):
    E = _penv(L)
    S0, ct = L.pre, L.engine.ct
    q = L.prefix
    vcomps, links = L.env["vertex_comps"].ref, L.env["links"].ref
    ent = L.st

    def c_selems(new, old, *_):
        return [Schema("declarations-so-far", (Ref,), lambda r: If(r == vcomps, new(r) == E.DECLS(E.o, q), new(r) == ent.read("selems", r)), trigger=("selems",))]

    def c_setmem(new, old, *_):
        return [Schema("links-collected-so-far", (Ref, Ref), lambda r, l: If(r == links, new(r, l) == E.INC(q, l), new(r, l) == ent.read("setmem", r, l)), trigger=("setmem",)),
                Schema("links-collected-so-far/1", (Ref,), lambda l: new(links, l) == E.INC(q, l))]
    return LoopInv(loose=[Loose("selems", c_selems), Loose("setmem", c_setmem), options_only_normalised(S0)],
                   schemas=[Schema("collected-links-are-two-ended", (Ref,), lambda l: Implies(E.INC(q, l), two_ended(S0, ct, l)))],
                   ground_defs=E.seq_defs(E.DECLS, q, E.decl), defs=E.inc_defs(q))


@REG.loop("plantuml.render_to_plantuml_src", 1)
def _(L):
    E = _penv(L)
    comps = L.env["components"].ref
    a = T.opt_skin(E.o)
    ent = L.st

    def c_selems(new, old, *_):
        return [Schema("skinparam-lines-so-far", (Ref,), lambda r: If(r == comps, new(r) == Concat(Unit(START), E.SK1(a, L.k)), new(r) == ent.read("selems", r)), trigger=("selems",))]
    return LoopInv(loose=[Loose("selems", c_selems)], ground_defs=E.skin_defs(a, L.k))


def _sko_witness(L, comps):
    """ghost: the per-object skinparam block = what lies between the diagram-wide lines and the generation note in the
    components list at the entry of the relation loop (found syntactically; no witness => the obligation stays open)"""
    parts = T._flat(L.st.read("selems", comps))
    for i, pt in enumerate(parts):
        if T._is_unit(pt) and pt.arg(0).eq(NOTE) and i >= 1:
            mid = parts[1:i]
            return EMPTYS if not mid else (mid[0] if len(mid) == 1 else Concat(*mid))
    return None


@REG.loop("plantuml.render_to_plantuml_src", 2)
def _(L):
    E = _penv(L)
    S0 = L.pre
    comps = L.env["components"].ref
    ent = L.st
    q = L.prefix
    C0 = ent.read("selems", comps)

    def c_selems(new, old, *_):
        return [Schema("relation-lines-so-far", (Ref,), lambda r: If(r == comps, new(r) == Concat(C0, E.RELS(E.o, q)), new(r) == ent.read("selems", r)), trigger=("selems",))]
    define = {}
    w = _sko_witness(L, comps)
    if w is not None:
        define["$SKO"] = VSeq(w)
    return LoopInv(loose=[Loose("selems", c_selems), options_only_normalised(S0)], ground_defs=E.seq_defs(E.RELS, q, E.rel), define=define)
