"""Contracts of edgegraph.structure: vertex <-> link association (C01, C03, C05) and read accessors (C12).

Top-level postconditions are the *reference model* of DESIGN.md appendix A.1, written from the property statements.
"""
from __future__ import annotations
import z3
from z3 import And, Or, Not, Implies, BoolVal, If
from pyvc import terms as T
from pyvc.terms import Ref, Int, NONE, Cnt, Mem, Len, snoc, Rem1, Without, Nth, SetNth, ite, b2i
from pyvc.contracts import REG, Schema
from pyvc.values import *
from .common import *

contract = REG.contract

# =============================================================================================== read accessors


@contract("Vertex.links", "self:Vertex", pure_getter=True, props=("C12", "C13"))
def _(c):
    # a tuple: immutable snapshot of the ordered link list
    c.normal(result=VSeq(c.S.links(c.self), "Link", "tuple"))


@contract("Link.vertices", "self:Link", pure_getter=True, props=("C12", "C13"))
def _(c):
    c.normal(result=VSeq(c.S.ends(c.self), "Vertex", "tuple"))


@contract("BaseObject.uid", "self:BaseObject", pure_getter=True, props=("C13",))
def _(c):
    c.normal(result=VInt(c.S.uid(c.self)))


@contract("TwoEndedLink.v1", "self:TwoEndedLink", pure_getter=True, props=("C03", "C13"))
def _(c):
    e = c.S.ends(c.self)
    c.raises("IndexError", when=Len(e) < 1)
    c.normal(when=Len(e) >= 1, result=VRef(Nth(e, 0), "Vertex"))


@contract("TwoEndedLink.v2", "self:TwoEndedLink", pure_getter=True, props=("C03", "C13"))
def _(c):
    e = c.S.ends(c.self)
    c.raises("IndexError", when=Len(e) < 2)
    c.normal(when=Len(e) >= 2, result=VRef(Nth(e, 1), "Vertex"))


# the overrides in DirectedEdge are verified against the very same contracts (behavioural subtyping is proved)
REG.refines("DirectedEdge.v1", "TwoEndedLink.v1", "self:DirectedEdge")
REG.refines("DirectedEdge.v2", "TwoEndedLink.v2", "self:DirectedEdge")


@contract("TwoEndedLink.other", "self:TwoEndedLink, end:Vertex?", props=("C04", "C09", "C13"))
def _(c):
    e = c.S.ends(c.self)
    # v1 is read first; v2 only if `end` is not v1
    c.raises("IndexError", when=Or(Len(e) < 1, And(Len(e) < 2, c.end != Nth(e, 0))))
    ok = Not(Or(Len(e) < 1, And(Len(e) < 2, c.end != Nth(e, 0))))
    res = ite(c.end == Nth(e, 0), Nth(e, 1), ite(c.end == Nth(e, 1), Nth(e, 0), NONE))
    # NB: for a one-ended edge with end == v1, `self.v2` raises IndexError as well
    c.spec.outcomes.clear()
    c.raises("IndexError", when=Len(e) < 2)
    c.normal(when=Len(e) >= 2, result=VRef(res, "Vertex"))


# =============================================================================================== cache plumbing


@contract("Vertex._qa_stats", "self:Vertex", props=("C05",))
def _(c):
    o = c.normal(result=VOpaque("counters"))
    stats_monotone(o)


@contract("Vertex._qa_neighbors_invalidate", "self:Vertex", props=("C05",))
def _(c):
    v = c.self
    o = c.normal()
    cache_effects(o, lambda x: x == v)


@contract("Link._invalidate_ends", "self:Link", props=("C05",))
def _(c):
    S, l = c.S, c.self
    c.assume_inv(TY_links(S, c.ct))
    o = c.normal()
    cache_effects(o, lambda x: And(x != NONE, Mem(S.ends(l), x)))


@REG.loop("Link._invalidate_ends", 0)
def _(L):
    from pyvc.contracts import LoopInv, Loose
    S = L.st
    pre = L.prefix

    def c_has(new, old):
        return [Schema("memo-shrinks-prefix-cleared", MEMO_KEY,
                       lambda v, d, u, f: Implies(new(v, d, u, f), And(old(v, d, u, f), Not(And(v != NONE, Mem(pre, v))))),
                       trigger=("memo_has",))]

    def c_stats(new, old):
        return [Schema("stats-monotone", (Int,), lambda u: Implies(old(u), new(u)), trigger=("stats_has",))]
    return LoopInv(state=S, loose=[Loose("memo_has", c_has), Loose("stats_has", c_stats)])


# =============================================================================================== association mutators


def assoc_invs(c):
    c.assume_inv(TY_links(c.S, c.ct))
    c.assume_inv(I1_nodup(c.S, c.ct))


@contract("Link.add_vertex", "self:Link, new:Vertex?", group="assoc-add", props=("C01", "C03", "C05"))
def _(c):
    S, l, v = c.S, c.self, c.new
    assoc_invs(c)
    attach = And(v != NONE, Not(Mem(S.links(v), l)))
    c.measure(2 * b2i(attach) + 1)
    o = c.normal()
    ends1 = snoc(S.ends(l), v)
    o.set("_vertices", l, ends1)
    o.set("_links", v, snoc(S.links(v), l), when=attach)
    cache_effects(o, lambda x: And(x != NONE, Mem(ends1, x)))


@contract("Vertex.add_to_link", "self:Vertex, link:Link", group="assoc-add", props=("C01", "C03", "C05"))
def _(c):
    S, v, l = c.S, c.self, c.link
    assoc_invs(c)
    c0 = Not(Mem(S.links(v), l))
    c1 = And(c0, Not(Mem(S.ends(l), v)))
    c.measure(2 * b2i(c0))
    o = c.normal()
    o.set("_links", v, snoc(S.links(v), l), when=c0)
    ends1 = ite(c1, snoc(S.ends(l), v), S.ends(l))
    o.set("_vertices", l, ends1)
    cache_effects(o, lambda x: Or(x == v, And(c1, x != NONE, Mem(ends1, x))))


@contract("Link.unlink_from", "self:Link, kill:Vertex?", group="assoc-del", props=("C01", "C03", "C05"))
def _(c):
    S, l, k = c.S, c.self, c.kill
    assoc_invs(c)
    hit = Mem(S.ends(l), k)
    c.measure(Cnt(S.ends(l), k) + ite(k == NONE, z3.IntVal(0), Cnt(S.links(k), l)))
    o = c.normal()
    ends1 = ite(hit, Without(S.ends(l), k), S.ends(l))
    o.set("_vertices", l, ends1)
    o.set("_links", k, Rem1(S.links(k), l), when=And(hit, k != NONE))
    cache_effects(o, lambda x: And(hit, x != NONE, Or(x == k, Mem(ends1, x))))


@contract("Vertex.remove_from_link", "self:Vertex, link:Link", group="assoc-del", props=("C01", "C03", "C05"))
def _(c):
    S, v, l = c.S, c.self, c.link
    assoc_invs(c)
    hit = Mem(S.links(v), l)
    c.measure(Cnt(S.ends(l), v) + Cnt(S.links(v), l))
    o = c.normal()
    o.set("_links", v, Rem1(S.links(v), l), when=hit)
    ends1 = ite(hit, Without(S.ends(l), v), S.ends(l))
    o.set("_vertices", l, ends1)
    cache_effects(o, lambda x: Or(x == v, And(hit, Mem(S.ends(l), v), x != NONE, Mem(ends1, x))))
