"""Contracts of edgegraph.structure: vertex <-> link association (C01, C03, C05) and read accessors (C12).

Top-level postconditions are the *reference model* of DESIGN.md appendix A.1, written from the property statements.
"""
from __future__ import annotations
import z3
from z3 import And, Or, Not, Implies, BoolVal, If
from pyvc import terms as T
from pyvc.terms import Ref, Int, NONE, Cnt, Mem, Len, snoc, Rem1, Without, Nth, SetNth, ite, b2i
from pyvc.contracts import REG, Schema
from pyvc.values import *
from .common import *

contract = REG.contract

# =============================================================================================== read accessors


@contract("Vertex.links", "self:Vertex", pure_getter=True, props=("C12", "C13"))
def _(c):
    # a tuple: immutable snapshot of the ordered link list
    c.normal(result=VSeq(c.S.links(c.self), "Link", "tuple"))


@contract("Link.vertices", "self:Link", pure_getter=True, props=("C12", "C13"))
def _(c):
    c.normal(result=VSeq(c.S.ends(c.self), "Vertex", "tuple"))


@contract("BaseObject.uid", "self:BaseObject", pure_getter=True, props=("C13",))
def _(c):
    c.normal(result=VInt(c.S.uid(c.self)))


@contract("TwoEndedLink.v1", "self:TwoEndedLink", pure_getter=True, props=("C03", "C13"))
def _(c):
    e = c.S.ends(c.self)
    c.raises("IndexError", when=Len(e) < 1)
    c.normal(when=Len(e) >= 1, result=VRef(Nth(e, 0), "Vertex"))


@contract("TwoEndedLink.v2", "self:TwoEndedLink", pure_getter=True, props=("C03", "C13"))
def _(c):
    e = c.S.ends(c.self)
    c.raises("IndexError", when=Len(e) < 2)
    c.normal(when=Len(e) >= 2, result=VRef(Nth(e, 1), "Vertex"))


# the overrides in DirectedEdge are verified against the very same contracts (behavioural subtyping is proved)
REG.refines("DirectedEdge.v1", "TwoEndedLink.v1", "self:DirectedEdge")
REG.refines("DirectedEdge.v2", "TwoEndedLink.v2", "self:DirectedEdge")


@contract("TwoEndedLink.other", "self:TwoEndedLink, end:Vertex?", props=("C04", "C09", "C13"))
def _(c):
    e = c.S.ends(c.self)
    # v1 is read first; v2 only if `end` is not v1
    c.raises("IndexError", when=Or(Len(e) < 1, And(Len(e) < 2, c.end != Nth(e, 0))))
    ok = Not(Or(Len(e) < 1, And(Len(e) < 2, c.end != Nth(e, 0))))
    res = ite(c.end == Nth(e, 0), Nth(e, 1), ite(c.end == Nth(e, 1), Nth(e, 0), NONE))
    # NB: for a one-ended edge with end == v1, `self.v2` raises IndexError as well
    c.spec.outcomes.clear()
    c.raises("IndexError", when=Len(e) < 2)
    c.normal(when=Len(e) >= 2, result=VRef(res, "Vertex"))


# =============================================================================================== cache plumbing


@contract("Vertex._qa_stats", "self:Vertex", props=("C05", "C10"))
def _(c):
    o = c.normal(result=VOpaque("counters"))
    stats_monotone(o)


@contract("Vertex._qa_neighbors_invalidate", "self:Vertex", props=("C05", "C10"))
def _(c):
    v = c.self
    o = c.normal()
    cache_effects(o, lambda x: x == v)


@contract("Link._invalidate_ends", "self:Link", props=("C05",))
def _(c):
    S, l = c.S, c.self
    c.assume_inv(TY_links(S, c.ct))
    o = c.normal()
    cache_effects(o, lambda x: And(x != NONE, Mem(S.ends(l), x)))


@REG.loop("Link._invalidate_ends", 0)
def _(L):
    from pyvc.contracts import LoopInv, Loose
    S = L.st
    pre = L.prefix

    def c_has(new, old, *_):
        return [Schema("memo-shrinks-prefix-cleared", MEMO_KEY,
                       lambda v, d, u, f: Implies(new(v, d, u, f), And(old(v, d, u, f), Not(And(v != NONE, Mem(pre, v))))),
                       trigger=("memo_has",))]

    def c_stats(new, old, *_):
        return [Schema("stats-monotone", (Int,), lambda u: Implies(old(u), new(u)), trigger=("stats_has",))]
    return LoopInv(state=S, loose=[Loose("memo_has", c_has), Loose("stats_has", c_stats)])


# =============================================================================================== association mutators


def assoc_invs(c):
    c.assume_inv(TY_links(c.S, c.ct))
    c.assume_inv(I1_nodup(c.S, c.ct))


@contract("Link.add_vertex", "self:Link, new:Vertex?", group="assoc-add", props=("C01", "C03", "C05"))
def _(c):
    S, l, v = c.S, c.self, c.new
    assoc_invs(c)
    attach = And(v != NONE, Not(Mem(S.links(v), l)))
    c.measure(2 * b2i(attach) + 1)
    o = c.normal()
    ends1 = snoc(S.ends(l), v)
    o.set("_vertices", l, ends1)
    o.set("_links", v, snoc(S.links(v), l), when=attach)
    cache_effects(o, lambda x: And(x != NONE, Mem(ends1, x)))


@contract("Vertex.add_to_link", "self:Vertex, link:Link", group="assoc-add", props=("C01", "C03", "C05"))
def _(c):
    S, v, l = c.S, c.self, c.link
    assoc_invs(c)
    c0 = Not(Mem(S.links(v), l))
    c1 = And(c0, Not(Mem(S.ends(l), v)))
    c.measure(2 * b2i(c0))
    o = c.normal()
    o.set("_links", v, snoc(S.links(v), l), when=c0)
    ends1 = ite(c1, snoc(S.ends(l), v), S.ends(l))
    o.set("_vertices", l, ends1)
    cache_effects(o, lambda x: Or(x == v, And(c1, x != NONE, Mem(ends1, x))))


@contract("Link.unlink_from", "self:Link, kill:Vertex?", group="assoc-del", props=("C01", "C03", "C05"))
def _(c):
    S, l, k = c.S, c.self, c.kill
    assoc_invs(c)
    hit = Mem(S.ends(l), k)
    c.measure(Cnt(S.ends(l), k) + ite(k == NONE, z3.IntVal(0), Cnt(S.links(k), l)))
    o = c.normal()
    ends1 = ite(hit, Without(S.ends(l), k), S.ends(l))
    o.set("_vertices", l, ends1)
    o.set("_links", k, Rem1(S.links(k), l), when=And(hit, k != NONE))
    cache_effects(o, lambda x: And(hit, x != NONE, Or(x == k, Mem(ends1, x))))


@contract("Vertex.remove_from_link", "self:Vertex, link:Link", group="assoc-del", props=("C01", "C03", "C05"))
def _(c):
    S, v, l = c.S, c.self, c.link
    assoc_invs(c)
    hit = Mem(S.links(v), l)
    c.measure(Cnt(S.ends(l), v) + Cnt(S.links(v), l))
    o = c.normal()
    o.set("_links", v, Rem1(S.links(v), l), when=hit)
    ends1 = ite(hit, Without(S.ends(l), v), S.ends(l))
    o.set("_vertices", l, ends1)
    cache_effects(o, lambda x: Or(x == v, And(hit, Mem(S.ends(l), v), x != NONE, Mem(ends1, x))))


# =============================================================================================== end assignment (C01, C03, C05)


def set_end_spec(c, l, idx_is, new):
    """reference model `set_end(l, i, new)` of DESIGN.md A.1.  idx_is(k) -> Bool 'the index is k'"""
    S = c.S
    assoc_invs(c)
    e = S.ends(l)
    c.raises("IndexError", when=Len(e) < 2, label="lost-an-end")     # before anything is changed
    old = ite(idx_is(0), Nth(e, 0), Nth(e, 1))
    ends1 = ite(idx_is(0), SetNth(e, 0, new), SetNth(e, 1, new))
    detach = And(old != NONE, Not(Mem(ends1, old)))
    attach = And(new != NONE, Not(Mem(S.links(new), l)))
    o = c.normal(when=Len(e) >= 2)
    o.set("_vertices", l, ends1)
    o.set("_links", old, Rem1(S.links(old), l), when=detach)
    o.set("_links", new, snoc(S.links(new), l), when=attach)
    cache_effects(o, lambda x: And(x != NONE, Or(Mem(ends1, x), x == old)))
    return o


@contract("TwoEndedLink._set_end", "self:TwoEndedLink, idx:int, new:Vertex?", props=("C01", "C03", "C05"))
def _(c):
    c.requires(Or(c.idx == 0, c.idx == 1), "idx-is-0-or-1")
    set_end_spec(c, c.self, lambda k: c.idx == k, c.new)


@contract("TwoEndedLink._set_v1", "self:TwoEndedLink, new:Vertex?", props=("C01", "C03", "C05"))
def _(c):
    set_end_spec(c, c.self, lambda k: BoolVal(k == 0), c.new)


@contract("TwoEndedLink._set_v2", "self:TwoEndedLink, new:Vertex?", props=("C01", "C03", "C05"))
def _(c):
    set_end_spec(c, c.self, lambda k: BoolVal(k == 1), c.new)


@contract("TwoEndedLink.v1.setter", "self:TwoEndedLink, new:Vertex?", props=("C01", "C03", "C05"))
def _(c):
    set_end_spec(c, c.self, lambda k: BoolVal(k == 0), c.new)


@contract("TwoEndedLink.v2.setter", "self:TwoEndedLink, new:Vertex?", props=("C01", "C03", "C05"))
def _(c):
    set_end_spec(c, c.self, lambda k: BoolVal(k == 1), c.new)


REG.refines("DirectedEdge.v1.setter", "TwoEndedLink.v1.setter", "self:DirectedEdge, new:Vertex?")
REG.refines("DirectedEdge.v2.setter", "TwoEndedLink.v2.setter", "self:DirectedEdge, new:Vertex?")


# =============================================================================================== constructors


def base_init_effects(c, o, obj, uid, attrs, unis_seq, uid_loose=True):
    """BaseObject.__init__: uid (given, or an arbitrary positive integer), attributes, de-duplicated universes"""
    S = c.S

    def c_uid(new, old, *_):
        # the given uid, or (uid None/0) an arbitrary positive integer (uuid4); nobody else's uid changes
        return [Schema("uid-given-or-generated", (Ref,),
                       lambda x: If(x == obj, If(uid != 0, new(x) == uid, new(x) > 0), new(x) == old(x)), trigger=("_uid",))]
    if uid_loose:
        o.loose("_uid", c_uid)
    set_attrs_effect(o, S, obj, attrs)
    o.set("_universes", obj, T.Dedup(unis_seq))


@contract("BaseObject.__init__", "self:BaseObject, *, uid:int=None, attributes:attrs=None, universes:iter?:Universe=None",
          props=("C02", "C12"))
def _(c):
    a = c.attributes
    bad = And(a != NONE, Not(ad_isdict(a)))
    c.raises("TypeError", when=bad, label="attributes-not-a-dict")
    u = c.val("universes")
    o = c.normal(when=Not(bad))
    base_init_effects(c, o, c.self, c.uid, a, ite(u.is_none, T.EMPTY(), u.seq))


@REG.loop("BaseObject.__init__", 0)
def _(L):
    from pyvc.contracts import LoopInv
    a = L.items_of
    obj = L.args["self"].term
    st = L.st.copy()
    k = L.k
    st.write_where("dyn_has", lambda ad: (And(ad[0] == obj, ad_has_n(a, k, ad[1])), BoolVal(True)))
    st.write_where("dyn_val", lambda ad: (And(ad[0] == obj, ad_has_n(a, k, ad[1])), ad_val_n(a, k, ad[1])))
    return LoopInv(state=st, defs=[ad_unfold(a, k)])


def elems_typed(seq, ct, cname, nullable=False):
    def f(x):
        ok = ct.is_a(x, cname)
        return Implies(Mem(seq, x), Or(x == NONE, ok) if nullable else And(x != NONE, ok))
    return Schema(f"elements-are-{cname}", (Ref,), f)


def link_init_effects(c, o, l, seq):
    """Link.__init__ after the base part: ends(l) = seq, every vertex of seq lists l once more"""
    S = c.S
    o.set("_vertices", l, seq)
    o.set_where("_links", lambda ad: (And(ad[0] != NONE, Mem(seq, ad[0])), snoc(S.links(ad[0]), l)))
    cache_effects(o, lambda x: And(x != NONE, Mem(seq, x)))


@contract("Link.__init__", "self:Link, *, vertices:iter?:Vertex?=None, uid:int=None, attributes:attrs=None, _force_creation:bool=False",
          props=("C01", "C03", "C05", "C12"))
def _(c):
    a = c.attributes
    vs = c.val("vertices")
    seq = ite(vs.is_none, T.EMPTY(), vs.seq)
    c.assume_inv(elems_typed(seq, c.ct, "Vertex", nullable=True))
    assoc_invs(c)
    bad = Or(And(a != NONE, Not(ad_isdict(a))), And(T.cls_of(c.self) == c.ct.c("Link"), Not(c._force_creation)))
    c.raises("TypeError", when=bad)
    o = c.normal(when=Not(bad))
    base_init_effects(c, o, c.self, c.uid, a, T.EMPTY())
    link_init_effects(c, o, c.self, seq)


@REG.loop("Link.__init__", 0)
def _(L):
    from pyvc.contracts import LoopInv, Loose
    l = L.args["self"].term
    E = L.st                       # heap at loop entry
    pre = L.prefix
    st = E.copy()
    st.write("_vertices", l, pre)
    st.write_where("_links", lambda ad: (And(ad[0] != NONE, Mem(pre, ad[0])), snoc(E.links(ad[0]), l)))

    def c_has(new, old, *_):
        return [Schema("memo-shrinks-prefix-cleared", MEMO_KEY,
                       lambda v, d, u, f: Implies(new(v, d, u, f), And(old(v, d, u, f), Not(And(v != NONE, Mem(pre, v))))),
                       trigger=("memo_has",))]

    def c_stats(new, old, *_):
        return [Schema("stats-monotone", (Int,), lambda u: Implies(old(u), new(u)), trigger=("stats_has",))]
    return LoopInv(state=st, loose=[Loose("memo_has", c_has), Loose("stats_has", c_stats)])


def two_ended_init(c):
    a = c.attributes
    v1, v2 = c.v1, c.v2
    assoc_invs(c)
    ill = Or(And(v1 != NONE, Not(c.ct.is_a(v1, "Vertex"))), And(v2 != NONE, Not(c.ct.is_a(v2, "Vertex"))))
    bad = Or(ill, And(a != NONE, Not(ad_isdict(a))))
    c.raises("TypeError", when=bad)
    o = c.normal(when=Not(bad))
    base_init_effects(c, o, c.self, c.uid, a, T.EMPTY())
    # reference model T(a, b): ends = [a, b]; links(a) ++= [l] if a != None; links(b) ++= [l] if b != None and b != a
    link_init_effects(c, o, c.self, T.seq_of(v1, v2))


@contract("TwoEndedLink.__init__", "self:TwoEndedLink, v1:any=None, v2:any=None, *, uid:int=None, attributes:attrs=None",
          props=("C01", "C03", "C05"))
def _(c):
    two_ended_init(c)


REG.refines("DirectedEdge.__init__", "TwoEndedLink.__init__",
            "self:DirectedEdge, v1:any=None, v2:any=None, *, uid:int=None, attributes:attrs=None")
REG.refines("UnDirectedEdge.__init__", "TwoEndedLink.__init__",
            "self:UnDirectedEdge, v1:any=None, v2:any=None, *, uid:int=None, attributes:attrs=None")


# =============================================================================================== universe membership (C02, C03)


def uni_invs(c):
    c.assume_inv(TY_unis(c.S, c.ct))
    c.assume_inv(I2_nodup(c.S, c.ct))


@contract("BaseObject.universes", "self:BaseObject", pure_getter=True, props=("C12", "C13"))
def _(c):
    o = c.normal()
    r = o.fresh("<container>", "universes")
    o.set("elems", r, c.S.unis(c.self))
    o.result(VList(r, "Universe"))


@contract("Universe.vertices", "self:Universe", pure_getter=True, props=("C12", "C13"))
def _(c):
    o = c.normal()
    r = o.fresh("<container>", "vertices")
    o.set("elems", r, c.S.members(c.self))
    o.result(VList(r, "Vertex"))


@contract("BaseObject.add_to_universe", "self:BaseObject, universe:Universe", props=("C02",))
def _(c):
    S, b, u = c.S, c.self, c.universe
    o = c.normal()
    o.set("_universes", b, snoc(S.unis(b), u), when=Not(Mem(S.unis(b), u)))


@contract("BaseObject.remove_from_universe", "self:BaseObject, universe:Universe", props=("C02",))
def _(c):
    S, b, u = c.S, c.self, c.universe
    c.raises("ValueError", when=Not(Mem(S.unis(b), u)), label="not-a-member")      # nothing changes
    o = c.normal(when=Mem(S.unis(b), u))
    o.set("_universes", b, Rem1(S.unis(b), u))


def sym_add(c, v, u):
    """reference model add(u, o): identical from either side"""
    S = c.S
    o = c.normal()
    o.set("_universes", v, snoc(S.unis(v), u), when=Not(Mem(S.unis(v), u)))
    o.set("_vertices", u, snoc(S.members(u), v), when=Not(Mem(S.members(u), v)))
    return o


@contract("Vertex.add_to_universe", "self:Vertex, universe:Universe", group="uni-add", props=("C02", "C03"))
def _(c):
    uni_invs(c)
    c.measure(2 * b2i(Not(Mem(c.S.members(c.universe), c.self))) + 1)
    sym_add(c, c.self, c.universe)


@contract("Universe.add_vertex", "self:Universe, vert:Vertex", group="uni-add", props=("C02", "C03"))
def _(c):
    uni_invs(c)
    c.measure(2 * b2i(Not(Mem(c.S.members(c.self), c.vert))))
    S, u, v = c.S, c.self, c.vert
    # the universe side never runs ahead of the vertex side (implied by I2; also true at the internal call from
    # Vertex.add_to_universe, where vert is not yet a member)
    c.requires(Implies(Mem(S.members(u), v), Mem(S.unis(v), u)), "member-implies-listed")
    sym_add(c, v, u)


@contract("Universe.remove_vertex", "self:Universe, vert:Vertex", group="uni-del", props=("C02", "C03"))
def _(c):
    uni_invs(c)
    S, u, v = c.S, c.self, c.vert
    c.measure(Cnt(S.members(u), v) + Cnt(S.unis(v), u))
    c.raises("ValueError", when=Not(Mem(S.members(u), v)), label="not-a-member")   # nothing changes
    o = c.normal(when=Mem(S.members(u), v))
    o.set("_vertices", u, Rem1(S.members(u), v))
    o.set("_universes", v, Rem1(S.unis(v), u), when=Mem(S.unis(v), u))


@contract("Vertex.remove_from_universe", "self:Vertex, universe:Universe", group="uni-del", props=("C02", "C03"))
def _(c):
    uni_invs(c)
    S, v, u = c.S, c.self, c.universe
    c.measure(Cnt(S.members(u), v) + Cnt(S.unis(v), u))
    c.raises("ValueError", when=Not(Mem(S.unis(v), u)), label="not-a-member")      # nothing changes
    o = c.normal(when=Mem(S.unis(v), u))
    o.set("_universes", v, Rem1(S.unis(v), u))
    o.set("_vertices", u, Rem1(S.members(u), v), when=Mem(S.members(u), v))


# =============================================================================================== Vertex.__init__ (C01, C02, C05)

MEMO_KEY_L = MEMO_KEY + (Ref,)


def memo_shrinks_unless(clear5):
    """loose memo constraint with one extra universally quantified reference: new(v,k) -> old(v,k) and not clear5(v, l)"""
    def c_has(new, old, *_):
        return [Schema("memo-only-shrinks-and-cleared", MEMO_KEY_L,
                       lambda v, d, u, f, l: Implies(new(v, d, u, f), And(old(v, d, u, f), Not(clear5(v, l)))),
                       trigger=("memo_has",))]
    return c_has


def c_stats_with(uidterm):
    def c_stats(new, old, *_):
        return [Schema("stats-monotone", (Int,), lambda u: Implies(Or(old(u), u == uidterm), new(u)), trigger=("stats_has",))]
    return c_stats


@contract("Vertex.__init__",
          "self:Vertex, *, links:iter?:Link=None, uid:int=None, attributes:attrs=None, universes:iter?:Universe=None",
          props=("C01", "C02", "C05", "C12"))
def _(c):
    S, v, a = c.S, c.self, c.attributes
    ls, us = c.val("links"), c.val("universes")
    Lseq = ite(ls.is_none, T.EMPTY(), ls.seq)
    Useq = ite(us.is_none, T.EMPTY(), us.seq)
    c.assume_inv(elems_typed(Lseq, c.ct, "Link"))
    c.assume_inv(elems_typed(Useq, c.ct, "Universe"))
    assoc_invs(c)
    uni_invs(c)
    bad = And(a != NONE, Not(ad_isdict(a)))
    c.raises("TypeError", when=bad)
    o = c.normal(when=Not(bad))
    base_init_effects(c, o, v, c.uid, a, Useq)
    o.set("_links", v, T.Dedup(Lseq))
    o.set_where("_vertices", lambda ad: (
        Or(And(c.ct.is_a(ad[0], "Link"), Mem(Lseq, ad[0])), And(c.ct.is_a(ad[0], "Universe"), Mem(Useq, ad[0]))),
        snoc(S.read("_vertices", ad[0]), v)))
    from pyvc.contracts import Loose
    o.loose("memo_has", memo_shrinks_unless(
        lambda x, l: Or(x == v, And(x != NONE, Mem(Lseq, l), Mem(snoc(S.ends(l), v), x)))))
    o.loose("stats_has", lambda new, old, *_: [Schema("stats-monotone", (Int,), lambda u: Implies(old(u), new(u)), trigger=("stats_has",))])


@REG.loop("Vertex.__init__", 0)
def _(L):
    from pyvc.contracts import LoopInv, Loose
    v = L.args["self"].term
    E, pre = L.st, L.prefix
    st = E.copy()
    st.write("_links", v, T.Dedup(pre))
    ct = L.engine.ct
    st.write_where("_vertices", lambda ad: (And(ct.is_a(ad[0], "Link"), Mem(pre, ad[0])), snoc(E.read("_vertices", ad[0]), v)))
    return LoopInv(state=st, loose=[
        Loose("memo_has", memo_shrinks_unless(lambda x, l: And(x != NONE, Mem(pre, l), Mem(snoc(E.ends(l), v), x)))),
        Loose("stats_has", lambda new, old, *_: [Schema("stats-monotone", (Int,), lambda u: Implies(old(u), new(u)), trigger=("stats_has",))])])


@REG.loop("Vertex.__init__", 1)
def _(L):
    from pyvc.contracts import LoopInv
    v = L.args["self"].term
    E, pre = L.st, L.prefix
    st = E.copy()
    ct = L.engine.ct
    st.write_where("_vertices", lambda ad: (And(ct.is_a(ad[0], "Universe"), Mem(pre, ad[0])), snoc(E.read("_vertices", ad[0]), v)))
    return LoopInv(state=st)


# =============================================================================================== universe <-> laws binding (C19)


def laws_typing(c):
    c.assume_inv(TY_laws(c.S, c.ct))


for _name, _field in (("mixed_links", "_mixed_links"), ("cycles", "_cycles"), ("multipath", "_multipath"),
                      ("multiverse", "_multiverse")):
    def _mk(_field=_field):
        def fn(c):
            # reads back exactly what was stored at construction (there is no setter: checked syntactically)
            c.normal(result=VRef(c.S.read(_field, c.self), None, "opaque"))
        return fn
    REG.contract(f"UniverseLaws.{_name}", "self:UniverseLaws", pure_getter=True, props=("C19", "C13"))(_mk())


@contract("UniverseLaws.applies_to", "self:UniverseLaws", pure_getter=True, props=("C19", "C13"))
def _(c):
    c.normal(result=VRef(c.S.applies(c.self), "Universe"))


@contract("Universe.laws", "self:Universe", pure_getter=True, props=("C19", "C13"))
def _(c):
    c.normal(result=VRef(c.S.laws(c.self), "UniverseLaws"))


def M_laws(c, o, u, X):
    """reference model of `u.laws = X` (total: the bracketed guards of DESIGN.md C19 make it defined in any state)"""
    S = c.S
    Lold = S.laws(u)
    change = X != Lold
    uold = S.applies(X)
    o.set("_laws", u, X, when=change)
    o.set("_applies_to", Lold, NONE, when=And(change, Lold != NONE, S.applies(Lold) == u))
    o.set("_applies_to", X, u, when=And(change, X != NONE))
    o.set("_laws", uold, NONE, when=And(change, X != NONE, uold != NONE, uold != u, S.laws(uold) == X))


def M_applies(c, o, L, w):
    """reference model of `L.applies_to = w`"""
    S = c.S
    uold = S.applies(L)
    change = w != uold
    Lprev = S.laws(w)
    o.set("_applies_to", L, w, when=change)
    o.set("_laws", uold, NONE, when=And(change, uold != NONE, S.laws(uold) == L))
    o.set("_laws", w, L, when=And(change, w != NONE))
    o.set("_applies_to", Lprev, NONE, when=And(change, w != NONE, Lprev != NONE, Lprev != L, S.applies(Lprev) == w))


@contract("Universe.laws.setter", "self:Universe, new:UniverseLaws?", props=("C19",))
def _(c):
    laws_typing(c)
    o = c.normal()          # every assignment succeeds
    M_laws(c, o, c.self, c.new)


@contract("UniverseLaws.applies_to.setter", "self:UniverseLaws, new:Universe?", props=("C19",))
def _(c):
    laws_typing(c)
    o = c.normal()
    M_applies(c, o, c.self, c.new)


def wl_snapshot_result(o, S, X, name="snapshot"):
    """a new immutable mapping (MappingProxyType at both levels) with the content of X: it consists of no mutable dict object"""
    r = o.fresh("<container>", name)
    o.set("wl_val", r, S.read("wl_val", X))
    o.set_where("wl_part", lambda ad: (ad[0] == r, BoolVal(False)))
    return r


@contract("UniverseLaws.edge_whitelist", "self:UniverseLaws", pure_getter=True, props=("C12", "C19", "C13"))
def _(c):
    """None, or an immutable snapshot (read-only proxies at both levels) of the stored whitelist: same content, no mutable part -
    nothing a caller does with it can reach the rules.  AttributeError / ValueError when the stored value is not a mapping of mappings"""
    S, X = c.S, c.S.read("_edge_whitelist", c.self)
    ok = T.wl_ok(S.read("wl_val", X))
    c.normal(when=X == NONE, result=NONE_V, label="no-whitelist")
    c.raises(("AttributeError", "ValueError"), when=And(X != NONE, Not(ok)), label="malformed")
    o = c.normal(when=And(X != NONE, ok), label="snapshot")
    r = wl_snapshot_result(o, S, X)
    o.result(VRef(r, None, "opaque"))


@contract("UniverseLaws.__init__",
          "self:UniverseLaws, edge_whitelist:any=None, mixed_links:any=False, cycles:any=True, multipath:any=True, multiverse:any=False, applies_to:Universe?=None",
          props=("C19", "C12"))
def _(c):
    """the rule fields hold the constructor arguments; the whitelist is stored as a DEEP COPY: a new mapping with the content the
    argument had at construction, consisting only of dict objects that did not exist before (so no later change to the caller's
    dictionary, outer or inner, can reach the rules); ValueError (nothing observable changed) when the argument is malformed"""
    S, W = c.S, c.edge_whitelist
    ok = T.wl_ok(S.read("wl_val", W))
    c.raises("ValueError", when=And(W != NONE, Not(ok)), label="malformed-whitelist")

    def common(o):
        base_init_effects(c, o, c.self, z3.IntVal(0), NONE, T.EMPTY())
        for f_, a_ in (("_mixed_links", c.mixed_links), ("_cycles", c.cycles), ("_multipath", c.multipath),
                       ("_multiverse", c.multiverse), ("_applies_to", c.applies_to)):
            o.set(f_, c.self, a_)
    o = c.normal(when=W == NONE, label="no-whitelist")
    common(o)
    o.set("_edge_whitelist", c.self, NONE)
    o = c.normal(when=And(W != NONE, ok), label="whitelist-copied")
    common(o)
    tmp = wl_snapshot_result(o, S, W, "checked")          # the validated snapshot the constructor reads the content from (garbage)
    E = o.fresh("<container>", "whitelist_copy")
    o.set("_edge_whitelist", c.self, E)
    o.set("wl_val", E, S.read("wl_val", W))
    o.loose("wl_part", lambda new, old, *_: [
        Schema("deep-copy-shares-no-dict-with-the-argument", (Ref, Ref), lambda ob, x: If(
            ob == E, Implies(new(ob, x), And(Not(old(W, x)), x != W)),
            If(ob == tmp, Not(new(ob, x)), new(ob, x) == old(ob, x))), trigger=("wl_part",))])


@contract("Universe.__init__",
          "self:Universe, *, vertices:iter?:Vertex=None, laws:UniverseLaws?=None, uid:int=None, attributes:attrs=None",
          props=("C02", "C19", "C12"))
def _(c):
    S, u, a, L0 = c.S, c.self, c.attributes, c.laws
    vs = c.val("vertices")
    Vseq = ite(vs.is_none, T.EMPTY(), vs.seq)
    c.assume_inv(elems_typed(Vseq, c.ct, "Vertex"))
    assoc_invs(c)
    uni_invs(c)
    laws_typing(c)
    bad = And(a != NONE, Not(ad_isdict(a)))
    c.raises("TypeError", when=bad)
    for given in (False, True):
        o = c.normal(when=And(Not(bad), (L0 != NONE) if given else (L0 == NONE)), label="laws-given" if given else "laws-created")
        base_init_effects(c, o, u, c.uid, a, T.EMPTY(), uid_loose=False)
        o.set("_links", u, T.EMPTY())
        # laws: the given law set is moved here (detaching the universe it governed), or a new one is created
        if given:
            L = L0
            uold = S.applies(L0)
            o.set("_laws", uold, NONE, when=And(uold != NONE, S.laws(uold) == L0))
            Lnew = None
        else:
            L = Lnew = o.fresh("UniverseLaws", "laws")
            o.set("_universes", Lnew, T.EMPTY())
        o.set("_laws", u, L)
        o.set("_applies_to", L, u)

        def c_uid(new, old, *_, Lnew=Lnew):
            return [Schema("uid-given-or-generated", (Ref,),
                           lambda x: If(x == u, If(c.uid != 0, new(x) == c.uid, new(x) > 0),
                                        If(x == Lnew, new(x) > 0, new(x) == old(x)) if Lnew is not None else new(x) == old(x)),
                           trigger=("_uid",))]
        o.loose("_uid", c_uid)
        # members
        o.set("_vertices", u, T.Dedup(Vseq))
        o.set_where("_universes", lambda ad: (And(c.ct.is_a(ad[0], "Vertex"), Mem(Vseq, ad[0])), snoc(S.unis(ad[0]), u)))
        o.loose("memo_has", lambda new, old, *_: [Schema("memo-only-shrinks-and-cleared", MEMO_KEY,
                lambda v, d, uu, f: Implies(new(v, d, uu, f), And(old(v, d, uu, f), v != u)), trigger=("memo_has",))])
        stats_monotone(o)
        if Lnew is not None:
            for f_ in ("_mixed_links", "_cycles", "_multipath", "_multiverse", "_edge_whitelist"):
                o.loose(f_, lambda new, old, *_, f_=f_, Lnew=Lnew: [Schema("only-new-laws-written", (Ref,),
                        lambda x: Implies(x != Lnew, new(x) == old(x)), trigger=(f_,))])


@REG.loop("Universe.__init__", 0)
def _(L):
    from pyvc.contracts import LoopInv
    u = L.args["self"].term
    E, pre = L.st, L.prefix
    ct = L.engine.ct
    st = E.copy()
    st.write("_vertices", u, T.Dedup(pre))
    st.write_where("_universes", lambda ad: (And(ct.is_a(ad[0], "Vertex"), Mem(pre, ad[0])), snoc(E.unis(ad[0]), u)))
    return LoopInv(state=st)


@contract("BaseObject.__getitem__", "self:BaseObject, name:str", pure_getter=True, props=("C08", "C13"))
def _(c):
    eng = c.engine
    has = z3.Or(c.S.read("dyn_has", c.self, c.name), T.cls_has(T.cls_of(c.self), c.name))
    val = ite(c.S.read("dyn_has", c.self, c.name), c.S.read("dyn_val", c.self, c.name), T.cls_get(c.self, c.name))
    c.raises("AttributeError", when=Not(has))
    c.normal(when=has, result=VRef(val, None, "opaque"))
