"""Contracts of edgegraph.output (C13 frame conditions; C15 / C16 / C14 functional contracts where within reach)."""
from __future__ import annotations
import z3
from z3 import And, Or, Not, Implies, BoolVal, If
from pyvc import terms as T
from pyvc.terms import Ref, Int, RSeq, NONE, Cnt, Mem, Len, snoc, cat, ite, EMPTY, unit
from pyvc.contracts import REG, Schema, LoopInv, Loose
from pyvc.values import *
from .common import *

contract = REG.contract
MARK = z3.StringVal("__make_pyvis_net_i")


def no_marker(S):
    """I13: no object carries the temporary attribute of make_pyvis_net (A6: user attribute names do not start with '_')"""
    return Schema("I13-no-temporary-attribute", (Ref,), lambda x: Not(S.read("dyn_has", x, MARK)))


def attrs_frame(vset):
    """dynamic attributes: the set of attributes of every object and the values of the attributes present are unchanged,
    except that the objects in `vset(x)` may carry the temporary marker"""
    def c_has(new, old, *_):
        return [Schema("attribute-set-unchanged", (Ref, T.Str), lambda o, n: If(n == MARK, new(o, n) == And(vset(o), BoolVal(True)) if False else Implies(new(o, n), vset(o)),
                                                                                  new(o, n) == old(o, n)), trigger=("dyn_has",))]

    def c_val(new, old, *_):
        return [Schema("attribute-values-unchanged", (Ref, T.Str), lambda o, n: Implies(n != MARK, new(o, n) == old(o, n)), trigger=("dyn_val",))]
    return [Loose("dyn_has", c_has), Loose("dyn_val", c_val)]


@contract("pyvis.make_pyvis_net", "uni:Universe, rvfunc:cb:vrv=None, refunc:cb:vre=None, network_kwargs:any=None",
          props=("C13",))
def _(c):
    """C13 frame condition: however the call ends (normally, or because rvfunc / refunc / pyvis raised at any point), no
    vertex, link or universe is changed, and no vertex keeps the temporary index attribute."""
    S = c.S
    c.assume_inv(TY_unis(S, c.ct))
    c.assume_inv(TY_links(S, c.ct))
    c.assume_inv(no_marker(S))
    c.assume_inv(Schema("members-are-vertices", (Ref,), lambda x: Implies(Mem(S.members(c.uni), x), And(x != NONE, c.ct.is_a(x, "Vertex")))))
    o = c.outcome(exc="*", label="any-exit")
    o.result(VOpaque("pyvis network"))
    o.loose("dyn_has", lambda new, old, *_: [Schema("attribute-set-unchanged", (Ref, T.Str), lambda ob, n: new(ob, n) == old(ob, n), trigger=("dyn_has",))])
    o.loose("dyn_val", lambda new, old, P=None, *_: [Schema("attribute-values-unchanged", (Ref, T.Str), lambda ob, n: Implies(
        And(n != MARK, S.read("dyn_has", ob, n)), new(ob, n) == old(ob, n)), trigger=("dyn_val",))])


def _marker_inv(L, marked):
    """markers only on the vertices in `marked`, everything else about attributes as at function entry"""
    S0 = L.pre

    def c_has(new, old, *_):
        return [Schema("only-the-marker-is-added", (Ref, T.Str), lambda ob, n: If(
            n == MARK, Implies(new(ob, n), marked(ob)), new(ob, n) == S0.read("dyn_has", ob, n)), trigger=("dyn_has",))]

    def c_val(new, old, *_):
        return [Schema("attribute-values-unchanged", (Ref, T.Str), lambda ob, n: Implies(
            n != MARK, new(ob, n) == S0.read("dyn_val", ob, n)), trigger=("dyn_val",))]
    ct = L.engine.ct
    verts = L.st.elems(L.env["verts"].ref)
    return LoopInv(loose=[Loose("dyn_has", c_has), Loose("dyn_val", c_val)],
                   schemas=[Schema("listed-members-are-vertices", (Ref,), lambda x: Implies(Mem(verts, x), And(x != NONE, ct.is_a(x, "Vertex"))))])


@REG.loop("pyvis.make_pyvis_net", 0)
def _(L):
    verts = L.seq
    return _marker_inv(L, lambda ob: Mem(verts, ob))


@REG.loop("pyvis.make_pyvis_net", 1)
def _(L):
    verts = L.seq
    return _marker_inv(L, lambda ob: Mem(verts, ob))


@REG.loop("pyvis.make_pyvis_net", 2)
def _(L):
    verts = L.st.elems(L.env["verts"].ref)
    return _marker_inv(L, lambda ob: Mem(verts, ob))


@REG.loop("pyvis.make_pyvis_net", 3)
def _(L):
    # the finally block: whatever happened before, the marker is gone from the vertices already visited
    verts, pre = L.seq, L.prefix
    return _marker_inv(L, lambda ob: And(Mem(verts, ob), Not(Mem(pre, ob))))


# =============================================================================================== plaintext.basic_render (C16)
from .helpers import NB, NB_bad, heap_key, I5       # noqa: E402
from .traversal import cache_only_effects, loop_cache_loose   # noqa: E402

ARROW = z3.StringVal(" -> ")
COMMA = z3.StringVal(", ")
NL = z3.StringVal("\n")


class RenderEnv:
    def __init__(self, S, ct, args):
        self.S, self.ct = S, ct
        self.uni = args["uni"].term
        self.rf = args["rfunc"].term
        self.sk = args["sort"].term
        hk = heap_key(S)
        self.J_ = z3.Function(f"render_join@{hk}", Ref, RSeq, T.Str)          # rfunc, q -> ", ".join(r(w) for w in q)
        self.TJ_ = z3.Function(f"render_trailing@{hk}", Ref, RSeq, T.Str)     # rfunc, q -> "".join(r(w) + ", " for w in q)
        self.LINES_ = z3.Function(f"render_lines@{hk}", Ref, Ref, RSeq, T.SSeq)   # rfunc, sort, p -> [line(v) for v in p]

    def r(self, x):
        """rendering of one vertex: rfunc(x) (its str()), or repr(x)"""
        return If(self.rf != NONE, T.cbs1(self.rf, x), T.py_repr(x))

    def nbs(self, v):
        nb = NB(self.S, v, z3.IntVal(0), z3.IntVal(2), NONE)       # FORWARD neighbours in neighbors() order
        return If(self.sk != NONE, T.sortedby(self.sk, nb), nb)

    def order(self):
        m = self.S.members(self.uni)
        return If(self.sk != NONE, T.sortedby(self.sk, m), m)

    def J(self, q):
        return self.J_(self.rf, q)

    def TJ(self, q):
        return self.TJ_(self.rf, q)

    def LINES(self, p):
        return self.LINES_(self.rf, self.sk, p)

    def line(self, v):
        return z3.Concat(self.r(v), ARROW, self.J(self.nbs(v)))

    def join_defs(self, q):
        """J / TJ by snoc recursion, and their relation: TJ(q) = J(q) ++ ", " for non-empty q"""
        out = [self.J(EMPTY()) == z3.StringVal(""), self.TJ(EMPTY()) == z3.StringVal("")]
        parts = T._flat(q)
        if parts and T._is_unit(parts[-1]) and not T._is_empty(q):
            w = parts[-1].arg(0)
            head = cat(*parts[:-1])
            out.append(self.J(q) == If(Len(head) == 0, self.r(w), z3.Concat(self.J(head), COMMA, self.r(w))))
            out.append(self.TJ(q) == z3.Concat(self.TJ(head), self.r(w), COMMA))
        return out

    def lines_defs(self, p):
        out = [self.LINES(EMPTY()) == z3.Empty(T.SSeq)]
        parts = T._flat(p)
        if parts and T._is_unit(parts[-1]) and not T._is_empty(p):
            v = parts[-1].arg(0)
            head = cat(*parts[:-1])
            out.append(self.LINES(p) == z3.Concat(self.LINES(head), z3.Unit(self.line(v))))
        return out


@contract("plaintext.basic_render", "uni:Universe, rfunc:cb:srf=None, sort:cb:ksort=None", props=("C16",), shards=2)
def _(c):
    S, ct = c.S, c.ct
    E = RenderEnv(S, ct, c.args)
    c.assume_inv(TY_unis(S, ct))
    c.assume_inv(TY_links(S, ct))
    c.assume_inv(I5(S))
    c.assume_inv(Schema("members-are-vertices", (Ref,), lambda x: Implies(Mem(E.order(), x), And(x != NONE, ct.is_a(x, "Vertex")))))
    c.assume_inv(Schema("every-link-is-two-ended", (Ref, Ref), lambda x, l: Implies(
        And(ct.is_a(x, "Vertex"), Mem(S.links(x), l)),
        And(l != NONE, ct.is_a(l, "TwoEndedLink"), Len(S.ends(l)) == 2, Or(x == S.v1(l), x == S.v2(l)))), pair_from=("_links@",)))
    c.assume_inv(Schema("no-abnormal-scan", (Ref,), lambda x: Implies(ct.is_a(x, "Vertex"), Not(NB_bad(S, x, z3.IntVal(0), z3.IntVal(2), NONE)))))
    c.assume_inv(Schema("rfunc-does-not-raise", (Ref,), lambda x: Not(T.cb1_raises(E.rf, x))))
    c.assume_inv(Schema("neighbours-are-renderable", (Ref, Ref), lambda x, w: Implies(
        And(ct.is_a(x, "Vertex"), Mem(E.nbs(x), w)), w != NONE), pair_from=("NBf@", "sortedby")))
    empty = Len(S.members(E.uni)) == 0
    c.normal(when=empty, result=NONE_V, label="empty-universe")
    o = c.normal(when=Not(empty), label="rendered")
    # one line per member in universe (or sort-key) order; each line: rendering, " -> ", renderings of the FORWARD
    # neighbours joined by ", " (a vertex without neighbours keeps "rendering -> ")
    o.result(VStr(T.SJoin(NL, E.LINES(E.order()))))
    cache_only_effects(o, S)


@REG.loop("plaintext.basic_render", 0)
def _(L):
    E = RenderEnv(L.st, L.engine.ct, L.args)
    lines = L.env["lines"].ref

    def c_selems(new, old, *_):
        return [Schema("lines-so-far", (Ref,), lambda r: If(r == lines, new(r) == E.LINES(L.prefix), new(r) == old(r)), trigger=("selems",))]
    return LoopInv(ground_defs=E.lines_defs(L.prefix), loose=loop_cache_loose(None) + [Loose("selems", c_selems)])


@REG.loop("plaintext.basic_render", 1)
def _(L):
    E = RenderEnv(L.st, L.engine.ct, L.args)
    v = L.env["vert"].term
    q = L.prefix
    line = z3.Concat(E.r(v), ARROW, E.TJ(q))
    return LoopInv(ground_defs=E.join_defs(q), define={"line": VStr(line)},
                   facts=[Implies(Len(q) > 0, E.TJ(q) == z3.Concat(E.J(q), COMMA))])
