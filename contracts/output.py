"""Contracts of edgegraph.output (C13 frame conditions; C15 / C16 / C14 functional contracts where within reach)."""
from __future__ import annotations
import z3
from z3 import And, Or, Not, Implies, BoolVal, If
from pyvc import terms as T
from pyvc.terms import Ref, Int, RSeq, NONE, Cnt, Mem, Len, snoc, cat, ite, EMPTY, unit, Nth
from pyvc.contracts import REG, Schema, LoopInv, Loose
from pyvc.values import *
from .common import *

contract = REG.contract
MARK = z3.StringVal("__make_pyvis_net_i")
NET_FIELDS = ("net_nodes", "net_labels", "net_from", "net_to", "net_arrow", "net_directed")


def net_unconstrained():
    """the fields of the pyvis network object: not part of the edgegraph state, unconstrained in the frame contract"""
    return [Loose(f_, lambda new, old, *_: []) for f_ in NET_FIELDS]


def no_marker(S):
    """I13: no object carries the temporary attribute of make_pyvis_net (A6: user attribute names do not start with '_')"""
    return Schema("I13-no-temporary-attribute", (Ref,), lambda x: Not(S.read("dyn_has", x, MARK)))


def attrs_frame(vset):
    """dynamic attributes: the set of attributes of every object and the values of the attributes present are unchanged,
    except that the objects in `vset(x)` may carry the temporary marker"""
    def c_has(new, old, *_):
        return [Schema("attribute-set-unchanged", (Ref, T.Str), lambda o, n: If(n == MARK, new(o, n) == And(vset(o), BoolVal(True)) if False else Implies(new(o, n), vset(o)),
                                                                                  new(o, n) == old(o, n)), trigger=("dyn_has",))]

    def c_val(new, old, *_):
        return [Schema("attribute-values-unchanged", (Ref, T.Str), lambda o, n: Implies(n != MARK, new(o, n) == old(o, n)), trigger=("dyn_val",))]
    return [Loose("dyn_has", c_has), Loose("dyn_val", c_val)]


@contract("pyvis.make_pyvis_net", "uni:Universe, rvfunc:cb:vrv=None, refunc:cb:vre=None, network_kwargs:any=None",
          props=("C13",))
def _(c):
    """C13 frame condition: however the call ends (normally, or because rvfunc / refunc / pyvis raised at any point), no
    vertex, link or universe is changed, and no vertex keeps the temporary index attribute."""
    S = c.S
    c.assume_inv(TY_unis(S, c.ct))
    c.assume_inv(TY_links(S, c.ct))
    c.assume_inv(no_marker(S))
    c.assume_inv(Schema("members-are-vertices", (Ref,), lambda x: Implies(Mem(S.members(c.uni), x), And(x != NONE, c.ct.is_a(x, "Vertex")))))
    o = c.outcome(exc="*", label="any-exit")
    o.result(VOpaque("pyvis network"))
    o.loose("dyn_has", lambda new, old, *_: [Schema("attribute-set-unchanged", (Ref, T.Str), lambda ob, n: new(ob, n) == old(ob, n), trigger=("dyn_has",))])
    o.loose("dyn_val", lambda new, old, P=None, *_: [Schema("attribute-values-unchanged", (Ref, T.Str), lambda ob, n: Implies(
        And(n != MARK, S.read("dyn_has", ob, n)), new(ob, n) == old(ob, n)), trigger=("dyn_val",))])
    o.o.loose += net_unconstrained()


def _marker_inv(L, marked):
    """markers only on the vertices in `marked`, everything else about attributes as at function entry"""
    S0 = L.pre

    def c_has(new, old, *_):
        return [Schema("only-the-marker-is-added", (Ref, T.Str), lambda ob, n: If(
            n == MARK, Implies(new(ob, n), marked(ob)), new(ob, n) == S0.read("dyn_has", ob, n)), trigger=("dyn_has",))]

    def c_val(new, old, *_):
        return [Schema("attribute-values-unchanged", (Ref, T.Str), lambda ob, n: Implies(
            n != MARK, new(ob, n) == S0.read("dyn_val", ob, n)), trigger=("dyn_val",))]
    ct = L.engine.ct
    verts = L.st.elems(L.env["verts"].ref)
    return LoopInv(loose=[Loose("dyn_has", c_has), Loose("dyn_val", c_val)] + net_unconstrained(),
                   schemas=[Schema("listed-members-are-vertices", (Ref,), lambda x: Implies(Mem(verts, x), And(x != NONE, ct.is_a(x, "Vertex"))))])


@REG.loop("pyvis.make_pyvis_net", 0)
def _(L):
    verts = L.seq
    return _marker_inv(L, lambda ob: Mem(verts, ob))


@REG.loop("pyvis.make_pyvis_net", 1)
def _(L):
    verts = L.seq
    return _marker_inv(L, lambda ob: Mem(verts, ob))


@REG.loop("pyvis.make_pyvis_net", 2)
def _(L):
    verts = L.st.elems(L.env["verts"].ref)
    return _marker_inv(L, lambda ob: Mem(verts, ob))


@REG.loop("pyvis.make_pyvis_net", 3)
def _(L):
    # the finally block: whatever happened before, the marker is gone from the vertices already visited
    verts, pre = L.seq, L.prefix
    return _marker_inv(L, lambda ob: And(Mem(verts, ob), Not(Mem(pre, ob))))


# =============================================================================================== make_pyvis_net, functional (C15)
from .helpers import heap_key as _hk       # noqa: E402
ISeq = T.ISeq
IUnit = lambda i: z3.Unit(i)


class PyvisEnv:
    """spec vocabulary of C15 for one call (universe u, label callback rv, heap S - links and ends do not change during the call):
         V          the members of u, in order; n = |V|
         pos(x)     the node id of member x (its position in V): ghost, fixed when the node is added
         IOTA(k)    [0, 1, ..., k-1];  LAB(p) the labels of the vertices p (rvfunc(x), or hex(id(x)))
         GL         ghost: the links an edge record was added for, in the order of the records
         MF / MT / MA   map over GL of pos(v1), pos(v2), 1 if DirectedEdge else 0  - the from / to / arrow columns"""

    def __init__(self, S, ct, uni, rv):
        self.S, self.ct, self.uni, self.rv = S, ct, uni, rv
        tag = f"{uni}@{_hk(S)}"
        self.V = S.members(uni)
        self.n = Len(self.V)
        self.pos = z3.Function(f"pv_pos@{tag}", Ref, Int)
        self.IOTA = z3.Function("pv_iota", Int, ISeq)
        self.LAB_ = z3.Function(f"pv_labels@{tag}", Ref, RSeq, RSeq)
        self.MF = z3.Function(f"pv_from@{tag}", RSeq, ISeq)
        self.MT = z3.Function(f"pv_to@{tag}", RSeq, ISeq)
        self.MA = z3.Function(f"pv_arrow@{tag}", RSeq, ISeq)

    def LAB(self, p):
        return self.LAB_(self.rv, p)

    def label(self, x):
        return If(self.rv != NONE, T.cbv1(self.rv, x), T.hexid(x))

    def isdir(self, l):
        return self.ct.is_a(l, "DirectedEdge")

    @staticmethod
    def _snoc(sq):
        parts = T._flat(sq)
        if parts and T._is_unit(parts[-1]) and not T._is_empty(sq):
            return cat(*parts[:-1]), parts[-1].arg(0)
        return None

    def node_defs(self, p):
        """IOTA / LAB by snoc recursion for the prefix at hand; k is not among 0..k-1"""
        k = Len(p)
        out = [self.IOTA(z3.IntVal(0)) == z3.Empty(ISeq), self.LAB(EMPTY()) == EMPTY(), Not(z3.Contains(self.IOTA(k), IUnit(k)))]
        sp = self._snoc(p)
        if sp:
            head, x = sp
            out += [self.IOTA(Len(head) + 1) == z3.Concat(self.IOTA(Len(head)), IUnit(Len(head))),
                    self.LAB(p) == snoc(self.LAB(head), self.label(x)),
                    Not(z3.Contains(self.IOTA(Len(head)), IUnit(Len(head))))]
        return out

    def iota_mem_defs(self, p):
        """membership in IOTA by snoc recursion, per reference term: i in IOTA(k+1)  <=>  i in IOTA(k) or i = k"""
        sp = self._snoc(p)
        if not sp:
            return []
        head, _x = sp
        k = Len(head)
        return [Schema("iota-membership-snoc", (Ref,), lambda y: z3.Contains(self.IOTA(k + 1), IUnit(self.pos(y))) == Or(
            z3.Contains(self.IOTA(k), IUnit(self.pos(y))), self.pos(y) == k))]

    def edge_defs(self, GL):
        out = [self.MF(EMPTY()) == z3.Empty(ISeq), self.MT(EMPTY()) == z3.Empty(ISeq), self.MA(EMPTY()) == z3.Empty(ISeq)]
        sp = self._snoc(GL)
        if sp:
            head, l = sp
            S = self.S
            out += [self.MF(GL) == z3.Concat(self.MF(head), IUnit(self.pos(S.v1(l)))),
                    self.MT(GL) == z3.Concat(self.MT(head), IUnit(self.pos(S.v2(l)))),
                    self.MA(GL) == z3.Concat(self.MA(head), IUnit(If(self.isdir(l), z3.IntVal(1), z3.IntVal(0))))]
        return out

    def joined_defs(self, GL):
        """`joined` (some record joins ids i and j, either orientation) by snoc recursion, for the pairs of the query"""
        sch = [Schema("joined-nil", (Ref, Ref), lambda x, l: Not(T.joined(z3.Empty(ISeq), z3.Empty(ISeq), self.pos(x), self.pos(self.S.v2(l)))),
                      pair_from=("_links@",))]
        sp = self._snoc(GL)
        if sp:
            head, e = sp
            S = self.S
            a, b = self.pos(S.v1(e)), self.pos(S.v2(e))

            def f(x, l):
                i, j = self.pos(x), self.pos(S.v2(l))
                return T.joined(self.MF(GL), self.MT(GL), i, j) == Or(T.joined(self.MF(head), self.MT(head), i, j),
                                                                        And(a == i, b == j), And(a == j, b == i))
            sch.append(Schema("joined-snoc", (Ref, Ref), f, pair_from=("_links@",)))
        return sch

    def pos_facts(self, p, total=None):
        """node ids of the vertices in p: in range, and the vertex at that position of V is the vertex itself"""
        k = Len(p) if total is None else total

        def f(x):
            return Implies(Mem(p, x), And(self.pos(x) >= 0, self.pos(x) < k, Nth(self.V, self.pos(x)) == x,
                                          T.int_unbox(T_int_box(self.pos(x))) == self.pos(x),
                                          z3.Contains(self.IOTA(k), IUnit(self.pos(x)))))
        return Schema("node-ids-are-positions", (Ref,), f)

    def record_facts(self, GL, done):
        """clause (b): every record stands for one link, both of whose ends are members, listed at its first end; no link has two
        records; `done(l)`: where the scan must have been for l to have a record"""
        S = self.S

        def f(l):
            return Implies(Mem(GL, l), And(Cnt(GL, l) == 1, Mem(self.V, S.v1(l)), Mem(self.V, S.v2(l)), Mem(S.links(S.v1(l)), l), done(l)))
        from .builders import members_of
        return members_of("every-edge-record-stands-for-one-link-between-members", GL, f)

    def complete(self, GL, scanned):
        """clause (c): every scanned link from a member x to a member has a record, or (not a DirectedEdge) its pair of nodes is
        already joined by a record"""
        S = self.S

        def f(x, l):
            return Implies(And(scanned(x, l), Mem(S.links(x), l), S.v1(l) == x, Mem(self.V, S.v2(l))),
                           Or(Mem(GL, l), And(Not(self.isdir(l)), T.joined(self.MF(GL), self.MT(GL), self.pos(x), self.pos(S.v2(l))))))
        return Schema("every-internal-link-is-drawn", (Ref, Ref), f, pair_from=("_links@",))


from pyvc.ops import int_box as T_int_box      # noqa: E402


def pyvis_functional_pre(c, S, ct, uni, rv, re_):
    c.assume_inv(TY_unis(S, ct))
    c.assume_inv(TY_links(S, ct))
    c.assume_inv(I1_nodup(S, ct))
    c.assume_inv(no_marker(S))
    V = S.members(uni)
    c.assume_inv(Schema("members-are-distinct-vertices", (Ref,), lambda x: And(Cnt(V, x) <= 1, Implies(Mem(V, x), And(x != NONE, ct.is_a(x, "Vertex"))))))
    c.assume_inv(Schema("every-link-of-a-member-is-two-ended", (Ref, Ref), lambda x, l: Implies(
        And(Mem(V, x), Mem(S.links(x), l)),
        And(l != NONE, ct.is_a(l, "TwoEndedLink"), Len(S.ends(l)) == 2, Or(x == S.v1(l), x == S.v2(l)),
            S.v1(l) != NONE, S.v2(l) != NONE, ct.is_a(S.v1(l), "Vertex"), ct.is_a(S.v2(l), "Vertex"))), pair_from=("_links@",)))
    c.requires(And(T.opt_cb_ok(rv), T.opt_cb_ok(re_)), "optional-callbacks-are-None-or-truthy")
    c.assume_inv(Schema("rvfunc-does-not-raise", (Ref,), lambda x: Not(T.cb1_raises(rv, x))))
    c.assume_inv(Schema("refunc-does-not-raise", (Ref,), lambda l: Not(T.cb1_raises(re_, l))))


@contract("pyvis.make_pyvis_net#functional", "uni:Universe, rvfunc:cb:vrv=None, refunc:cb:vre=None, network_kwargs:any=None",
          props=("C15",), ext_total=True, shards=8)
def _(c):
    """C15.  Assumes the contract of pyvis.network.Network stated in pyvc/ops.py (call_net_method) and callbacks that return."""
    S, ct = c.S, c.ct
    E = PyvisEnv(S, ct, c.uni, c.rvfunc)
    pyvis_functional_pre(c, S, ct, c.uni, c.rvfunc, c.refunc)
    GL = c.ghost("GL", RSeq)
    o = c.normal()
    net = o.fresh("<container>", "net")
    o.result(VNet(net))
    # one node per member: ids 0..n-1 in universe order, labelled by rvfunc
    o.set("net_nodes", net, E.IOTA(E.n))
    o.set("net_labels", net, E.LAB(E.V))
    # the edge records are the images of the links GL: from = id of v1, to = id of v2, arrow iff DirectedEdge
    o.set("net_from", net, E.MF(GL))
    o.set("net_to", net, E.MT(GL))
    o.set("net_arrow", net, E.MA(GL))
    o.loose("net_directed", lambda new, old, *_: [])
    o.fact_schema(E.pos_facts(E.V))
    o.fact_schema(E.record_facts(GL, lambda l: BoolVal(True)))
    o.fact_schema(E.complete(GL, lambda x, l: Mem(E.V, x)))
    o.loose("dyn_has", lambda new, old, *_: [Schema("attribute-set-unchanged", (Ref, T.Str), lambda ob, n: new(ob, n) == old(ob, n), trigger=("dyn_has",))])
    o.loose("dyn_val", lambda new, old, P=None, *_: [Schema("attribute-values-unchanged", (Ref, T.Str), lambda ob, n: Implies(
        And(n != MARK, S.read("dyn_has", ob, n)), new(ob, n) == old(ob, n)), trigger=("dyn_val",))])
    o.loose("elems", lambda new, old, *_: [])


def _pv_env(L):
    return PyvisEnv(L.pre, L.engine.ct, L.args["uni"].term, L.args["rvfunc"].term)


def _pv_markers(L, E, marked, valued):
    """the temporary attribute: present exactly on `marked`, holding the node id on `valued`; everything else as at entry"""
    S0 = L.pre

    def c_has(new, old, *_):
        return [Schema("marker-exactly-on-the-numbered-vertices", (Ref, T.Str), lambda ob, n: If(
            n == MARK, new(ob, n) == marked(ob), new(ob, n) == S0.read("dyn_has", ob, n)), trigger=("dyn_has",))]

    def c_val(new, old, *_):
        return [Schema("marker-holds-the-node-id", (Ref, T.Str), lambda ob, n: If(
            n == MARK, Implies(valued(ob), new(ob, n) == T_int_box(E.pos(ob))), new(ob, n) == S0.read("dyn_val", ob, n)), trigger=("dyn_val",)),
            Schema("marker-holds-the-node-id-of-members", (Ref,), lambda ob: Implies(valued(ob), new(ob, MARK) == T_int_box(E.pos(ob))))]
    return [Loose("dyn_has", c_has), Loose("dyn_val", c_val)]


def _pv_net(S0, net, nodes, labels, fr, to, ar):
    """the columns of the network under construction; nothing else of that kind changes (absolute: relative to the heap at
    function entry, so that a nested invariant can supersede the enclosing one)"""
    def one(fname, val):
        def cfn(new, old, *_):
            return [Schema(f"network-{fname}", (Ref,), lambda r: If(r == net, new(r) == val, new(r) == S0.read(fname, r)), trigger=(fname,))]
        return Loose(fname, cfn)
    return [one("net_nodes", nodes), one("net_labels", labels), one("net_from", fr), one("net_to", to), one("net_arrow", ar),
            Loose("net_directed", lambda new, old, *_: [])]


@REG.loop("pyvis.make_pyvis_net#functional", 0)
def _(L):
    E = _pv_env(L)
    p = L.prefix
    net = L.env["net"].ref
    gdefs = E.node_defs(p)
    if L.phase == "check":
        head, x = E._snoc(p)
        gdefs.append(Implies(Not(Mem(head, x)), E.pos(x) == Len(head)))      # ghost: the id given to the node just added
    emptyI = z3.Empty(ISeq)
    return LoopInv(loose=_pv_markers(L, E, lambda ob: Mem(p, ob), lambda ob: Mem(p, ob)) + _pv_net(L.pre, net, E.IOTA(Len(p)), E.LAB(p), emptyI, emptyI, emptyI),
                   schemas=[E.pos_facts(p)], ground_defs=gdefs, defs=E.iota_mem_defs(p))


def _pv_edges_inv(L, vert=None, q=None):
    E = _pv_env(L)
    S = L.pre
    net = L.env["net"].ref
    if vert is None:
        p = L.prefix
    else:
        p = L.env["$P1"].term
    if L.phase == "entry":
        GL = EMPTY() if vert is None else L.env["$GL"].term
    elif L.phase in ("assume", "exit"):
        GL = T.fresh("drawn", RSeq)
    else:
        GL = L.env["$GL"].term
        if vert is not None:
            # ghost code: a record was appended in this iteration  <=>  the `from` column grew
            cur = L.cur if L.cur is not None else L.path.st
            grew = Len(cur.read("net_from", net)) > Len(E.MF(GL))
            edge = L.env["edge"].term
            GL = ite(grew, snoc(GL, edge), GL)
    if vert is None:
        scanned = lambda x, l: Mem(p, x)
        done = lambda l: Mem(p, S.v1(l))
    else:
        scanned = lambda x, l: Or(Mem(p, x), And(x == vert, Mem(q, l)))
        done = lambda l: Or(Mem(p, S.v1(l)), And(S.v1(l) == vert, Mem(q, l)))
    gdefs = E.node_defs(E.V)
    sdefs = []
    cands = [GL] if not T._is_ite(GL) else [GL.arg(1), GL.arg(2)]
    for g_ in cands:
        gdefs += E.edge_defs(g_)
        sdefs += E.joined_defs(g_)
    define = {"$GL": VSeq(GL)}
    facts = []
    if vert is None:
        define["$P1"] = VSeq(p)
        if L.phase == "assume" and L.elem is not None:
            # [L] a duplicate-free list has each element at one index only (List.Nodup.getElem_inj_iff): the vertex now being
            # scanned sits at index |p| (enumerate) and at index pos(x) (its node id), so the two agree
            x, a = L.elem, E.pos(L.elem)
            gdefs.append(Implies(And(Cnt(E.V, x) <= 1, a >= 0, a < E.n, Nth(E.V, a) == x, Nth(E.V, Len(p)) == x), a == Len(p)))
    else:
        facts.append(L.env["i"].term == E.pos(vert))            # the enumerate index of the scanned vertex is its node id
    return LoopInv(loose=_pv_markers(L, E, lambda ob: Mem(E.V, ob), lambda ob: Mem(E.V, ob)) +
                   _pv_net(L.pre, net, E.IOTA(E.n), E.LAB(E.V), E.MF(GL), E.MT(GL), E.MA(GL)),
                   schemas=[E.pos_facts(E.V), E.record_facts(GL, done), E.complete(GL, scanned)],
                   facts=facts, ground_defs=gdefs, defs=sdefs, define=define, supersedes=(vert is not None))


@REG.loop("pyvis.make_pyvis_net#functional", 1)
def _(L):
    return _pv_edges_inv(L)


@REG.loop("pyvis.make_pyvis_net#functional", 2)
def _(L):
    return _pv_edges_inv(L, L.env["vert"].term, L.prefix)


@REG.loop("pyvis.make_pyvis_net#functional", 3)
def _(L):
    # the finally block: the marker is gone from the vertices already visited; the network is not touched any more
    E = _pv_env(L)
    pre = L.prefix
    S0 = L.pre
    ent = L.st

    def c_has(new, old, *_):
        return [Schema("marker-removed-from-the-visited", (Ref, T.Str), lambda ob, n: If(
            n == MARK, new(ob, n) == And(ent.read("dyn_has", ob, n), Not(Mem(pre, ob))), new(ob, n) == ent.read("dyn_has", ob, n)), trigger=("dyn_has",))]
    return LoopInv(loose=[Loose("dyn_has", c_has)])


# =============================================================================================== plaintext.basic_render (C16)
from .helpers import NB, NB_bad, heap_key, I5       # noqa: E402
from .traversal import cache_only_effects, loop_cache_loose   # noqa: E402

ARROW = z3.StringVal(" -> ")
COMMA = z3.StringVal(", ")
NL = z3.StringVal("\n")


class RenderEnv:
    def __init__(self, S, ct, args):
        self.S, self.ct = S, ct
        self.uni = args["uni"].term
        self.rf = args["rfunc"].term
        self.sk = args["sort"].term
        hk = heap_key(S)
        self.J_ = z3.Function(f"render_join@{hk}", Ref, RSeq, T.Str)          # rfunc, q -> ", ".join(r(w) for w in q)
        self.TJ_ = z3.Function(f"render_trailing@{hk}", Ref, RSeq, T.Str)     # rfunc, q -> "".join(r(w) + ", " for w in q)
        self.LINES_ = z3.Function(f"render_lines@{hk}", Ref, Ref, RSeq, T.SSeq)   # rfunc, sort, p -> [line(v) for v in p]

    def r(self, x):
        """rendering of one vertex: rfunc(x) (its str()), or repr(x)"""
        return If(self.rf != NONE, T.cbs1(self.rf, x), T.py_repr(x))

    def nbs(self, v):
        nb = NB(self.S, v, z3.IntVal(0), z3.IntVal(2), NONE)       # FORWARD neighbours in neighbors() order
        return If(self.sk != NONE, T.sortedby(self.sk, nb), nb)

    def order(self):
        m = self.S.members(self.uni)
        return If(self.sk != NONE, T.sortedby(self.sk, m), m)

    def J(self, q):
        return self.J_(self.rf, q)

    def TJ(self, q):
        return self.TJ_(self.rf, q)

    def LINES(self, p):
        return self.LINES_(self.rf, self.sk, p)

    def line(self, v):
        return z3.Concat(self.r(v), ARROW, self.J(self.nbs(v)))

    def join_defs(self, q):
        """J / TJ by snoc recursion, and their relation: TJ(q) = J(q) ++ ", " for non-empty q"""
        out = [self.J(EMPTY()) == z3.StringVal(""), self.TJ(EMPTY()) == z3.StringVal("")]
        parts = T._flat(q)
        if parts and T._is_unit(parts[-1]) and not T._is_empty(q):
            w = parts[-1].arg(0)
            head = cat(*parts[:-1])
            out.append(self.J(q) == If(Len(head) == 0, self.r(w), z3.Concat(self.J(head), COMMA, self.r(w))))
            out.append(self.TJ(q) == z3.Concat(self.TJ(head), self.r(w), COMMA))
        return out

    def lines_defs(self, p):
        out = [self.LINES(EMPTY()) == z3.Empty(T.SSeq)]
        parts = T._flat(p)
        if parts and T._is_unit(parts[-1]) and not T._is_empty(p):
            v = parts[-1].arg(0)
            head = cat(*parts[:-1])
            out.append(self.LINES(p) == z3.Concat(self.LINES(head), z3.Unit(self.line(v))))
        return out


@contract("plaintext.basic_render", "uni:Universe, rfunc:cb:srf=None, sort:cb:ksort=None", props=("C16",), shards=2)
def _(c):
    S, ct = c.S, c.ct
    E = RenderEnv(S, ct, c.args)
    c.assume_inv(TY_unis(S, ct))
    c.assume_inv(TY_links(S, ct))
    c.assume_inv(I5(S))
    c.assume_inv(Schema("members-are-vertices", (Ref,), lambda x: Implies(Mem(E.order(), x), And(x != NONE, ct.is_a(x, "Vertex")))))
    c.assume_inv(Schema("every-link-is-two-ended", (Ref, Ref), lambda x, l: Implies(
        And(ct.is_a(x, "Vertex"), Mem(S.links(x), l)),
        And(l != NONE, ct.is_a(l, "TwoEndedLink"), Len(S.ends(l)) == 2, Or(x == S.v1(l), x == S.v2(l)))), pair_from=("_links@",)))
    c.assume_inv(Schema("no-abnormal-scan", (Ref,), lambda x: Implies(ct.is_a(x, "Vertex"), Not(NB_bad(S, x, z3.IntVal(0), z3.IntVal(2), NONE)))))
    c.requires(And(T.opt_cb_ok(E.rf), T.opt_cb_ok(E.sk)), "optional-callbacks-are-None-or-truthy")
    c.assume_inv(Schema("rfunc-does-not-raise", (Ref,), lambda x: Not(T.cb1_raises(E.rf, x))))
    c.assume_inv(Schema("neighbours-are-renderable", (Ref, Ref), lambda x, w: Implies(
        And(ct.is_a(x, "Vertex"), Mem(E.nbs(x), w)), w != NONE), pair_from=("NBf@", "sortedby")))
    empty = Len(S.members(E.uni)) == 0
    c.normal(when=empty, result=NONE_V, label="empty-universe")
    o = c.normal(when=Not(empty), label="rendered")
    # one line per member in universe (or sort-key) order; each line: rendering, " -> ", renderings of the FORWARD
    # neighbours joined by ", " (a vertex without neighbours keeps "rendering -> ")
    o.result(VStr(T.SJoin(NL, E.LINES(E.order()))))
    cache_only_effects(o, S)


@REG.loop("plaintext.basic_render", 0)
def _(L):
    E = RenderEnv(L.st, L.engine.ct, L.args)
    lines = L.env["lines"].ref

    def c_selems(new, old, *_):
        return [Schema("lines-so-far", (Ref,), lambda r: If(r == lines, new(r) == E.LINES(L.prefix), new(r) == old(r)), trigger=("selems",))]
    return LoopInv(ground_defs=E.lines_defs(L.prefix), loose=loop_cache_loose(None) + [Loose("selems", c_selems)])


@REG.loop("plaintext.basic_render", 1)
def _(L):
    E = RenderEnv(L.st, L.engine.ct, L.args)
    v = L.env["vert"].term
    q = L.prefix
    line = z3.Concat(E.r(v), ARROW, E.TJ(q))
    return LoopInv(ground_defs=E.join_defs(q), define={"line": VStr(line)},
                   facts=[Implies(Len(q) > 0, E.TJ(q) == z3.Concat(E.J(q), COMMA))])
