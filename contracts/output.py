"""Contracts of edgegraph.output (C13 frame conditions; C15 / C16 / C14 functional contracts where within reach)."""
from __future__ import annotations
import z3
from z3 import And, Or, Not, Implies, BoolVal, If
from pyvc import terms as T
from pyvc.terms import Ref, Int, RSeq, NONE, Cnt, Mem, Len, snoc, cat, ite, EMPTY, unit
from pyvc.contracts import REG, Schema, LoopInv, Loose
from pyvc.values import *
from .common import *

contract = REG.contract
MARK = z3.StringVal("__make_pyvis_net_i")


def no_marker(S):
    """I13: no object carries the temporary attribute of make_pyvis_net (A6: user attribute names do not start with '_')"""
    return Schema("I13-no-temporary-attribute", (Ref,), lambda x: Not(S.read("dyn_has", x, MARK)))


def attrs_frame(vset):
    """dynamic attributes: the set of attributes of every object and the values of the attributes present are unchanged,
    except that the objects in `vset(x)` may carry the temporary marker"""
    def c_has(new, old, *_):
        return [Schema("attribute-set-unchanged", (Ref, T.Str), lambda o, n: If(n == MARK, new(o, n) == And(vset(o), BoolVal(True)) if False else Implies(new(o, n), vset(o)),
                                                                                  new(o, n) == old(o, n)), trigger=("dyn_has",))]

    def c_val(new, old, *_):
        return [Schema("attribute-values-unchanged", (Ref, T.Str), lambda o, n: Implies(n != MARK, new(o, n) == old(o, n)), trigger=("dyn_val",))]
    return [Loose("dyn_has", c_has), Loose("dyn_val", c_val)]


@contract("pyvis.make_pyvis_net", "uni:Universe, rvfunc:cb:vrv=None, refunc:cb:vre=None, network_kwargs:any=None",
          props=("C13",))
def _(c):
    """C13 frame condition: however the call ends (normally, or because rvfunc / refunc / pyvis raised at any point), no
    vertex, link or universe is changed, and no vertex keeps the temporary index attribute."""
    S = c.S
    c.assume_inv(TY_unis(S, c.ct))
    c.assume_inv(TY_links(S, c.ct))
    c.assume_inv(no_marker(S))
    c.assume_inv(Schema("members-are-vertices", (Ref,), lambda x: Implies(Mem(S.members(c.uni), x), And(x != NONE, c.ct.is_a(x, "Vertex")))))
    o = c.outcome(exc="*", label="any-exit")
    o.result(VOpaque("pyvis network"))
    o.loose("dyn_has", lambda new, old, *_: [Schema("attribute-set-unchanged", (Ref, T.Str), lambda ob, n: new(ob, n) == old(ob, n), trigger=("dyn_has",))])
    o.loose("dyn_val", lambda new, old, P=None, *_: [Schema("attribute-values-unchanged", (Ref, T.Str), lambda ob, n: Implies(
        And(n != MARK, S.read("dyn_has", ob, n)), new(ob, n) == old(ob, n)), trigger=("dyn_val",))])


def _marker_inv(L, marked):
    """markers only on the vertices in `marked`, everything else about attributes as at function entry"""
    S0 = L.pre

    def c_has(new, old, *_):
        return [Schema("only-the-marker-is-added", (Ref, T.Str), lambda ob, n: If(
            n == MARK, Implies(new(ob, n), marked(ob)), new(ob, n) == S0.read("dyn_has", ob, n)), trigger=("dyn_has",))]

    def c_val(new, old, *_):
        return [Schema("attribute-values-unchanged", (Ref, T.Str), lambda ob, n: Implies(
            n != MARK, new(ob, n) == S0.read("dyn_val", ob, n)), trigger=("dyn_val",))]
    ct = L.engine.ct
    verts = L.st.elems(L.env["verts"].ref)
    return LoopInv(loose=[Loose("dyn_has", c_has), Loose("dyn_val", c_val)],
                   schemas=[Schema("listed-members-are-vertices", (Ref,), lambda x: Implies(Mem(verts, x), And(x != NONE, ct.is_a(x, "Vertex"))))])


@REG.loop("pyvis.make_pyvis_net", 0)
def _(L):
    verts = L.seq
    return _marker_inv(L, lambda ob: Mem(verts, ob))


@REG.loop("pyvis.make_pyvis_net", 1)
def _(L):
    verts = L.seq
    return _marker_inv(L, lambda ob: Mem(verts, ob))


@REG.loop("pyvis.make_pyvis_net", 2)
def _(L):
    verts = L.st.elems(L.env["verts"].ref)
    return _marker_inv(L, lambda ob: Mem(verts, ob))


@REG.loop("pyvis.make_pyvis_net", 3)
def _(L):
    # the finally block: whatever happened before, the marker is gone from the vertices already visited
    verts, pre = L.seq, L.prefix
    return _marker_inv(L, lambda ob: And(Mem(verts, ob), Not(Mem(pre, ob))))
