"""Vocabulary shared by the contract files: global invariants (DESIGN.md 5.2) and cache-effect helpers."""
from __future__ import annotations
import z3
from z3 import And, Or, Not, Implies, BoolVal, If
from pyvc import terms as T
from pyvc.terms import Ref, Int, Bool, NONE, Cnt, Mem, Len, snoc, Rem1, Without
from pyvc.contracts import REG, Schema, Loose
from pyvc.values import *

MEMO_KEY = (Ref, Int, Int, Ref)


# ---------------------------------------------------------------------------------------------- invariants
def I1_sym(S, ct):
    """C01: l in links(v)  <=>  v in ends(l)   (for vertices v and links l)"""
    def f(v, l):
        return Implies(And(ct.is_a(v, "Vertex"), ct.is_a(l, "Link")), Mem(S.links(v), l) == Mem(S.ends(l), v))
    return Schema("I1-symmetric", (Ref, Ref), f, pair_from=("_links@", "_vertices@"))


def I1_nodup(S, ct):
    """C01: no vertex lists the same link twice"""
    def f(v, l):
        return Implies(ct.is_a(v, "Vertex"), Cnt(S.links(v), l) <= 1)
    return Schema("I1-nodup", (Ref, Ref), f, pair_from=("_links@",))


def TY_links(S, ct):
    """typing of the association: links(v) holds Link instances, ends(l) holds Vertex instances or None"""
    def f(v, l):
        return And(Implies(And(ct.is_a(v, "Vertex"), Mem(S.links(v), l)), And(l != NONE, ct.is_a(l, "Link"))),
                   Implies(And(ct.is_a(l, "Link"), Mem(S.ends(l), v)), Or(v == NONE, ct.is_a(v, "Vertex"))))
    return Schema("TY-links", (Ref, Ref), f, pair_from=("_links@", "_vertices@"))


def I2_sym(S, ct):
    """C02: o in members(u) <=> u in unis(o)  (o a vertex, u a universe)"""
    def f(o, u):
        return Implies(And(ct.is_a(o, "Vertex"), ct.is_a(u, "Universe")), Mem(S.members(u), o) == Mem(S.unis(o), u))
    return Schema("I2-symmetric", (Ref, Ref), f, pair_from=("_universes@", "_vertices@"))


def I2_nodup(S, ct):
    def f(o, u):
        return And(Implies(ct.is_a(u, "Universe"), Cnt(S.members(u), o) <= 1),
                   Implies(ct.is_a(o, "BaseObject"), Cnt(S.unis(o), u) <= 1))
    return Schema("I2-nodup", (Ref, Ref), f, pair_from=("_universes@", "_vertices@"))


def TY_unis(S, ct):
    """unis(o) holds Universe instances; members(u) holds BaseObject instances"""
    def f(o, u):
        return And(Implies(And(ct.is_a(o, "BaseObject"), Mem(S.unis(o), u)), And(u != NONE, ct.is_a(u, "Universe"))),
                   Implies(And(ct.is_a(u, "Universe"), Mem(S.members(u), o)), And(o != NONE, ct.is_a(o, "BaseObject"))))
    return Schema("TY-unis", (Ref, Ref), f, pair_from=("_universes@", "_vertices@"))


def I19(S, ct):
    """C19: u.laws is L  <=>  L.applies_to is u   (L not None)"""
    def f(u, L):
        return Implies(And(ct.is_a(u, "Universe"), ct.is_a(L, "UniverseLaws")), (S.laws(u) == L) == (S.applies(L) == u))
    return Schema("I19", (Ref, Ref), f, trigger=("product",))


def TY_laws(S, ct):
    def f(x):
        return And(Implies(ct.is_a(x, "Universe"), Or(S.laws(x) == NONE, ct.is_a(S.laws(x), "UniverseLaws"))),
                   Implies(ct.is_a(x, "UniverseLaws"), Or(S.applies(x) == NONE, ct.is_a(S.applies(x), "Universe"))))
    return Schema("TY-laws", (Ref,), f)


# ---------------------------------------------------------------------------------------------- cache effects
def cache_effects(o, must_clear):
    """Neighbor-cache effect of a mutator, deliberately *under-specified* (a loose field):
         - entries may only disappear (every surviving entry existed before, memo_val is untouched),
         - every vertex x with must_clear(x) has an empty memo afterwards.
       Over-invalidation therefore never breaks a contract; a missing invalidation does."""
    def c_has(new, old, *_):
        return [Schema("memo-only-shrinks-and-cleared", MEMO_KEY,
                       lambda v, d, u, f: Implies(new(v, d, u, f), And(old(v, d, u, f), Not(must_clear(v)))),
                       trigger=("memo_has",))]
    o.loose("memo_has", c_has)
    stats_monotone(o)
    return o


def stats_monotone(o):
    def c_stats(new, old, *_):
        return [Schema("stats-monotone", (Int,), lambda u: Implies(old(u), new(u)), trigger=("stats_has",))]
    o.loose("stats_has", c_stats)
    return o


# ---------------------------------------------------------------------------------------------- `attributes=` dictionaries
# An attributes argument is an opaque reference `a` (None allowed) with an abstract item list (A9: dict iteration order):
from pyvc.terms import ad_isdict, ad_len, ad_key, ad_val, ad_has_n, ad_val_n


def ad_unfold(a, i):
    """definitional unfolding of ad_*_n at index i, for every attribute name occurring in the query"""
    def f(_o, name):
        return And(ad_has_n(a, i + 1, name) == Or(ad_key(a, i) == name, ad_has_n(a, i, name)),
                   ad_val_n(a, i + 1, name) == If(ad_key(a, i) == name, ad_val(a, i), ad_val_n(a, i, name)),
                   Not(ad_has_n(a, 0, name)))
    return Schema(f"ad-unfold({i})", (Ref, T.Str), f, trigger=("dyn_has", "dyn_val"))


def set_attrs_effect(o, S, obj, a):
    """setattr(obj, k, v) for every item of the attributes dictionary `a` (if it is not None)"""
    n = ad_len(a)
    o.set_where("dyn_has", lambda ad: (And(a != NONE, ad[0] == obj, ad_has_n(a, n, ad[1])), BoolVal(True)))
    o.set_where("dyn_val", lambda ad: (And(a != NONE, ad[0] == obj, ad_has_n(a, n, ad[1])), ad_val_n(a, n, ad[1])))
