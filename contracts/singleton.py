"""Contracts of edgegraph.structure.singleton (C17, C18): the registries are maps in the heap model.

  true singletons:  tmap : class -> instance                       (one registry, on the TrueSingleton metaclass)
  semi-singletons:  smap : (metaclass object, (class, key)) -> instance
  ghost:            init_count(o), init_args(o): how often / with which arguments __init__ ran on o (type.__call__, A9)
"""
from __future__ import annotations
import z3
from z3 import And, Or, Not, Implies, BoolVal, If
from pyvc import terms as T
from pyvc.terms import Ref, Int, Cls, NONE
from pyvc.contracts import REG, Schema, LoopInv, Loose
from pyvc.values import *

contract = REG.contract


def new_instance(o, S, cls, args, kwargs, name="instance"):
    """type.__call__(cls, *args, **kwargs): a new instance of exactly `cls` whose __init__ ran once with these arguments"""
    r = o.fresh(cls, name)
    o.set("init_count", r, z3.IntVal(1))
    o.set("init_args", r, T.mkpair(args, kwargs))
    return r


# =============================================================================================== C18


@contract("TrueSingleton.__call__", "cls:cls, args:pack, kwargs:pack", props=("C18",))
def _(c):
    S, k = c.S, c.cls
    has = S.read("tmap_has", k)
    # between two clears every construction returns the registered instance: __init__ does not run again, nothing changes
    c.normal(when=has, result=VRef(S.read("tmap_val", k), None, "opaque"), label="existing")
    # the user's __init__ may raise: then nothing is registered
    ir = T.init_raises(k, c.val("args").term, c.val("kwargs").term)
    c.raises("UserExc", when=And(Not(has), ir), label="init-raised")
    o = c.normal(when=And(Not(has), Not(ir)), label="created")
    r = new_instance(o, S, k, c.val("args").term, c.val("kwargs").term)
    o.set("tmap_has", (k,), BoolVal(True))
    o.set("tmap_val", (k,), r)
    o.result(VRef(r, None, "opaque"))


@contract("singleton.clear_true_singleton", "cls:clsopt=None", props=("C18",))
def _(c):
    S, k = c.S, c.cls
    o = c.normal(when=k == T.NONECLS, label="clear-all")
    o.set_where("tmap_has", lambda a: (BoolVal(True), BoolVal(False)))
    o = c.normal(when=k != T.NONECLS, label="clear-one")          # harmless when the class has no instance
    o.set("tmap_has", (k,), BoolVal(False))


# =============================================================================================== C17


def skey(cls, h):
    return T.mkpair(T.cls_ref(cls), h)


@contract("singleton.semi_singleton_metaclass.<locals>.hashfunc", "args:pack, kwargs:pack", props=("C17",))
def _(c):
    # the default key is the argument tuple itself together with the order-normalised keyword arguments - not a hash of
    # them: two keys are equal exactly when the positional arguments are equal and the keyword arguments are the same set
    c.normal(result=VRef(T.mkpair(c.val("args").term, T.jsonk(c.val("kwargs").term)), None, "opaque"))


@contract("_SemiSingleton.__call__", "cls:cls, args:pack, kwargs:pack", props=("C17",))
def _(c):
    S, k = c.S, c.cls
    M = T.meta_of(k)
    c.requires(T.hf_of(M) != NONE, "class-built-by-semi_singleton_metaclass")
    key = skey(k, T.cbv2(T.hf_of(M), c.val("args").term, c.val("kwargs").term))
    has = S.read("smap_has", M, key)
    c.normal(when=has, result=VRef(S.read("smap_val", M, key), None, "opaque"), label="existing")
    ir = T.init_raises(k, c.val("args").term, c.val("kwargs").term)
    c.raises("UserExc", when=And(Not(has), ir), label="init-raised")
    o = c.normal(when=And(Not(has), Not(ir)), label="created")
    r = new_instance(o, S, k, c.val("args").term, c.val("kwargs").term)
    o.set("smap_has", (M, key), BoolVal(True))
    o.set("smap_val", (M, key), r)
    o.result(VRef(r, None, "opaque"))


@contract("singleton.add_mapping", "obj:any, args:pack, kwargs:pack", props=("C17",))
def _(c):
    S = c.S
    k = T.cls_of(c.obj)
    M = T.meta_of(k)
    c.requires(T.hf_of(M) != NONE, "class-built-by-semi_singleton_metaclass")
    key = skey(k, T.cbv2(T.hf_of(M), c.val("args").term, c.val("kwargs").term))
    o = c.normal()
    o.set("smap_has", (M, key), BoolVal(True))
    o.set("smap_val", (M, key), c.obj)


@contract("singleton.drop_semi_singleton_mapping", "cls:cls, args:pack, kwargs:pack", props=("C17",))
def _(c):
    S, k = c.S, c.cls
    M = T.meta_of(k)
    c.requires(T.hf_of(M) != NONE, "class-built-by-semi_singleton_metaclass")
    key = skey(k, T.cbv2(T.hf_of(M), c.val("args").term, c.val("kwargs").term))
    has = S.read("smap_has", M, key)
    c.raises("KeyError", when=Not(has), label="no-such-mapping")
    o = c.normal(when=has)
    o.set("smap_has", (M, key), BoolVal(False))


@contract("singleton.check_semi_singleton_entry_exists", "cls:cls, args:pack, kwargs:pack", props=("C17",))
def _(c):
    S, k = c.S, c.cls
    M = T.meta_of(k)
    c.requires(T.hf_of(M) != NONE, "class-built-by-semi_singleton_metaclass")
    key = skey(k, T.cbv2(T.hf_of(M), c.val("args").term, c.val("kwargs").term))
    has = S.read("smap_has", M, key)
    # reports the live mapping without creating any
    c.normal(when=has, result=VRef(S.read("smap_val", M, key), None, "opaque"), label="live")
    c.normal(when=Not(has), result=NONE_V, label="absent")


def SELV(S, M, cref):
    """SELV(q): the instances stored under the keys of q whose class component is `cref`, in the order of q (snoc recursion)"""
    from .plantuml import _key
    return z3.Function(f"semi_instances@{_key(S, 'smap_has', 'smap_val')}", Ref, Ref, T.RSeq, T.RSeq)


def selv_defs(S, M, cref, q):
    F = SELV(S, M, cref)
    out = [F(M, cref, T.EMPTY()) == T.EMPTY()]
    parts = T._flat(q)
    if parts and T._is_unit(parts[-1]) and not T._is_empty(q):
        head, k = T.cat(*parts[:-1]), parts[-1].arg(0)
        out.append(F(M, cref, q) == T.ite(T.pfst(k) == cref, T.snoc(F(M, cref, head), S.read("smap_val", M, k)), F(M, cref, head)))
    return out


@contract("singleton.get_all_semi_singleton_instances", "cls:cls", props=("C17",), is_generator=True, oracle_op=True)
def _(c):
    """yields exactly the instances stored under the live keys of this class (each live key once, in the registry's iteration
    order, which is unspecified: ghost enumeration p), nothing of another class of the same metaclass, and creates nothing"""
    S, k = c.S, c.cls
    M = T.meta_of(k)
    p = c.enum_where(lambda x: S.read("smap_has", M, x), "live_keys")
    o = c.normal()
    o.out(SELV(S, M, T.cls_ref(k))(M, T.cls_ref(k), p))


@REG.loop("singleton.get_all_semi_singleton_instances", 0)
def _(L):
    S = L.pre
    k = L.args["cls"].term
    M, cref = T.meta_of(k), T.cls_ref(k)
    return LoopInv(out=SELV(S, M, cref)(M, cref, L.prefix), ground_defs=selv_defs(S, M, cref, L.prefix))


@contract("singleton.clear_semi_singleton", "cls:cls", props=("C17",), oracle_op=True)
def _(c):
    """removes exactly the mappings of `cls` from its metaclass's registry: other classes sharing the metaclass keep theirs"""
    S, k = c.S, c.cls
    M = T.meta_of(k)
    o = c.normal()
    o.set_where("smap_has", lambda a: (And(a[0] == M, T.pfst(a[1]) == T.cls_ref(k)), BoolVal(False)))
    o.loose("elems", lambda new, old, *_: [])


@REG.loop("singleton.clear_semi_singleton", 0)
def _(L):
    S = L.st
    k = L.args["cls"].term
    M = T.meta_of(k)
    q = L.prefix

    def c_has(new, old, *_):
        return [Schema("deleted-so-far", (Ref, Ref), lambda m, x: new(m, x) == And(S.read("smap_has", m, x), Not(And(m == M, T.Cnt(q, x) >= 1))), trigger=("smap_has",))]
    return LoopInv(loose=[Loose("smap_has", c_has)])
