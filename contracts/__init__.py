"""Sidecar contracts for mishaturnbull/edgegraph (keyed by qualified function name and loop ordinal)."""
