"""Contracts of edgegraph.traversal.breadthfirst / depthfirst (C06, C07, C08, C13).

Each traversal is proved to *refine the canonical machine of the property statement* (DESIGN.md appendix A.4), written
here as recurrences over uninterpreted functions whose defining equations are unfolded by the loop invariants:

  BFS   A(0) = [start];  A(k+1) = A(k) ++ np(N(A(k)[k]), A(k))   while k < len A(k);   listing = A(K), K = len A(K)
        np(p, acc) = the in-universe elements of p not in acc, first occurrences, in order
  DFSi  (stack, disc)(0) = ([start], []);  pop the last v: discovered or outside the universe -> drop it,
        else disc ++= [v], stack ++= N(v)
  DFSr  dfo(x, V) = dff(N(x), x, V);  dff([], x, V) = [x];
        dff(p ++ [w], x, V) = r ++ dfo(w, V ++ r) if w in universe, not in V ++ r, else r      (r = dff(p, x, V))

so the listing is a deterministic function of the link order alone (C07).  On top of the refinement the invariants
carry the set-level facts of C06 (duplicate-free, every listed vertex reachable, listing closed under in-universe
neighbours), from which `listing = Reach` follows by the Lean lemma reach_subset_of_closed.
"""
from __future__ import annotations
import z3
from z3 import And, Or, Not, Implies, BoolVal, If
from pyvc import terms as T
from pyvc.terms import Ref, Int, RSeq, NONE, Cnt, Mem, Len, snoc, cat, ite, EMPTY, Flt, unit
from pyvc.contracts import REG, Schema, LoopInv, Loose
from pyvc.values import *
from .common import *
from .helpers import NB, NB_bad, NBf, heap_key, two_ended_links, I5, I5_at

contract = REG.contract
FUNC_PARAMS = ("uni:Universe?, start:Vertex, *, direction_sensitive:int=0, unknown_handling:int=2, "
               "ff_via:cb:ff2=None, ff_result:cb:ffr=None")


def inU(S, uni, w):
    return Or(uni == NONE, Mem(S.members(uni), w))


class Env:
    """the symbols of one traversal instance"""

    def __init__(self, S, ct, args, start_key="start"):
        self.S, self.ct = S, ct
        self.uni = args["uni"].term
        self.start = args[start_key].term
        self.d = args["direction_sensitive"].term if "direction_sensitive" in args else z3.IntVal(0)
        self.u = args["unknown_handling"].term if "unknown_handling" in args else z3.IntVal(2)
        self.fv = args["ff_via"].term if "ff_via" in args else NONE
        self.fr = args["ff_result"].term if "ff_result" in args else NONE
        hk = heap_key(S)
        self.hk = hk
        sig = (Ref, Ref, Int, Int, Ref)      # start, uni, d, u, fv
        self.A_ = z3.Function(f"BFS_A@{hk}", *sig, Int, RSeq)
        self.np_ = z3.Function(f"BFS_np@{hk}", Ref, RSeq, RSeq, RSeq)
        self.Reach_ = z3.Function(f"Reach@{hk}", *sig, Ref, z3.BoolSort())
        self.DS_ = z3.Function(f"DFSi_stack@{hk}", *sig, Int, RSeq)
        self.DD_ = z3.Function(f"DFSi_disc@{hk}", *sig, Int, RSeq)
        self.R_ = z3.Function(f"ReachFrom@{hk}", Ref, Int, Int, Ref, Ref, Ref, z3.BoolSort())   # uni,d,u,fv, a, b: b reachable from a
        self.dfo_ = z3.Function(f"DFSr_out@{hk}", Ref, Int, Int, Ref, Ref, RSeq, RSeq)       # uni,d,u,fv, x, V
        self.dff_ = z3.Function(f"DFSr_fold@{hk}", Ref, Int, Int, Ref, RSeq, Ref, RSeq, RSeq)  # uni,d,u,fv, p, x, V

    @property
    def key(self):
        return (self.start, self.uni, self.d, self.u, self.fv)

    def N(self, x):
        return NB(self.S, x, self.d, self.u, self.fv)

    def inU(self, w):
        return inU(self.S, self.uni, w)

    def A(self, k):
        return self.A_(*self.key, k)

    def np(self, p, acc):
        return self.np_(self.uni, p, acc)

    def Reach(self, x):
        return self.Reach_(*self.key, x)

    # ---- definitional unfoldings -------------------------------------------------------------------------------
    def np_defs(self, p, acc):
        out = [self.np(EMPTY(), acc) == EMPTY()]
        parts = T._flat(p)
        if parts and T._is_unit(parts[-1]) and not T._is_empty(p):
            w = parts[-1].arg(0)
            head = cat(*parts[:-1])
            r = self.np(head, acc)
            isnew = And(self.inU(w), Not(Mem(acc, w)), Not(Mem(r, w)))
            out.append(self.np(p, acc) == If(isnew, snoc(r, w), r))
            # the same equation under the result filter (filter_append), so that no reasoning inside `flt` is needed
            out.append(T.flt(self.fr, self.np(p, acc)) == If(isnew, cat(T.flt(self.fr, r), Flt(self.fr, unit(w))), T.flt(self.fr, r)))
        out.append(T.flt(self.fr, EMPTY()) == EMPTY())
        out.append(T.flt(self.fr, self.np(EMPTY(), acc)) == EMPTY())
        return out

    def A_defs(self):
        return [self.A(z3.IntVal(0)) == unit(self.start),
                T.flt(self.fr, self.A(z3.IntVal(0))) == Flt(self.fr, unit(self.start))]

    def A_step(self, k, done, x, rest):
        """A(k) = done ++ [x] ++ rest with |done| = k   ==>   A(k+1) = A(k) ++ np(N(x), A(k))
        -> (ground implication, the same with counting expanded for every reference term)"""
        cond = And(self.A(k) == cat(done, unit(x), rest), Len(done) == k)
        rhs = cat(self.A(k), self.np(self.N(x), self.A(k)))
        return (And(Implies(cond, self.A(k + 1) == rhs), Implies(cond, T.flt(self.fr, self.A(k + 1)) == Flt(self.fr, rhs))),
                Schema("A-step-count", (Ref,), lambda y: Implies(cond, Cnt(self.A(k + 1), y) == Cnt(rhs, y))))

    def R(self, a, b):
        """b is reachable from a along links neighbors() follows, through vertices of the universe (reflexive-transitive
        closure of `step`; Lean: Relation.ReflTransGen)"""
        return self.R_(self.uni, self.d, self.u, self.fv, a, b)

    def step(self, x, w):
        return And(Mem(self.N(x), w), self.inU(w))

    def reach_defs(self, root):
        """closure properties of ReachFrom(root, .): contains root, closed under step"""
        return [Schema("Reach-refl", (Ref,), lambda x: self.R(x, x)),
                Schema("Reach-closed-under-step", (Ref, Ref), lambda x, w: Implies(And(self.R(root, x), self.step(x, w)), self.R(root, w)),
                       pair_from=("NBf@",))]

    def reach_axioms(self):
        """Reach is closed under in-universe neighbours and contains start (the least such set: Lean, Reach.lean)"""
        def fn(x, w):
            return Implies(And(self.Reach(x), Mem(self.N(x), w), self.inU(w)), self.Reach(w))
        return [Schema("Reach-closed", (Ref, Ref), fn)]


def wellformed(c, E: Env, functional=True):
    """preconditions shared by the traversals"""
    S, ct = E.S, E.ct
    c.assume_inv(TY_links(S, ct))
    c.assume_inv(TY_unis(S, ct))
    c.assume_inv(Schema("every-link-is-two-ended-with-vertex-ends", (Ref, Ref), lambda x, l: Implies(
        And(ct.is_a(x, "Vertex"), Mem(S.links(x), l)),
        And(l != NONE, ct.is_a(l, "TwoEndedLink"), Len(S.ends(l)) == 2, Or(x == S.v1(l), x == S.v2(l)),
            S.v1(l) != NONE, S.v2(l) != NONE, ct.is_a(S.v1(l), "Vertex"), ct.is_a(S.v2(l), "Vertex"))),
        pair_from=("_links@",)))
    c.assume_inv(I5(S))
    if functional:
        # well-behaved settings: a legal direction, no abnormal scan (unknown class under ERROR, raising filter)
        c.requires(And(E.d >= 0, E.d <= 2), "direction-in-range")
        c.assume_inv(Schema("no-abnormal-scan", (Ref,), lambda x: Implies(ct.is_a(x, "Vertex"), Not(NB_bad(S, x, E.d, E.u, E.fv)))))
        c.requires(T.opt_cb_ok(E.fr), "ff_result-is-None-or-truthy")
        c.assume_inv(Schema("ff_result-does-not-raise", (Ref,), lambda x: Not(T.cb1_raises(E.fr, x))))
        c.assume_inv(Schema("neighbours-are-vertices", (Ref, Ref), lambda x, w: Implies(
            And(ct.is_a(x, "Vertex"), Mem(E.N(x), w)), And(w != NONE, ct.is_a(w, "Vertex"))), pair_from=("NBf@",)))


def cache_only_effects(o, S):
    """read-only operation: the only state it may touch is the neighbor memo (kept coherent: I5), the list objects it
    creates, and the statistics counters"""
    o.loose("memo_has", lambda new, old, P=None, *_: [I5(P)] if P is not None else [])
    o.loose("memo_val", lambda new, old, *_: [])
    o.loose("elems", lambda new, old, *_: [])
    stats_monotone(o)


def may_exhaust_stack(c, S):
    """assumption A2 relaxed for the recursive traversals / searches: CPython may abort them with RecursionError at any call
    (depth beyond the recursion limit).  Whatever was yielded or marked so far is unspecified; the graph is untouched.  A
    caller that catches the error has to produce the specified result by other means."""
    o = c.outcome(exc="RecursionError", label="recursion-limit")
    o.o.may = True
    cache_only_effects(o, S)
    o.loose("dkeys", lambda new, old, *_: [])
    return o


def loop_cache_loose(extra_elems=None, local_containers=()):
    def c_elems(new, old, *_):
        return extra_elems(new) if extra_elems else []

    def c_mval(new, old, *_):
        # the memoised lists are never the containers this function works with
        if not local_containers:
            return []
        return [Schema("memo-lists-are-not-local-containers", MEMO_KEY,
                       lambda v, d, u, f: And(*[new(v, d, u, f) != r for r in local_containers]), trigger=("memo_val", "memo_has"))]
    return [Loose("memo_has", lambda new, old, P=None, *_: [I5(P)] if P is not None else []),
            Loose("memo_val", c_mval),
            Loose("elems", c_elems),
            Loose("stats_has", lambda new, old, *_: [Schema("stats-monotone", (Int,), lambda u: Implies(old(u), new(u)), trigger=("stats_has",))])]


# =============================================================================================== breadth first


def listing_set_facts(o, E: Env, listing, root):
    """C06 at the level of sets: the (unfiltered) listing starts from / contains the start vertex, has no repetition, every
    listed vertex is reachable, and the listing is closed under in-universe neighbours.  With Lean's
    reach_subset_of_closed the last three say: set(listing) = the vertices reachable from start."""
    o.fact(Mem(listing, root))
    o.fact_schema(Schema("C06-no-repetition", (Ref,), lambda x: Cnt(listing, x) <= 1))
    o.fact_schema(Schema("C06-listed-are-reachable", (Ref,), lambda x: Implies(Mem(listing, x), E.R(root, x))))
    o.fact_schema(Schema("C06-listing-is-closed", (Ref, Ref), lambda x, w: Implies(And(Mem(listing, x), E.step(x, w)), Mem(listing, w)),
                         pair_from=("NBf@",)))


def bfs_listing_facts(E: Env, K):
    """the listing A(K) is complete: the machine has expanded every listed vertex"""
    return [Len(E.A(K)) == K, K >= 1]


@contract("breadthfirst.ibft", FUNC_PARAMS, is_generator=True, props=("C06", "C07"), shards=10)
def _(c):
    E = Env(c.S, c.ct, c.args)
    S = c.S
    wellformed(c, E)
    empty = And(E.uni != NONE, Len(S.members(E.uni)) == 0)
    outside = And(E.uni != NONE, Not(empty), Not(Mem(S.members(E.uni), E.start)))
    o = c.normal(when=empty, label="empty-universe")
    o.out(EMPTY())
    c.raises("ValueError", when=outside, label="start-outside-universe")
    o = c.normal(when=And(Not(empty), Not(outside)), label="listing")
    K = c.ghost("K", Int)
    o.out(Flt(E.fr, E.A(K)))
    for f in bfs_listing_facts(E, K):
        o.fact(f)
    listing_set_facts(o, E, E.A(K), E.start)
    cache_only_effects(o, S)


def bfs_outer_inv(L, E: Env, with_out=True, extra=lambda acc: []):
    """invariant of the `while queue` loop of ibft / bfs: the program is the canonical BFS machine after $K expansions:
    A($K) = $done ++ queue, visited = set(A($K)) (and yielded = filter(A($K)))"""
    S = L.st
    ct = L.engine.ct
    vis, queue = L.env["visited"].ref, L.env["queue"].ref
    if L.phase == "entry":
        k, done = z3.IntVal(0), EMPTY()
    elif L.phase == "assume":
        k, done = L.k, T.fresh("done", RSeq)
    else:
        k = L.env["$K"].term + 1
        done = snoc(L.env["$done"].term, L.env["u"].term)
    Ak = E.A(k)
    cur = L.cur if L.cur is not None else L.st
    st = S.copy()
    st.write_where("setmem", lambda ad: (T.eq(ad[0], vis), Mem(Ak, ad[1])))
    defs = E.A_defs()
    sdefs = []
    facts = [k >= 0]
    if L.phase == "assume":
        q = T.fresh("queue_now", RSeq)
        facts += [Ak == cat(done, q), Len(done) == k]
        elems_c = lambda new: [Schema("queue-content", (Ref,), lambda r: Implies(r == queue, new(r) == q), trigger=("elems",))]
    else:
        q = cur.elems(queue)          # witness: the queue as it is now
        facts += [Ak == cat(done, q), Len(done) == k]
        if L.phase == "check":
            # definitional step of the machine for the vertex just expanded: A(k0) = done0 ++ [u] ++ rest
            k0, done0, u = L.env["$K"].term, L.env["$done"].term, L.env["u"].term
            rest = L.pghost["last_pop"][1]
            g_, sch_ = E.A_step(k0, done0, u, rest)
            defs.append(g_)
            sdefs.append(sch_)
        elems_c = None
    return LoopInv(state=st, facts=facts + [Mem(Ak, E.start)], ground_defs=defs, defs=sdefs + E.reach_defs(E.start),
                   define={"$K": VInt(k), "$done": VSeq(done)},
                   loose=loop_cache_loose(elems_c, (queue, vis)), out=(Flt(E.fr, Ak) if with_out else None),
                   schemas=[Schema("listed-vertices-are-in-universe-vertices", (Ref,), lambda x: Implies(
                       Mem(Ak, x), And(x != NONE, ct.is_a(x, "Vertex")))),
                       Schema("listing-duplicate-free", (Ref,), lambda x: Cnt(Ak, x) <= 1),
                       # C06: everything listed is reachable; the expanded part of the listing is closed
                       Schema("listed-vertices-are-reachable", (Ref,), lambda x: Implies(Mem(Ak, x), E.R(E.start, x))),
                       Schema("expanded-part-is-closed", (Ref, Ref), lambda x, w: Implies(
                           And(Mem(done, x), E.step(x, w)), Mem(Ak, w)), pair_from=("NBf@",))] + extra(Ak))


def bfs_inner_inv(L, E: Env, with_out=True, extra=lambda acc: []):
    S = L.st                       # heap when the scan of u's neighbours starts
    ct = L.engine.ct
    vis, queue = L.env["visited"].ref, L.env["queue"].ref
    k = L.env["$K"].term
    Ak = E.A(k)
    rest = S.elems(queue)          # queue after popleft
    new = E.np(L.prefix, Ak)
    acc = cat(Ak, new)
    st = S.copy()
    st.write_where("setmem", lambda ad: (T.eq(ad[0], vis), Mem(acc, ad[1])))
    defs = E.np_defs(L.prefix, Ak) + E.np_defs(EMPTY(), Ak)
    if L.elem is not None and "u" in L.env:
        # congruence instance (valid formula): the scanned list is N(u), so the current element occurs in N(u) as often
        Nu = E.N(L.env["u"].term)
        defs.append(Implies(L.seq == Nu, Cnt(Nu, L.elem) == Cnt(L.seq, L.elem)))
    elems_c = lambda newr: [Schema("queue-content", (Ref,), lambda r: Implies(r == queue, newr(r) == cat(rest, new)), trigger=("elems",))]
    define = {"$P": VSeq(L.prefix), "$rest": VSeq(rest)}
    if getattr(L, "suffix", None) is not None:
        define["$SUF"] = VSeq(L.suffix)
    done = L.env["$done"].term
    u = L.env["u"].term
    return LoopInv(state=st, facts=[Mem(acc, E.start)], ground_defs=defs, defs=E.reach_defs(E.start),
                   loose=loop_cache_loose(elems_c, (queue, vis)),
                   out=(Flt(E.fr, acc) if with_out else None), define=define,
                   schemas=[Schema("listed-vertices-are-in-universe-vertices", (Ref,), lambda x: Implies(
                       Mem(acc, x), And(x != NONE, ct.is_a(x, "Vertex")))),
                       Schema("listing-duplicate-free", (Ref,), lambda x: Cnt(acc, x) <= 1),
                       Schema("listed-vertices-are-reachable", (Ref,), lambda x: Implies(Mem(acc, x), E.R(E.start, x))),
                       Schema("expanded-part-is-closed", (Ref, Ref), lambda x, w: Implies(
                           And(Mem(done, x), E.step(x, w)), Mem(acc, w)), pair_from=("NBf@",)),
                       Schema("scanned-neighbours-are-listed", (Ref,), lambda w: Implies(
                           And(Mem(L.prefix, w), E.inU(w)), Mem(acc, w)))] + extra(acc))


@REG.loop("breadthfirst.ibft", 0)
def _(L):
    return bfs_outer_inv(L, Env(L.st, L.engine.ct, L.args))


@REG.loop("breadthfirst.ibft", 1)
def _(L):
    return bfs_inner_inv(L, Env(L.st, L.engine.ct, L.args))


def list_form(gen_qualname):
    """the list form returns a fresh list holding exactly what the generator form yields (element by element)"""
    def fn(c):
        gen = REG.contracts[gen_qualname]
        # instantiate the generator's contract on the same arguments and wrap every normal outcome
        from pyvc.contracts import SpecCtx
        sub = SpecCtx(c.S, c.args, c._alloc, c.repo, c.site)
        sub.ct, sub.engine = c.ct, c.engine
        gen.fn(sub)
        c.spec.requires += sub.spec.requires
        c.spec.assume_schemas += sub.spec.assume_schemas
        c.spec.ghosts += sub.spec.ghosts
        for o in sub.spec.outcomes:
            if o.exc is not None:
                c.spec.outcomes.append(o)
                continue
            ob = c.outcome(when=o.cond, label=o.label)
            r = ob.fresh("<container>", "listing")
            ob.set("elems", r, o.out if o.out is not None else EMPTY())
            ob.result(VList(r, "Vertex"))
            ob.o.facts += o.facts
            ob.o.loose += o.loose
    return fn


REG.contract("breadthfirst.bft", FUNC_PARAMS, props=("C06", "C07", "C12"))(list_form("breadthfirst.ibft"))


# =============================================================================================== depth first, explicit stack


@contract("depthfirst._df_preflight_checks", "uni:Universe?, start:Vertex", props=("C06", "C07", "C08", "C13"))
def _(c):
    S = c.S
    c.assume_inv(TY_unis(S, c.ct))
    bad = And(c.uni != NONE, Or(Len(S.members(c.uni)) == 0, Not(Mem(S.members(c.uni), c.start))))
    c.raises("ValueError", when=bad, label="empty-or-start-outside")
    c.normal(when=Not(bad))          # nothing changes (the list built by uni.vertices is garbage)


def dfsi_defs(E: Env):
    z = z3.IntVal(0)
    return [E.DS_(*E.key, z) == unit(E.start), E.DD_(*E.key, z) == EMPTY(), T.flt(E.fr, E.DD_(*E.key, z)) == EMPTY()]


def dfsi_step(E: Env, k, rest, v):
    """DS(k) = rest ++ [v]  ==>  the machine pops v: already discovered or outside the universe -> dropped,
    else discovered and its neighbours (in order) pushed.  -> (ground facts, count schemas)"""
    DS, DD = (lambda n: E.DS_(*E.key, n)), (lambda n: E.DD_(*E.key, n))
    cond = DS(k) == cat(rest, unit(v))
    skip = Or(Mem(DD(k), v), Not(E.inU(v)))
    ds1 = ite(skip, rest, cat(rest, E.N(v)))
    dd1 = ite(skip, DD(k), snoc(DD(k), v))
    g = [Implies(cond, DS(k + 1) == ds1), Implies(cond, DD(k + 1) == dd1),
         Implies(cond, T.flt(E.fr, DD(k + 1)) == ite(skip, T.flt(E.fr, DD(k)), cat(T.flt(E.fr, DD(k)), Flt(E.fr, unit(v)))))]
    sch = [Schema("DFSi-step-count", (Ref,), lambda y: Implies(cond, And(Cnt(DS(k + 1), y) == Cnt(ds1, y),
                                                                         Cnt(DD(k + 1), y) == Cnt(dd1, y))))]
    return g, sch


def dfsi_set_invs(E: Env, DSk, DDk, pushed=None):
    """C06 for the explicit-stack DFS: discovered vertices are reachable and in the universe; stacked ones are reachable unless
    outside the universe; every in-universe neighbour of a discovered vertex is discovered or still on the stack"""
    pend = DSk if pushed is None else cat(DSk, pushed)
    return [Schema("discovered-are-reachable", (Ref,), lambda x: Implies(Mem(DDk, x), And(E.R(E.start, x), E.inU(x)))),
            Schema("stacked-are-reachable-or-outside", (Ref,), lambda x: Implies(Mem(pend, x), Or(E.R(E.start, x), Not(E.inU(x))))),
            Schema("discovered-closed-up-to-stack", (Ref, Ref), lambda x, w: Implies(
                And(Mem(DDk, x), E.step(x, w)), Or(Mem(DDk, w), Mem(pend, w))), pair_from=("NBf@",))]


@contract("depthfirst.idft_iterative", FUNC_PARAMS, is_generator=True, props=("C06", "C07"), shards=6)
def _(c):
    E = Env(c.S, c.ct, c.args)
    S = c.S
    wellformed(c, E)
    bad = And(E.uni != NONE, Or(Len(S.members(E.uni)) == 0, Not(Mem(S.members(E.uni), E.start))))
    c.raises("ValueError", when=bad, label="empty-or-start-outside")
    o = c.normal(when=Not(bad), label="listing")
    K = c.ghost("K", Int)
    o.out(Flt(E.fr, E.DD_(*E.key, K)))
    o.fact(E.DS_(*E.key, K) == EMPTY())
    o.fact(K >= 1)
    listing_set_facts(o, E, E.DD_(*E.key, K), E.start)
    cache_only_effects(o, S)


@REG.loop("depthfirst.idft_iterative", 0)
def _(L):
    E = Env(L.st, L.engine.ct, L.args)
    S = L.st
    ct = L.engine.ct
    stack, disc = L.env["stack"].ref, L.env["discovered"].ref
    if L.phase == "entry":
        k = z3.IntVal(0)
    elif L.phase == "assume":
        k = L.k
    else:
        k = L.env["$K"].term + 1
    DSk, DDk = E.DS_(*E.key, k), E.DD_(*E.key, k)
    defs, sdefs = dfsi_defs(E), []
    if L.phase == "check":
        v, rest = L.pghost["last_pop"]
        g, sch = dfsi_step(E, L.env["$K"].term, rest, v)
        defs += g
        sdefs += sch
    elems_c = lambda new: [Schema("stack-and-discovered", (Ref,), lambda r: And(Implies(r == stack, new(r) == DSk),
                                                                                 Implies(r == disc, new(r) == DDk)), trigger=("elems",))]
    return LoopInv(facts=[k >= 0, Or(Mem(DSk, E.start), Mem(DDk, E.start))], ground_defs=defs, defs=sdefs + E.reach_defs(E.start),
                   define={"$K": VInt(k)},
                   loose=loop_cache_loose(elems_c, (stack, disc)), out=Flt(E.fr, DDk),
                   schemas=[Schema("stacked-and-discovered-are-vertices", (Ref,), lambda x: Implies(
                       Or(Mem(DSk, x), Mem(DDk, x)), And(x != NONE, ct.is_a(x, "Vertex")))),
                       Schema("discovered-duplicate-free", (Ref,), lambda x: Cnt(DDk, x) <= 1)] + dfsi_set_invs(E, DSk, DDk))


@REG.loop("depthfirst.idft_iterative", 1)
def _(L):
    E = Env(L.st, L.engine.ct, L.args)
    S = L.st                       # heap when the neighbours of v start being pushed
    ct = L.engine.ct
    stack, disc = L.env["stack"].ref, L.env["discovered"].ref
    rest, dd = S.elems(stack), S.elems(disc)
    elems_c = lambda new: [Schema("stack-and-discovered", (Ref,), lambda r: And(Implies(r == stack, new(r) == cat(rest, L.prefix)),
                                                                                 Implies(r == disc, new(r) == dd)), trigger=("elems",))]
    return LoopInv(loose=loop_cache_loose(elems_c, (stack, disc)), defs=E.reach_defs(E.start))


REG.contract("depthfirst.dft_iterative", FUNC_PARAMS, props=("C06", "C07", "C12"))(list_form("depthfirst.idft_iterative"))


# =============================================================================================== depth first, recursive

RECUR_PARAMS = ("uni:Universe?, v:Vertex, *, visited:dict, direction_sensitive:int, unknown_handling:int, "
                "ff_via:cb:ff2=None, ff_result:cb:ffr=None")


def dfo(E: Env, x, V):
    return E.dfo_(E.uni, E.d, E.u, E.fv, x, V)


def dff(E: Env, p, x, V):
    return E.dff_(E.uni, E.d, E.u, E.fv, p, x, V)


def dfr_defs(E: Env, prefix, x, V):
    """unfolding of the recursive pre-order: dff([], x, V) = [x];  dff(p ++ [w]) = r ++ dfo(w, V ++ r) if w is an
    in-universe vertex not yet visited (not in V ++ r), else r;  dfo(x, V) = dff(N(x), x, V)"""
    fr = E.fr
    out = [dff(E, EMPTY(), x, V) == unit(x), T.flt(fr, dff(E, EMPTY(), x, V)) == Flt(fr, unit(x)),
           dfo(E, x, V) == dff(E, E.N(x), x, V)]
    sch = [Schema("dfr-base-count", (Ref,), lambda y: Cnt(dff(E, EMPTY(), x, V), y) == T.b2i(T.eq(x, y)))]
    parts = T._flat(prefix)
    if parts and T._is_unit(parts[-1]) and not T._is_empty(prefix):
        w = parts[-1].arg(0)
        head = cat(*parts[:-1])
        r = dff(E, head, x, V)
        take = And(E.inU(w), Not(Mem(V, w)), Not(Mem(r, w)))
        sub = dfo(E, w, cat(V, r))
        out.append(dff(E, prefix, x, V) == If(take, cat(r, sub), r))
        out.append(T.flt(fr, dff(E, prefix, x, V)) == If(take, cat(T.flt(fr, r), T.flt(fr, sub)), T.flt(fr, r)))
        sch.append(Schema("dfr-step-count", (Ref,), lambda y: Cnt(dff(E, prefix, x, V), y) == If(take, Cnt(r, y) + Cnt(sub, y), Cnt(r, y))))
    return out, sch


def dfr_set_facts(E: Env, out, x, V, scanned):
    """C06 for the recursive pre-order below x, started with visited keys V: the vertices listed are new, not repeated,
    reachable from x, and every in-universe neighbour of a listed vertex is listed or was visited before (for x itself, while
    its neighbours are being scanned: those of the scanned prefix)"""
    closed_x = (lambda w: BoolVal(True)) if scanned is None else (lambda w: Mem(scanned, w))
    return [Schema("listed-are-new-and-not-repeated", (Ref,), lambda y: Implies(Mem(out, y), And(Not(Mem(V, y)), Cnt(out, y) <= 1))),
            Schema("listed-are-reachable-from-the-root", (Ref,), lambda y: Implies(Mem(out, y), E.R(x, y))),
            Schema("listed-closed-up-to-visited", (Ref, Ref), lambda y, w: Implies(
                And(Mem(out, y), E.step(y, w), Or(y != x, closed_x(w))), Or(Mem(V, w), Mem(out, w))), pair_from=("NBf@",))]


@contract("depthfirst._dft_recur", RECUR_PARAMS, is_generator=True, props=("C06", "C07"), shards=8)
def _(c):
    E = Env(c.S, c.ct, c.args, start_key="v")
    S = c.S
    wellformed(c, E)
    vis = c.val("visited").ref
    V = S.read("dkeys", vis)
    c.requires(vis != NONE, "visited-is-a-dict")
    c.requires(Not(Mem(V, E.start)), "v-not-yet-visited")
    o = c.normal()
    out = dfo(E, E.start, V)
    o.set("dkeys", vis, cat(V, out))
    o.out(T.flt(E.fr, out))
    for sch in dfr_set_facts(E, out, E.start, V, None):
        o.fact_schema(sch)
    o.fact(Mem(out, E.start))
    cache_only_effects(o, S)
    may_exhaust_stack(c, S)


@REG.loop("depthfirst._dft_recur", 0)
def _(L):
    E = Env(L.st, L.engine.ct, L.args, start_key="v")
    S = L.st
    vis = L.args["visited"].ref
    V0 = L.pre.read("dkeys", vis)                   # visited keys when the call started
    x = E.start
    r = dff(E, L.prefix, x, V0)
    st = S.copy()
    st.write("dkeys", vis, cat(V0, r))
    defs, sdefs = dfr_defs(E, L.prefix, x, V0)
    sdefs = sdefs + E.reach_defs(x)
    # transitivity through the neighbour whose subtree was just listed (Relation.ReflTransGen.head)
    sdefs.append(Schema("Reach-head", (Ref, Ref), lambda w, y: Implies(And(E.step(x, w), E.R(w, y)), E.R(x, y)), trigger=("product",)))
    return LoopInv(state=st, ground_defs=defs, defs=sdefs, loose=loop_cache_loose(None), out=T.flt(E.fr, r),
                   facts=[Mem(r, x)], schemas=dfr_set_facts(E, r, x, V0, L.prefix))


@contract("depthfirst.idft_recursive", FUNC_PARAMS, is_generator=True, props=("C06", "C07"))
def _(c):
    E = Env(c.S, c.ct, c.args)
    S = c.S
    wellformed(c, E)
    bad = And(E.uni != NONE, Or(Len(S.members(E.uni)) == 0, Not(Mem(S.members(E.uni), E.start))))
    c.raises("ValueError", when=bad, label="empty-or-start-outside")
    o = c.normal(when=Not(bad), label="listing")
    o.out(T.flt(E.fr, dfo(E, E.start, EMPTY())))
    listing_set_facts(o, E, dfo(E, E.start, EMPTY()), E.start)
    cache_only_effects(o, S)
    may_exhaust_stack(c, S)


REG.contract("depthfirst.dft_recursive", FUNC_PARAMS, props=("C06", "C07", "C12"))(list_form("depthfirst.idft_recursive"))


# =============================================================================================== searches (C08)

SEARCH_PARAMS = "uni:Universe?, start:Vertex, attrib:str, val:any"


def match(S, x, attrib, val):
    """the vertex has the named attribute with a value equal (==) to the one sought; nothing else about x matters"""
    from pyvc.ops import py_eq
    has = Or(S.read("dyn_has", x, attrib), T.cls_has(T.cls_of(x), attrib))
    got = ite(S.read("dyn_has", x, attrib), S.read("dyn_val", x, attrib), T.cls_get(x, attrib))
    return And(has, py_eq(got, val))


def search_env(S, ct, args):
    a = dict(args)
    return Env(S, ct, a)


def nomatch(S, seq, attrib, val, name="nothing-listed-so-far-matches"):
    return Schema(name, (Ref,), lambda x: Implies(Mem(seq, x), Not(match(S, x, attrib, val))))


@contract("breadthfirst.bfs", SEARCH_PARAMS, props=("C08",), shards=10)
def _(c):
    E = search_env(c.S, c.ct, c.args)
    S = c.S
    wellformed(c, E)
    attrib, val = c.attrib, c.val("val").term
    empty = And(E.uni != NONE, Len(S.members(E.uni)) == 0)
    outside = And(E.uni != NONE, Not(empty), Not(Mem(S.members(E.uni), E.start)))
    m0 = match(S, E.start, attrib, val)
    c.normal(when=empty, result=NONE_V, label="empty-universe")
    c.raises("ValueError", when=outside, label="start-outside-universe")
    c.normal(when=And(Not(empty), Not(outside), m0), result=VRef(E.start, "Vertex"), label="start-matches")
    # the search drives the canonical BFS machine; ghosts describe where it stopped
    K = c.ghost("K", Int)
    done, rest, P, SUF = c.ghost("done", RSeq), c.ghost("rest", RSeq), c.ghost("P", RSeq), c.ghost("SUF", RSeq)
    U = c.ghost("u", Ref)
    res = c.ghost("$result", Ref)
    o = c.normal(when=And(Not(empty), Not(outside), Not(m0)), label="searched")
    o.result(VRef(res, "Vertex"))
    listed = cat(E.A(K), E.np(P, E.A(K)))
    o.fact(Or(
        # nothing matches: the machine ran to completion
        And(res == NONE, Len(E.A(K)) == K),
        # or: U = A(K)[K] is being expanded, res is the neighbour examined next, in the universe, and it matches
        And(res != NONE, E.A(K) == cat(done, unit(U), rest), Len(done) == K, E.N(U) == cat(P, unit(res), SUF),
            E.inU(res), match(S, res, attrib, val))))
    o.fact_schema(Schema("nothing-listed-before-matches", (Ref,), lambda x: Implies(
        Mem(ite(res == NONE, E.A(K), listed), x), Not(match(S, x, attrib, val)))))
    cache_only_effects(o, S)


@REG.loop("breadthfirst.bfs", 0)
def _(L):
    E = search_env(L.st, L.engine.ct, L.args)
    attrib, val = L.args["attrib"].term, L.args["val"].term
    return bfs_outer_inv(L, E, with_out=False, extra=lambda acc: [nomatch(L.st, acc, attrib, val)])


@REG.loop("breadthfirst.bfs", 1)
def _(L):
    E = search_env(L.st, L.engine.ct, L.args)
    attrib, val = L.args["attrib"].term, L.args["val"].term
    return bfs_inner_inv(L, E, with_out=False, extra=lambda acc: [nomatch(L.st, acc, attrib, val)])


@contract("depthfirst.dfs_iterative", SEARCH_PARAMS, props=("C08",), shards=5)
def _(c):
    E = search_env(c.S, c.ct, c.args)
    S = c.S
    wellformed(c, E)
    attrib, val = c.attrib, c.val("val").term
    bad = And(E.uni != NONE, Or(Len(S.members(E.uni)) == 0, Not(Mem(S.members(E.uni), E.start))))
    c.raises("ValueError", when=bad, label="empty-or-start-outside")
    K, rest = c.ghost("K", Int), c.ghost("rest", RSeq)
    res = c.ghost("$result", Ref)
    DS, DD = E.DS_(*E.key, K), E.DD_(*E.key, K)
    o = c.normal(when=Not(bad), label="searched")
    o.result(VRef(res, "Vertex"))
    o.fact(Or(
        And(res == NONE, DS == EMPTY()),                               # the machine ran to completion, nothing matched
        And(res != NONE, DS == cat(rest, unit(res)), Not(Mem(DD, res)), E.inU(res),      # res is the vertex listed next
            match(S, res, attrib, val))))
    o.fact_schema(nomatch(S, DD, attrib, val, "nothing-listed-before-matches"))
    cache_only_effects(o, S)


@REG.loop("depthfirst.dfs_iterative", 0)
def _(L):
    E = search_env(L.st, L.engine.ct, L.args)
    attrib, val = L.args["attrib"].term, L.args["val"].term
    S = L.st
    ct = L.engine.ct
    stack, disc = L.env["stack"].ref, L.env["discovered"].ref
    if L.phase == "entry":
        k = z3.IntVal(0)
    elif L.phase == "assume":
        k = L.k
    else:
        k = L.env["$K"].term + 1
    DSk, DDk = E.DS_(*E.key, k), E.DD_(*E.key, k)
    defs, sdefs = dfsi_defs(E), []
    if L.phase == "check":
        v, rest = L.pghost["last_pop"]
        g, sch = dfsi_step(E, L.env["$K"].term, rest, v)
        defs += g
        sdefs += sch
    elems_c = lambda new: [Schema("stack-and-discovered", (Ref,), lambda r: And(Implies(r == stack, new(r) == DSk),
                                                                                 Implies(r == disc, new(r) == DDk)), trigger=("elems",))]
    return LoopInv(facts=[k >= 0], ground_defs=defs, defs=sdefs, define={"$K": VInt(k)},
                   loose=loop_cache_loose(elems_c, (stack, disc)),
                   schemas=[Schema("stacked-and-discovered-are-vertices", (Ref,), lambda x: Implies(
                       Or(Mem(DSk, x), Mem(DDk, x)), And(x != NONE, ct.is_a(x, "Vertex")))),
                       Schema("discovered-duplicate-free", (Ref,), lambda x: Cnt(DDk, x) <= 1),
                       nomatch(S, DDk, attrib, val)])


@REG.loop("depthfirst.dfs_iterative", 1)
def _(L):
    S = L.st
    stack, disc = L.env["stack"].ref, L.env["discovered"].ref
    rest, dd = S.elems(stack), S.elems(disc)
    elems_c = lambda new: [Schema("stack-and-discovered", (Ref,), lambda r: And(Implies(r == stack, new(r) == cat(rest, L.prefix)),
                                                                                 Implies(r == disc, new(r) == dd)), trigger=("elems",))]
    return LoopInv(loose=loop_cache_loose(elems_c, (stack, disc)))


# ---- recursive search: first match of the recursive pre-order ------------------------------------------------------


def dfm_funcs(E: Env):
    hk = E.hk
    dfm_ = z3.Function(f"DFSr_firstmatch@{hk}", Ref, Int, Int, Ref, T.Str, Ref, Ref, RSeq, Ref)        # uni,d,u,fv, attrib,val, x, V
    dffm_ = z3.Function(f"DFSr_firstmatch_fold@{hk}", Ref, Int, Int, Ref, T.Str, Ref, RSeq, Ref, RSeq, Ref)  # ..., p, x, V
    return dfm_, dffm_


def dfm_defs(E: Env, S, attrib, val, prefix, x, V, whole=None, elem=None):
    """first match strictly below x in the recursive pre-order (same recursion as dfo / dff):
       dffm([], x, V) = None;   dffm(p ++ [w]) = dffm(p) if that is not None, else (w not taken -> None;
       w taken -> w if it matches, else dfm(w, V ++ dff(p)));   dfm(x, V) = dffm(N(x), x, V)"""
    dfm_, dffm_ = dfm_funcs(E)
    k = (E.uni, E.d, E.u, E.fv, attrib, val)

    def dfm(y, W):
        return dfm_(*k, y, W)

    def dffm(p, y, W):
        return dffm_(*k, p, y, W)
    out = [dffm(EMPTY(), x, V) == NONE, dfm(x, V) == dffm(E.N(x), x, V)]
    parts = T._flat(prefix)
    if parts and T._is_unit(parts[-1]) and not T._is_empty(prefix):
        w = parts[-1].arg(0)
        head = cat(*parts[:-1])
        m, r = dffm(head, x, V), dff(E, head, x, V)
        take = And(E.inU(w), Not(Mem(V, w)), Not(Mem(r, w)))
        out.append(dffm(prefix, x, V) == If(m != NONE, m, If(take, If(match(S, w, attrib, val), w, dfm(w, cat(V, r))), NONE)))
    if elem is not None:
        # a match found while scanning a prefix is the match of the whole scan (Lean: firstmatch_fold_persists)
        pw = snoc(prefix, elem)
        out.append(Implies(dffm(pw, x, V) != NONE, dffm(whole, x, V) == dffm(pw, x, V)))
        m, r = dffm(prefix, x, V), dff(E, prefix, x, V)
        take = And(E.inU(elem), Not(Mem(V, elem)), Not(Mem(r, elem)))
        out.append(dffm(pw, x, V) == If(m != NONE, m, If(take, If(match(S, elem, attrib, val), elem, dfm(elem, cat(V, r))), NONE)))
    return out, dfm, dffm


@contract("depthfirst._dfs_recur", "uni:Universe?, v:Vertex, visited:dict, attrib:str, val:any", props=("C08",), shards=5)
def _(c):
    E = Env(c.S, c.ct, c.args, start_key="v")
    S = c.S
    wellformed(c, E)
    attrib, val = c.attrib, c.val("val").term
    vis = c.val("visited").ref
    V = S.read("dkeys", vis)
    c.requires(vis != NONE, "visited-is-a-dict")
    c.requires(Not(Mem(V, E.start)), "v-not-yet-visited")
    _defs, dfm, _dffm = dfm_defs(E, S, attrib, val, EMPTY(), E.start, V)
    res = c.ghost("$result", Ref)
    o = c.normal(label="searched")
    o.result(VRef(res, "Vertex"))
    o.fact(res == dfm(E.start, V))
    # when nothing below v matches, the whole subtree of v has been visited (in pre-order)
    o.loose("dkeys", lambda new, old, *_: [Schema("visited-after-unsuccessful-search", (Ref,), lambda r: If(
        r == vis, Implies(res == NONE, new(r) == cat(V, dfo(E, E.start, V))), new(r) == old(r)), trigger=("dkeys",))])
    cache_only_effects(o, S)
    may_exhaust_stack(c, S)


@REG.loop("depthfirst._dfs_recur", 0)
def _(L):
    E = Env(L.st, L.engine.ct, L.args, start_key="v")
    S = L.st
    attrib, val = L.args["attrib"].term, L.args["val"].term
    vis = L.args["visited"].ref
    V0 = L.pre.read("dkeys", vis)
    x = E.start
    r = dff(E, L.prefix, x, V0)
    st = S.copy()
    st.write("dkeys", vis, cat(V0, r))
    defs, sdefs = dfr_defs(E, L.prefix, x, V0)
    mdefs, dfm, dffm = dfm_defs(E, S, attrib, val, L.prefix, x, V0, L.seq, L.elem)
    return LoopInv(state=st, facts=[dffm(L.prefix, x, V0) == NONE], ground_defs=defs + mdefs, defs=sdefs,
                   loose=loop_cache_loose(None))


@contract("depthfirst.dfs_recursive", SEARCH_PARAMS, props=("C08",))
def _(c):
    E = search_env(c.S, c.ct, c.args)
    S = c.S
    wellformed(c, E)
    attrib, val = c.attrib, c.val("val").term
    bad = And(E.uni != NONE, Or(Len(S.members(E.uni)) == 0, Not(Mem(S.members(E.uni), E.start))))
    c.raises("ValueError", when=bad, label="empty-or-start-outside")
    m0 = match(S, E.start, attrib, val)
    c.normal(when=And(Not(bad), m0), result=VRef(E.start, "Vertex"), label="start-matches")
    _defs, dfm, _dffm = dfm_defs(E, S, attrib, val, EMPTY(), E.start, EMPTY())
    o = c.normal(when=And(Not(bad), Not(m0)), result=VRef(dfm(E.start, EMPTY()), "Vertex"), label="searched")
    cache_only_effects(o, S)
    o.loose("dkeys", lambda new, old, *_: [])
    may_exhaust_stack(c, S)
