"""Contracts of edgegraph.builder (explicit: C01, C03, C05; adjacency builders and randgraph: C11, C20)."""
from __future__ import annotations
import z3
from z3 import And, Or, Not, Implies, BoolVal, If
from pyvc import terms as T
from pyvc.terms import Ref, Int, RSeq, NONE, Cnt, Mem, Len, snoc, cat, ite, Nth, EMPTY, Without, Rem1, Minus, unit
from pyvc.contracts import REG, Schema, LoopInv, Loose
from pyvc.values import *
from .common import *
from .structure import assoc_invs, link_init_effects, base_init_effects, memo_shrinks_unless
from .helpers import two_ended_links, heap_key

contract = REG.contract


def FJ(S):
    """first link of the sequence s whose other end (seen from a) is b, or None"""
    return z3.Function(f"FJ@{heap_key(S)}", RSeq, Ref, Ref, Ref)


def fj_defs(S, prefix, a, b, whole=None, elem=None, suffix=None):
    fj = FJ(S)
    out = [fj(EMPTY(), a, b) == NONE]
    parts = T._flat(prefix)
    if parts and T._is_unit(parts[-1]) and not T._is_empty(prefix):
        l = parts[-1].arg(0)
        head = cat(*parts[:-1])
        out.append(fj(prefix, a, b) == If(fj(head, a, b) != NONE, fj(head, a, b), If(S.other(l, a) == b, l, NONE)))
    if elem is not None:
        out.append(fj(whole, a, b) == If(fj(prefix, a, b) != NONE, fj(prefix, a, b),
                                         If(S.other(elem, a) == b, elem, fj(suffix, a, b))))
    return out


@contract("explicit.link_from_to", "v1:Vertex, lnktype:cls<=TwoEndedLink, v2:Vertex?, dontdup:bool=False",
          props=("C01", "C03", "C05", "C11"))
def _(c):
    S, a, b, Tt, dd = c.S, c.v1, c.v2, c.lnktype, c.dontdup
    ct = c.ct
    assoc_invs(c)
    c.assume_inv(Schema("links-are-two-ended-if-dontdup", (Ref,),
                        lambda l: Implies(dd, two_ended_links(S, ct, a).fn(l))))
    found = FJ(S)(S.links(a), a, b)
    if c.site == "monitor":
        from .helpers import all_prefixes
        for pr in [EMPTY()] + all_prefixes(S.links(a)):
            c.spec.defs += fj_defs(S, pr, a, b)
    # dontdup and a joining link exists: that link (the first in link order), nothing created, nothing changed
    c.normal(when=And(dd, found != NONE), result=VRef(found, "TwoEndedLink"), label="existing")
    # otherwise exactly the effect of T(a, b)
    o = c.normal(when=Not(And(dd, found != NONE)), label="created")
    l = o.fresh(Tt, "link")
    base_init_effects(c, o, l, z3.IntVal(0), NONE, T.EMPTY())
    link_init_effects(c, o, l, T.seq_of(a, b))
    o.result(VRef(l, "TwoEndedLink"))


@REG.loop("explicit.link_from_to", 0)
def _(L):
    S, A = L.st, L.args
    a, b = A["v1"].term, A["v2"].term
    defs = fj_defs(S, L.prefix, a, b, L.seq, L.elem, getattr(L, "suffix", None))
    return LoopInv(facts=[FJ(S)(L.prefix, a, b) == NONE], ground_defs=defs)


@contract("explicit.link_directed", "v1:Vertex, v2:Vertex?, dontdup:bool=False", props=("C01", "C03", "C05"))
def _(c):
    _link_typed(c, "DirectedEdge")


@contract("explicit.link_undirected", "v1:Vertex, v2:Vertex?, dontdup:bool=False", props=("C01", "C03", "C05"))
def _(c):
    _link_typed(c, "UnDirectedEdge")


def _link_typed(c, cname):
    c.args["lnktype"] = VCls(c.ct.c(cname), cname)
    REG.contracts["explicit.link_from_to"].fn(c)


@contract("explicit.unlink", "v1:Vertex, v2:Vertex, destroy:bool=True", props=("C01", "C03", "C05", "C09"))
def _(c):
    S, a, b, destroy = c.S, c.v1, c.v2, c.destroy
    ct = c.ct
    assoc_invs(c)
    c.assume_inv(two_ended_links(S, ct, a))
    c.assume_inv(I1_sym(S, ct))

    def J(l):          # the links joining a and b: every type, both directions
        return And(Mem(S.links(a), l), S.other(l, a) == b)
    p = c.enum_where(J, "joining")
    for keep in (False, True):
        o = c.normal(when=(Not(destroy) if keep else destroy), label="returned" if keep else "destroyed")
        o.set_where("_vertices", lambda ad: (J(ad[0]), Without(Without(S.ends(ad[0]), a), b)))
        o.set("_links", a, Minus(S.links(a), p))
        o.set("_links", b, Minus(S.links(b), p), when=b != a)
        o.loose("memo_has", memo_shrinks_unless(lambda x, l: And(Or(x == a, x == b), J(l))))
        stats_monotone(o)
        if keep:
            r = o.fresh("<container>", "out")
            o.set_where("setmem", lambda ad, r=r: (T.eq(ad[0], r), J(ad[1])))
            o.result(VSet(r, "TwoEndedLink"))


@REG.loop("explicit.unlink", 0)
def _(L):
    E, A = L.st, L.args
    a, b, destroy = A["v1"].term, A["v2"].term, A["destroy"].term
    pre = L.prefix
    st = E.copy()
    st.write_where("_vertices", lambda ad: (Mem(pre, ad[0]), Without(Without(E.ends(ad[0]), a), b)))
    st.write("_links", a, Minus(E.links(a), pre))
    st.write("_links", b, Minus(E.links(b), pre), when=b != a)
    if "out" in L.env and isinstance(L.env["out"], VSet):
        r = L.env["out"].ref
        st.write_where("setmem", lambda ad: (T.eq(ad[0], r), Mem(pre, ad[1])))
    return LoopInv(state=st, loose=[
        Loose("memo_has", memo_shrinks_unless(lambda x, l: And(Or(x == a, x == b), Mem(pre, l)))),
        Loose("stats_has", lambda new, old, *_: [Schema("stats-monotone", (Int,), lambda u: Implies(old(u), new(u)), trigger=("stats_has",))])])


@REG.loop("explicit.unlink", 1)
def _(L):
    # `del llinks[i]` from the back: only the local list shrinks (its content is irrelevant)
    E = L.st
    ll = L.env["llinks"].ref
    n0 = Len(E.elems(ll))
    k = L.k

    def c_elems(new, old, *_):
        return [Schema("only-the-local-list-shrinks", (Ref,),
                       lambda x: If(x == ll, Len(new(x)) == n0 - k, new(x) == old(x)), trigger=("elems",))]
    return LoopInv(loose=[Loose("elems", c_elems)], facts=[k >= 0, k <= n0])


# =============================================================================================== adjacency builders (C11)
from .structure import uni_invs   # noqa: E402


class AdjEnv:
    """spec vocabulary of load_adj_dict for one adjacency argument `a`:
         keys K (dict order), row(k); created(k, j) = the link made for the j-th entry of row(k) (existential witness family,
         with inverse cell_key / cell_idx); M(p) = the vertices mentioned while processing the key prefix p, in order;
         inc_rows(x, p) / inc_row(x, k, q) = the created links incident to x, in creation order"""

    def __init__(self, a):
        tag = str(a)
        self.a = a
        self.K = T.adj_keys(a)
        self.created = z3.Function(f"created@{tag}", Ref, Int, Ref)
        self.cell_key = z3.Function(f"cell_key@{tag}", Ref, Ref)
        self.cell_idx = z3.Function(f"cell_idx@{tag}", Ref, Int)
        self.M_ = z3.Function(f"mention@{tag}", RSeq, RSeq)
        self.inck_ = z3.Function(f"inc_rows@{tag}", Ref, RSeq, RSeq)
        self.incq_ = z3.Function(f"inc_row@{tag}", Ref, Ref, RSeq, RSeq)

    def row(self, k):
        return T.adj_row(self.a, k)

    def is_created(self, l):
        return self.created(self.cell_key(l), self.cell_idx(l)) == l

    def done(self, l, p, k=None, q=None):
        """l is one of the links created while processing the key prefix p (and the prefix q of row(k))"""
        ck, cj = self.cell_key(l), self.cell_idx(l)
        full = And(Mem(p, ck), cj >= 0, cj < Len(self.row(ck)))
        if k is None:
            return And(self.is_created(l), full)
        return And(self.is_created(l), Or(full, And(ck == k, cj >= 0, cj < Len(q))))

    def mentioned(self, p, k=None, q=None):
        m = self.M_(p)
        return m if k is None else cat(m, unit(k), q)

    def incident(self, x, p, k=None, q=None):
        r = self.inck_(x, p)
        return r if k is None else cat(r, self.incq_(x, k, q))

    def defs_outer(self, p):
        out = [self.M_(EMPTY()) == EMPTY()]
        parts = T._flat(p)
        if parts and T._is_unit(parts[-1]) and not T._is_empty(p):
            k = parts[-1].arg(0)
            head = cat(*parts[:-1])
            out.append(self.M_(p) == cat(self.M_(head), unit(k), self.row(k)))
        return out

    def defs_outer_x(self, p):
        """schemas (per vertex x): inc_rows by snoc recursion"""
        sch = [Schema("inc_rows-nil", (Ref,), lambda x: self.inck_(x, EMPTY()) == EMPTY())]
        parts = T._flat(p)
        if parts and T._is_unit(parts[-1]) and not T._is_empty(p):
            k = parts[-1].arg(0)
            head = cat(*parts[:-1])
            sch.append(Schema("inc_rows-snoc", (Ref,), lambda x: self.inck_(x, p) == cat(self.inck_(x, head), self.incq_(x, k, self.row(k)))))
        return sch

    def defs_inner_x(self, k, q):
        sch = [Schema("inc_row-nil", (Ref,), lambda x: self.incq_(x, k, EMPTY()) == EMPTY())]
        parts = T._flat(q)
        if parts and T._is_unit(parts[-1]) and not T._is_empty(q):
            w = parts[-1].arg(0)
            head = cat(*parts[:-1])
            l = self.created(k, Len(head))
            sch.append(Schema("inc_row-snoc", (Ref,), lambda x: self.incq_(x, k, q) == If(Or(x == k, x == w), snoc(self.incq_(x, k, head), l), self.incq_(x, k, head))))
        return sch


def adj_post_state(A: AdjEnv, base: State_t, ct, u, Tcls, p, k=None, q=None):
    """the heap after processing key prefix p (and row prefix q of key k), as updates of `base` (the heap right after `Universe()`)"""
    st = base.copy()
    ment = A.mentioned(p, k, q)
    st.write("_vertices", u, T.Dedup(ment))                          # members: first mention order
    st.write_where("_universes", lambda ad: (And(ad[0] != u, Mem(ment, ad[0])), snoc(base.unis(ad[0]), u)))
    st.write_where("_links", lambda ad: (And(ad[0] != NONE, ct.is_a(ad[0], "Vertex")), cat(base.links(ad[0]), A.incident(ad[0], p, k, q))))
    st.write_where("_vertices", lambda ad: (A.done(ad[0], p, k, q),
                                            T.seq_of(A.cell_key(ad[0]), T.Nth(A.row(A.cell_key(ad[0])), A.cell_idx(ad[0])))))
    st.write_where("_universes", lambda ad: (A.done(ad[0], p, k, q), EMPTY()))
    return st


State_t = object


def created_facts(A: AdjEnv, S, ct, Tcls, p, k=None, q=None):
    """properties of the links created so far (schemas over l): new objects of the requested class, unknown to the old heap"""
    def f1(l):
        return Implies(A.done(l, p, k, q), And(l != NONE, T.cls_of(l) == Tcls, Not(S.read("dyn_has", l, z3.StringVal("?")))))

    def f2(x, l):
        return Implies(A.done(l, p, k, q), And(Not(Mem(S.links(x), l)), Not(Mem(S.ends(x), l)), Not(Mem(S.unis(x), l)), l != x if False else BoolVal(True)))
    return [Schema("created-links-are-of-the-requested-class", (Ref,), f1),
            Schema("created-links-are-new", (Ref, Ref), f2, trigger=("product",))]


# DRAFT (not registered for any property): the obligations of the two nested creation loops do not discharge within the solver
# budgets yet (existential family of created links + three fold specifications); see DESIGN.md 12.5.  C11 / C20 are not claimed.
@contract("adjlist.load_adj_dict", "adjdict:adj, linktype:cls<=TwoEndedLink=UnDirectedEdge", props=("C11-draft",), shards=6)
def _(c):
    S, ct, a, Tcls = c.S, c.ct, c.adjdict, c.linktype
    A = AdjEnv(a)
    assoc_invs(c)
    uni_invs(c)
    c.assume_inv(I1_sym(S, ct))
    c.assume_inv(TY_laws(S, ct))
    c.assume_inv(Schema("keys-are-distinct-vertices", (Ref,), lambda x: And(Cnt(A.K, x) <= 1, Implies(Mem(A.K, x), And(x != NONE, ct.is_a(x, "Vertex"))))))
    c.assume_inv(Schema("rows-hold-vertices", (Ref, Ref), lambda k, w: Implies(And(Mem(A.K, k), Mem(A.row(k), w)), And(w != NONE, ct.is_a(w, "Vertex"))),
                        pair_from=("adj_row",)))
    o = c.normal()
    u = o.fresh("Universe", "uni")
    Lw = o.fresh("UniverseLaws", "laws")
    # Universe(): empty, with its own fresh law set
    base = o.post
    base.write("_links", u, EMPTY())
    base.write("_universes", u, EMPTY())
    base.write("_vertices", u, EMPTY())
    base.write("_universes", Lw, EMPTY())
    base.write("_laws", u, Lw)
    base.write("_applies_to", Lw, u)
    o.o.post = adj_post_state(A, base, ct, u, Tcls, A.K)
    o.result(VRef(u, "Universe"))
    for sch in created_facts(A, S, ct, Tcls, A.K):
        o.fact_schema(sch)
    o.loose("_uid", lambda new, old, *_: [Schema("uids-of-old-objects-unchanged", (Ref,), lambda x: Implies(
        And(x != u, x != Lw, Not(A.done(x, A.K))), new(x) == old(x)), trigger=("_uid",))])
    for f_ in ("_mixed_links", "_cycles", "_multipath", "_multiverse", "_edge_whitelist"):
        o.loose(f_, lambda new, old, *_, f_=f_: [Schema("only-new-laws-written", (Ref,), lambda x: Implies(x != Lw, new(x) == old(x)), trigger=(f_,))])
    o.loose("memo_has", lambda new, old, *_: [Schema("memo-only-shrinks", MEMO_KEY, lambda v, d, uu, f: Implies(new(v, d, uu, f), old(v, d, uu, f)), trigger=("memo_has",))])
    stats_monotone(o)
    o.loose("dyn_has", lambda new, old, *_: [Schema("attributes-of-old-objects-unchanged", (Ref, T.Str), lambda x, n: Implies(
        And(x != u, x != Lw, Not(A.done(x, A.K))), new(x, n) == old(x, n)), trigger=("dyn_has",))])
    o.loose("dyn_val", lambda new, old, *_: [Schema("attribute-values-of-old-objects-unchanged", (Ref, T.Str), lambda x, n: Implies(
        And(x != u, x != Lw, Not(A.done(x, A.K))), new(x, n) == old(x, n)), trigger=("dyn_val",))])
    o.loose("init_count", lambda new, old, *_: [])
    o.loose("init_args", lambda new, old, *_: [])


def adj_loop_inv(L, k=None, q=None):
    """shared invariant of the two loops of load_adj_dict (k, q: the key being processed and the prefix of its row)"""
    ct = L.engine.ct
    a, Tcls = L.args["adjdict"].term, L.args["linktype"].term
    A = AdjEnv(a)
    u = L.env["uni"].term
    S0 = L.pre                                  # heap at function entry
    if k is None:
        E, p = L.st, L.prefix                   # heap right after Universe()
        L.engine._adj_base = E
    else:
        E = L.engine._adj_base
        p = L.env["$P"].term
    st = adj_post_state(A, E, ct, u, Tcls, p, k, q)
    Lw = E.laws(u)
    old_obj = lambda x: And(x != u, x != Lw, Not(A.done(x, p, k, q)))
    loose = [
        Loose("_uid", lambda new, old, *_: [Schema("uids-of-old-objects-unchanged", (Ref,), lambda x: Implies(old_obj(x), new(x) == S0.read("_uid", x)), trigger=("_uid",))]),
        Loose("memo_has", lambda new, old, *_: [Schema("memo-only-shrinks", MEMO_KEY, lambda v, d, uu, f: Implies(new(v, d, uu, f), S0.memo_has(v, d, uu, f)), trigger=("memo_has",))]),
        Loose("stats_has", lambda new, old, *_: [Schema("stats-monotone", (Int,), lambda n: Implies(S0.read("stats_has", n), new(n)), trigger=("stats_has",))]),
        Loose("dyn_has", lambda new, old, *_: [Schema("attributes-of-old-objects-unchanged", (Ref, T.Str), lambda x, n: Implies(old_obj(x), new(x, n) == S0.read("dyn_has", x, n)), trigger=("dyn_has",))]),
        Loose("dyn_val", lambda new, old, *_: [Schema("attribute-values-of-old-objects-unchanged", (Ref, T.Str), lambda x, n: Implies(old_obj(x), new(x, n) == S0.read("dyn_val", x, n)), trigger=("dyn_val",))]),
        Loose("init_count", lambda new, old, *_: []), Loose("init_args", lambda new, old, *_: []),
    ]
    inc = lambda x: A.incident(x, p, k, q)
    schemas = created_facts(A, S0, ct, Tcls, p, k, q) + [
        Schema("incident-links-are-created-here", (Ref, Ref), lambda x, l: Implies(Mem(inc(x), l), And(
            A.done(l, p, k, q), Or(x == A.cell_key(l), x == T.Nth(A.row(A.cell_key(l)), A.cell_idx(l))))), pair_from=("inc_row", "inc_rows")),
        Schema("incident-links-not-repeated", (Ref, Ref), lambda x, l: Cnt(inc(x), l) <= 1, pair_from=("inc_row", "inc_rows")),
        Schema("mentioned-are-vertices", (Ref,), lambda x: Implies(Mem(A.mentioned(p, k, q), x), And(x != NONE, ct.is_a(x, "Vertex"), x != u))),
    ]
    gdefs = A.defs_outer(p)
    sdefs = A.defs_outer_x(p)
    define = {}
    if k is None:
        define["$P"] = VSeq(p)
    else:
        sdefs = sdefs + A.defs_inner_x(k, q)
        if L.phase == "check":
            # witness for the existential family: the link this iteration created is created(k, |q0|)
            news = [r for (r, _c, kind) in L.path.allocs if kind == "obj"]
            if news:
                l_new = news[-1]
                q0 = cat(*T._flat(q)[:-1]) if T._is_concat(q) or T._is_unit(q) else q
                j = Len(q0)
                gdefs = gdefs + [A.created(k, j) == l_new, A.cell_key(l_new) == k, A.cell_idx(l_new) == j]
    return LoopInv(state=st, loose=loose, schemas=schemas, ground_defs=gdefs, defs=sdefs, define=define)


@REG.loop("adjlist.load_adj_dict", 0)
def _(L):
    return adj_loop_inv(L)


@REG.loop("adjlist.load_adj_dict", 1)
def _(L):
    return adj_loop_inv(L, L.env["v1"].term, L.prefix)
