"""Contracts of edgegraph.builder (explicit: C01, C03, C05; adjacency builders and randgraph: C11, C20)."""
from __future__ import annotations
import z3
from z3 import And, Or, Not, Implies, BoolVal, If
from pyvc import terms as T
from pyvc.terms import Ref, Int, RSeq, NONE, Cnt, Mem, Len, snoc, cat, ite, Nth, EMPTY, Without, Rem1, Minus, unit
from pyvc.contracts import REG, Schema, LoopInv, Loose
from pyvc.values import *
from .common import *
from .structure import assoc_invs, link_init_effects, base_init_effects, memo_shrinks_unless
from .helpers import two_ended_links, heap_key

contract = REG.contract


def FJ(S):
    """first link of the sequence s whose other end (seen from a) is b, or None"""
    return z3.Function(f"FJ@{heap_key(S)}", RSeq, Ref, Ref, Ref)


def fj_defs(S, prefix, a, b, whole=None, elem=None, suffix=None):
    fj = FJ(S)
    out = [fj(EMPTY(), a, b) == NONE]
    parts = T._flat(prefix)
    if parts and T._is_unit(parts[-1]) and not T._is_empty(prefix):
        l = parts[-1].arg(0)
        head = cat(*parts[:-1])
        out.append(fj(prefix, a, b) == If(fj(head, a, b) != NONE, fj(head, a, b), If(S.other(l, a) == b, l, NONE)))
    if elem is not None:
        out.append(fj(whole, a, b) == If(fj(prefix, a, b) != NONE, fj(prefix, a, b),
                                         If(S.other(elem, a) == b, elem, fj(suffix, a, b))))
    return out


@contract("explicit.link_from_to", "v1:Vertex, lnktype:cls<=TwoEndedLink, v2:Vertex?, dontdup:bool=False",
          props=("C01", "C03", "C05", "C11"))
def _(c):
    S, a, b, Tt, dd = c.S, c.v1, c.v2, c.lnktype, c.dontdup
    ct = c.ct
    assoc_invs(c)
    c.assume_inv(Schema("links-are-two-ended-if-dontdup", (Ref,),
                        lambda l: Implies(dd, two_ended_links(S, ct, a).fn(l))))
    found = FJ(S)(S.links(a), a, b)
    if c.site == "monitor":
        from .helpers import all_prefixes
        for pr in [EMPTY()] + all_prefixes(S.links(a)):
            c.spec.defs += fj_defs(S, pr, a, b)
    # dontdup and a joining link exists: that link (the first in link order), nothing created, nothing changed
    c.normal(when=And(dd, found != NONE), result=VRef(found, "TwoEndedLink"), label="existing")
    # otherwise exactly the effect of T(a, b)
    o = c.normal(when=Not(And(dd, found != NONE)), label="created")
    l = o.fresh(Tt, "link")
    base_init_effects(c, o, l, z3.IntVal(0), NONE, T.EMPTY())
    link_init_effects(c, o, l, T.seq_of(a, b))
    o.result(VRef(l, "TwoEndedLink"))


@REG.loop("explicit.link_from_to", 0)
def _(L):
    S, A = L.st, L.args
    a, b = A["v1"].term, A["v2"].term
    defs = fj_defs(S, L.prefix, a, b, L.seq, L.elem, getattr(L, "suffix", None))
    return LoopInv(facts=[FJ(S)(L.prefix, a, b) == NONE], ground_defs=defs)


@contract("explicit.link_directed", "v1:Vertex, v2:Vertex?, dontdup:bool=False", props=("C01", "C03", "C05"))
def _(c):
    _link_typed(c, "DirectedEdge")


@contract("explicit.link_undirected", "v1:Vertex, v2:Vertex?, dontdup:bool=False", props=("C01", "C03", "C05"))
def _(c):
    _link_typed(c, "UnDirectedEdge")


def _link_typed(c, cname):
    c.args["lnktype"] = VCls(c.ct.c(cname), cname)
    REG.contracts["explicit.link_from_to"].fn(c)


@contract("explicit.unlink", "v1:Vertex, v2:Vertex, destroy:bool=True", props=("C01", "C03", "C05", "C09"))
def _(c):
    S, a, b, destroy = c.S, c.v1, c.v2, c.destroy
    ct = c.ct
    assoc_invs(c)
    c.assume_inv(two_ended_links(S, ct, a))
    c.assume_inv(I1_sym(S, ct))

    def J(l):          # the links joining a and b: every type, both directions
        return And(Mem(S.links(a), l), S.other(l, a) == b)
    p = c.enum_where(J, "joining")
    for keep in (False, True):
        o = c.normal(when=(Not(destroy) if keep else destroy), label="returned" if keep else "destroyed")
        o.set_where("_vertices", lambda ad: (J(ad[0]), Without(Without(S.ends(ad[0]), a), b)))
        o.set("_links", a, Minus(S.links(a), p))
        o.set("_links", b, Minus(S.links(b), p), when=b != a)
        o.loose("memo_has", memo_shrinks_unless(lambda x, l: And(Or(x == a, x == b), J(l))))
        stats_monotone(o)
        if keep:
            r = o.fresh("<container>", "out")
            o.set_where("setmem", lambda ad, r=r: (T.eq(ad[0], r), J(ad[1])))
            o.result(VSet(r, "TwoEndedLink"))


@REG.loop("explicit.unlink", 0)
def _(L):
    E, A = L.st, L.args
    a, b, destroy = A["v1"].term, A["v2"].term, A["destroy"].term
    pre = L.prefix
    st = E.copy()
    st.write_where("_vertices", lambda ad: (Mem(pre, ad[0]), Without(Without(E.ends(ad[0]), a), b)))
    st.write("_links", a, Minus(E.links(a), pre))
    st.write("_links", b, Minus(E.links(b), pre), when=b != a)
    if "out" in L.env and isinstance(L.env["out"], VSet):
        r = L.env["out"].ref
        st.write_where("setmem", lambda ad: (T.eq(ad[0], r), Mem(pre, ad[1])))
    return LoopInv(state=st, loose=[
        Loose("memo_has", memo_shrinks_unless(lambda x, l: And(Or(x == a, x == b), Mem(pre, l)))),
        Loose("stats_has", lambda new, old, *_: [Schema("stats-monotone", (Int,), lambda u: Implies(old(u), new(u)), trigger=("stats_has",))])])


@REG.loop("explicit.unlink", 1)
def _(L):
    # `del llinks[i]` from the back: only the local list shrinks (its content is irrelevant)
    E = L.st
    ll = L.env["llinks"].ref
    n0 = Len(E.elems(ll))
    k = L.k

    def c_elems(new, old, *_):
        return [Schema("only-the-local-list-shrinks", (Ref,),
                       lambda x: If(x == ll, Len(new(x)) == n0 - k, new(x) == old(x)), trigger=("elems",))]
    return LoopInv(loose=[Loose("elems", c_elems)], facts=[k >= 0, k <= n0])


# =============================================================================================== adjacency builders (C11)
from .structure import uni_invs   # noqa: E402


class AdjEnv:
    """spec vocabulary of load_adj_dict for one adjacency argument `a` (all heap-independent, defined by snoc recursion):
         K = keys in dict order, row(k);
         M(p)            the vertices mentioned while processing the key prefix p: k1, row(k1)..., k2, row(k2)...
         SRCS(p), DSTS(p) the listed pairs, flattened in input order (sources: each key repeated once per entry of its row)
         gsrc(l), gdst(l) the pair a created link was made for (ghost attributes of the link, fixed at creation)
         MS(C), MD(C)    map gsrc / gdst over the sequence C of created links (creation order)
         INC(C, x)       the links of C incident to x, in creation order"""

    def __init__(self, a):
        tag = str(a)
        self.a = a
        self.K = T.adj_keys(a)
        self.gsrc = z3.Function(f"adj_src@{tag}", Ref, Ref)
        self.gdst = z3.Function(f"adj_dst@{tag}", Ref, Ref)
        self.MS = z3.Function(f"adj_map_src@{tag}", RSeq, RSeq)
        self.MD = z3.Function(f"adj_map_dst@{tag}", RSeq, RSeq)
        self.INC = z3.Function(f"adj_incident@{tag}", RSeq, Ref, RSeq)
        self.M_ = z3.Function(f"adj_mention@{tag}", RSeq, RSeq)
        self.SRCS_ = z3.Function(f"adj_sources@{tag}", RSeq, RSeq)
        self.DSTS_ = z3.Function(f"adj_targets@{tag}", RSeq, RSeq)
        self.SRCR_ = z3.Function(f"adj_row_sources@{tag}", Ref, RSeq, RSeq)

    def row(self, k):
        return T.adj_row(self.a, k)

    def mentioned(self, p, k=None, q=None):
        m = self.M_(p)
        return m if k is None else cat(m, unit(k), q)

    def sources(self, p, k=None, q=None):
        return self.SRCS_(p) if k is None else cat(self.SRCS_(p), self.SRCR_(k, q))

    def targets(self, p, k=None, q=None):
        return self.DSTS_(p) if k is None else cat(self.DSTS_(p), q)

    @staticmethod
    def _snoc(sq):
        parts = T._flat(sq)
        if parts and T._is_unit(parts[-1]) and not T._is_empty(sq):
            return cat(*parts[:-1]), parts[-1].arg(0)
        return None

    def defs_input(self, p, k=None, q=None):
        """defining equations of the input functions for the prefixes at hand (ground)"""
        out = [self.M_(EMPTY()) == EMPTY(), self.SRCS_(EMPTY()) == EMPTY(), self.DSTS_(EMPTY()) == EMPTY()]
        sp = self._snoc(p)
        if sp:
            head, kk = sp
            out += [self.M_(p) == cat(self.M_(head), unit(kk), self.row(kk)),
                    self.SRCS_(p) == cat(self.SRCS_(head), self.SRCR_(kk, self.row(kk))),
                    self.DSTS_(p) == cat(self.DSTS_(head), self.row(kk))]
        if k is not None:
            out.append(self.SRCR_(k, EMPTY()) == EMPTY())
            sq = self._snoc(q)
            if sq:
                head, _w = sq
                out.append(self.SRCR_(k, q) == snoc(self.SRCR_(k, head), k))
        return out

    def defs_created(self, C):
        """defining equations of MS / MD / INC for the sequence C = C0 ++ [l1, ..., ln] (n >= 0 trailing units)
        -> (ground facts, schemas over x)"""
        g = [self.MS(EMPTY()) == EMPTY(), self.MD(EMPTY()) == EMPTY()]
        sch = [Schema("incident-nil", (Ref,), lambda x: self.INC(EMPTY(), x) == EMPTY(), filter=True)]
        cur = C
        for _i in range(4):
            sp = self._snoc(cur)
            if not sp:
                break
            head, l = sp
            g += [self.MS(cur) == snoc(self.MS(head), self.gsrc(l)), self.MD(cur) == snoc(self.MD(head), self.gdst(l))]
            sch.append(Schema("incident-snoc", (Ref,), lambda x, cur=cur, head=head, l=l: self.INC(cur, x) == If(
                Or(x == self.gsrc(l), x == self.gdst(l)), snoc(self.INC(head, x), l), self.INC(head, x))))
            # the same equation at the level of counting (the solver only has congruence for cnt)
            sch.append(Schema("incident-snoc-count", (Ref, Ref), lambda x, y, cur=cur, head=head, l=l: Cnt(self.INC(cur, x), y) == If(
                Or(x == self.gsrc(l), x == self.gdst(l)), Cnt(self.INC(head, x), y) + T.b2i(T.eq(y, l)), Cnt(self.INC(head, x), y)),
                pair_from=("adj_incident@",)))
            cur = head
        return g, sch


def members_of(name, seq, fn, extra_units=()):
    """schema over the references whose count in `seq` is mentioned (plus the unit elements of seq)"""
    parts = tuple(t for t in T._flat(seq) if not (T._is_unit(t) or T._is_empty(t) or T._is_concat(t)))
    units = tuple(t.arg(0) for t in T._flat(seq) if T._is_unit(t)) + tuple(extra_units)
    return Schema(name, (Ref,), fn, trigger=("cnt-args", parts, units))


def adj_post_state(A: AdjEnv, base, ct, u, C, ment):
    """the heap after creating the links C for the mentioned vertices `ment`, as updates of `base` (the heap right after
    `Universe()`): first-mention membership, one more universe for every mentioned vertex, the created links appended to the
    link lists of their ends in creation order, nothing else"""
    st = base.copy()
    st.write("_vertices", u, T.Dedup(ment))
    st.write_where("_universes", lambda ad: (And(ad[0] != u, Mem(ment, ad[0])), snoc(base.unis(ad[0]), u)))
    st.write_where("_links", lambda ad: (And(ad[0] != NONE, ct.is_a(ad[0], "Vertex")), cat(base.links(ad[0]), A.INC(C, ad[0]))))
    st.write_where("_vertices", lambda ad: (Mem(C, ad[0]), T.seq_of(A.gsrc(ad[0]), A.gdst(ad[0]))))
    st.write_where("_universes", lambda ad: (Mem(C, ad[0]), EMPTY()))
    return st


def created_facts(A: AdjEnv, S, ct, Tcls, C, ment, u, Lw):
    """what is known about the created links C (S = heap at function entry; u, Lw: the new universe and its law set)"""
    def f1(l):
        return Implies(Mem(C, l), And(
            l != NONE, T.cls_of(l) == Tcls, Cnt(C, l) == 1,
            A.gsrc(l) != NONE, ct.is_a(A.gsrc(l), "Vertex"), A.gdst(l) != NONE, ct.is_a(A.gdst(l), "Vertex"),
            Mem(ment, A.gsrc(l)), Mem(ment, A.gdst(l)),
            Mem(A.INC(C, A.gsrc(l)), l), Mem(A.INC(C, A.gdst(l)), l)))

    def f2(x, l):
        return And(Cnt(A.INC(C, x), l) <= 1,
                   Implies(Mem(A.INC(C, x), l), And(Mem(C, l), Or(x == A.gsrc(l), x == A.gdst(l)))))

    def f3(x, l):
        # nothing that existed at entry refers to a created link (x ranges over the objects that existed at entry)
        return Implies(And(Mem(C, l), x != u, x != Lw, Not(Mem(C, x))), And(Not(Mem(S.links(x), l)), Not(Mem(S.ends(x), l)), Not(Mem(S.unis(x), l))))
    return [members_of("created-links:-class,-distinct,-ends-mentioned,-listed-at-both-ends", C, f1),
            Schema("incident-lists-hold-created-links-once", (Ref, Ref), f2, pair_from=("adj_incident@",)),
            Schema("created-links-are-new", (Ref, Ref), f3, pair_from=("_links@", "_vertices@", "_universes@"))]


@contract("adjlist.load_adj_dict", "adjdict:adj, linktype:cls<=TwoEndedLink=UnDirectedEdge", props=("C11", "C20"), shards=8, oracle_op=True)
def _(c):
    S, ct, a, Tcls = c.S, c.ct, c.adjdict, c.linktype
    A = AdjEnv(a)
    assoc_invs(c)
    uni_invs(c)
    c.assume_inv(I1_sym(S, ct))
    c.assume_inv(TY_laws(S, ct))
    c.requires(Not(T.sub(Tcls, ct.c("Vertex"))), "link-type-is-not-a-vertex-type")
    c.assume_inv(Schema("keys-are-distinct-vertices", (Ref,), lambda x: And(Cnt(A.K, x) <= 1, Implies(Mem(A.K, x), And(x != NONE, ct.is_a(x, "Vertex"))))))
    c.assume_inv(Schema("rows-hold-vertices", (Ref, Ref), lambda k, w: Implies(And(Mem(A.K, k), Mem(A.row(k), w)), And(w != NONE, ct.is_a(w, "Vertex"))),
                        pair_from=("adj_row",)))
    o = c.normal()
    u = o.fresh("Universe", "uni")
    Lw = o.fresh("UniverseLaws", "laws")
    C = c.ghost("C", RSeq)                      # the created links, in creation order
    # Universe(): empty, with its own fresh law set
    base = o.post
    base.write("_links", u, EMPTY())
    base.write("_universes", u, EMPTY())
    base.write("_vertices", u, EMPTY())
    base.write("_universes", Lw, EMPTY())
    base.write("_laws", u, Lw)
    base.write("_applies_to", Lw, u)
    ment = A.mentioned(A.K)
    o.o.post = adj_post_state(A, base, ct, u, C, ment)
    o.result(VRef(u, "Universe"))
    # exactly one link per listed pair, key -> value, in input order
    o.fact(A.MS(C) == A.sources(A.K))
    o.fact(A.MD(C) == A.targets(A.K))
    for sch in created_facts(A, S, ct, Tcls, C, ment, u, Lw):
        o.fact_schema(sch)
    old_obj = lambda x: And(x != u, x != Lw, Not(Mem(C, x)))
    o.loose("_uid", lambda new, old, *_: [Schema("uids-of-old-objects-unchanged", (Ref,), lambda x: Implies(old_obj(x), new(x) == old(x)), trigger=("_uid",))])
    for f_ in ("_mixed_links", "_cycles", "_multipath", "_multiverse", "_edge_whitelist"):
        o.loose(f_, lambda new, old, *_, f_=f_: [Schema("only-new-laws-written", (Ref,), lambda x: Implies(x != Lw, new(x) == old(x)), trigger=(f_,))])
    o.loose("memo_has", lambda new, old, *_: [Schema("memo-only-shrinks", MEMO_KEY, lambda v, d, uu, f: Implies(new(v, d, uu, f), old(v, d, uu, f)), trigger=("memo_has",))])
    stats_monotone(o)
    o.loose("dyn_has", lambda new, old, *_: [Schema("attributes-of-old-objects-unchanged", (Ref, T.Str), lambda x, n: Implies(
        old_obj(x), new(x, n) == old(x, n)), trigger=("dyn_has",))])
    o.loose("dyn_val", lambda new, old, *_: [Schema("attribute-values-of-old-objects-unchanged", (Ref, T.Str), lambda x, n: Implies(
        old_obj(x), new(x, n) == old(x, n)), trigger=("dyn_val",))])
    o.loose("init_count", lambda new, old, *_: [])
    o.loose("init_args", lambda new, old, *_: [])


def adj_loop_inv(L, k=None, q=None):
    """shared invariant of the two loops of load_adj_dict (k, q: the key being processed and the processed prefix of its row)"""
    ct = L.engine.ct
    a, Tcls = L.args["adjdict"].term, L.args["linktype"].term
    A = AdjEnv(a)
    u = L.env["uni"].term
    S0 = L.pre                                  # heap at function entry
    if k is None:
        E, p = L.st, L.prefix                   # E: heap right after Universe()
        L.engine._adj_base = E
    else:
        E = L.engine._adj_base
        p = L.env["$P"].term
    # the ghost sequence of created links: existential at the loop head, extended by this iteration's allocations at its end
    if L.phase == "entry":
        C = EMPTY() if k is None else L.env["$C"].term
    elif L.phase in ("assume", "exit"):
        C = T.fresh("created", RSeq)
    else:
        C = L.env["$C"].term
        mark = L.engine._loop_alloc_mark.get(id(L.ls), 0) if hasattr(L, "ls") else None
        news = [r for (r, _c, kind) in (L.path.allocs[mark:] if mark is not None else []) if kind == "obj"]
        for r in news:
            C = snoc(C, r)
    ment = A.mentioned(p, k, q)
    st = adj_post_state(A, E, ct, u, C, ment)
    Lw = E.laws(u)
    old_obj = lambda x: And(x != u, x != Lw, Not(Mem(C, x)))
    loose = [
        Loose("_uid", lambda new, old, *_: [Schema("uids-of-old-objects-unchanged", (Ref,), lambda x: Implies(old_obj(x), new(x) == S0.read("_uid", x)), trigger=("_uid",))]),
        Loose("memo_has", lambda new, old, *_: [Schema("memo-only-shrinks", MEMO_KEY, lambda v, d, uu, f: Implies(new(v, d, uu, f), S0.memo_has(v, d, uu, f)), trigger=("memo_has",))]),
        Loose("stats_has", lambda new, old, *_: [Schema("stats-monotone", (Int,), lambda n: Implies(S0.read("stats_has", n), new(n)), trigger=("stats_has",))]),
        Loose("dyn_has", lambda new, old, *_: [Schema("attributes-of-old-objects-unchanged", (Ref, T.Str), lambda x, n: Implies(old_obj(x), new(x, n) == S0.read("dyn_has", x, n)), trigger=("dyn_has",))]),
        Loose("dyn_val", lambda new, old, *_: [Schema("attribute-values-of-old-objects-unchanged", (Ref, T.Str), lambda x, n: Implies(old_obj(x), new(x, n) == S0.read("dyn_val", x, n)), trigger=("dyn_val",))]),
        Loose("init_count", lambda new, old, *_: []), Loose("init_args", lambda new, old, *_: []),
    ]
    schemas = created_facts(A, S0, ct, Tcls, C, ment, u, Lw) + [
        Schema("mentioned-are-vertices", (Ref,), lambda x: Implies(Mem(ment, x), And(x != NONE, ct.is_a(x, "Vertex"), x != u))),
    ]
    gdefs = A.defs_input(p, k, q)
    g2, sdefs = A.defs_created(C)
    gdefs = gdefs + g2
    if L.phase == "check":
        # ghost code: a link created in this iteration records the pair it was made for = its actual ends
        cur = L.cur if L.cur is not None else L.path.st
        for r in news:
            gdefs = gdefs + [A.gsrc(r) == cur.v1(r), A.gdst(r) == cur.v2(r)]
    define = {"$C": VSeq(C)}
    if k is None:
        define["$P"] = VSeq(p)
    facts = [A.MS(C) == A.sources(p, k, q), A.MD(C) == A.targets(p, k, q)]
    return LoopInv(state=st, loose=loose, schemas=schemas, facts=facts, ground_defs=gdefs, defs=sdefs, define=define,
                   supersedes=(k is not None))


@REG.loop("adjlist.load_adj_dict", 0)
def _(L):
    return adj_loop_inv(L)


@REG.loop("adjlist.load_adj_dict", 1)
def _(L):
    return adj_loop_inv(L, L.env["v1"].term, L.prefix)


class MatEnv(AdjEnv):
    """spec vocabulary of load_adj_matrix(matrix, vertices): rows RW (row objects; cells(r) their cells), side array VS, n = |RW|.
         ragged      some row does not have n cells (defined by D1 / D3 below)
         SRCM(p), DSTM(p)   the truthy cells of the row prefix p in row-major order, as source / target vertices:
                            cell (i, j) truthy  ->  VS[i] resp. VS[j]"""

    def __init__(self, RW, VS):
        tag = f"{RW}|{VS}"
        self.a = RW
        self.RW, self.VS, self.n = RW, VS, Len(RW)
        self.gsrc = z3.Function(f"adj_src@{tag}", Ref, Ref)
        self.gdst = z3.Function(f"adj_dst@{tag}", Ref, Ref)
        self.MS = z3.Function(f"adj_map_src@{tag}", RSeq, RSeq)
        self.MD = z3.Function(f"adj_map_dst@{tag}", RSeq, RSeq)
        self.INC = z3.Function(f"adj_incident@{tag}", RSeq, Ref, RSeq)
        self.SRCM_ = z3.Function(f"mat_sources@{tag}", RSeq, RSeq)
        self.DSTM_ = z3.Function(f"mat_targets@{tag}", RSeq, RSeq)
        self.SRCR_ = z3.Function(f"mat_row_sources@{tag}", Int, RSeq, RSeq)
        self.DSTR_ = z3.Function(f"mat_row_targets@{tag}", RSeq, RSeq)
        self.ragged = z3.Function(f"mat_ragged@{tag}", z3.BoolSort())()
        self.witness = z3.Const(f"mat_ragged_row@{tag}", Ref)

    def cells(self, r):
        return T.row_cells(r)

    def ragged_defs(self):
        """ragged  <=>  some row of RW has a length other than n  (a definition: D1 per row, D3 with a witness)"""
        d1 = Schema("ragged-def", (Ref,), lambda r: Implies(And(Mem(self.RW, r), Len(self.cells(r)) != self.n), self.ragged))
        d3 = Implies(self.ragged, And(Mem(self.RW, self.witness), Len(self.cells(self.witness)) != self.n))
        return d1, d3

    def sources(self, p, i=None, q=None):
        return self.SRCM_(p) if q is None else cat(self.SRCM_(p), self.SRCR_(i, q))

    def targets(self, p, i=None, q=None):
        return self.DSTM_(p) if q is None else cat(self.DSTM_(p), self.DSTR_(q))

    def defs_input(self, p, i=None, q=None):
        out = [self.SRCM_(EMPTY()) == EMPTY(), self.DSTM_(EMPTY()) == EMPTY()]
        sp = self._snoc(p)
        if sp:
            head, r = sp
            out += [self.SRCM_(p) == cat(self.SRCM_(head), self.SRCR_(Len(head), self.cells(r))),
                    self.DSTM_(p) == cat(self.DSTM_(head), self.DSTR_(self.cells(r)))]
        if q is not None:
            out += [self.SRCR_(i, EMPTY()) == EMPTY(), self.DSTR_(EMPTY()) == EMPTY()]
            sq = self._snoc(q)
            if sq:
                head, c = sq
                t = And(c != NONE, T.truthy(c))
                out += [self.SRCR_(i, q) == ite(t, snoc(self.SRCR_(i, head), Nth(self.VS, i)), self.SRCR_(i, head)),
                        self.DSTR_(q) == ite(t, snoc(self.DSTR_(head), Nth(self.VS, Len(head))), self.DSTR_(head))]
        return out


def _mat_env(c_or_L, args):
    return MatEnv(args["matrix"].term, args["vertices"].term)


@contract("adjmatrix.load_adj_matrix", "matrix:seq:rows, vertices:seq:Vertex, linktype:cls<=TwoEndedLink=DirectedEdge", props=("C11",),
          shards=8, oracle_op=True)
def _(c):
    S, ct, Tcls = c.S, c.ct, c.linktype
    A = _mat_env(c, c.args)
    assoc_invs(c)
    uni_invs(c)
    c.assume_inv(I1_sym(S, ct))
    c.assume_inv(TY_laws(S, ct))
    c.requires(Not(T.sub(Tcls, ct.c("Vertex"))), "link-type-is-not-a-vertex-type")
    c.assume_inv(Schema("side-array-holds-vertices", (Ref,), lambda x: Implies(Mem(A.VS, x), And(x != NONE, ct.is_a(x, "Vertex")))))
    d1, d3 = A.ragged_defs()
    c.assume_inv(d1)
    c.requires(d3, "ragged-def-witness")
    bad = Or(Len(A.VS) != A.n, A.ragged)
    # malformed input: ValueError, and nothing at all has changed (no universe was created, no vertex touched)
    c.raises("ValueError", when=bad, label="not-square-or-wrong-side-array")
    o = c.normal(when=Not(bad), label="built")
    u = o.fresh("Universe", "uni")
    Lw = o.fresh("UniverseLaws", "laws")
    C = c.ghost("C", RSeq)
    base = o.post
    base.write("_links", u, EMPTY())
    base.write("_universes", u, EMPTY())
    base.write("_vertices", u, EMPTY())
    base.write("_universes", Lw, EMPTY())
    base.write("_laws", u, Lw)
    base.write("_applies_to", Lw, u)
    o.o.post = adj_post_state(A, base, ct, u, C, A.VS)
    o.result(VRef(u, "Universe"))
    # exactly one link per truthy cell, row vertex -> column vertex, in row-major order
    o.fact(A.MS(C) == A.sources(A.RW))
    o.fact(A.MD(C) == A.targets(A.RW))
    for sch in created_facts(A, S, ct, Tcls, C, A.VS, u, Lw):
        o.fact_schema(sch)
    _adj_frame_loose(o, S, u, Lw, C)


def _adj_frame_loose(o, S, u, Lw, C):
    old_obj = lambda x: And(x != u, x != Lw, Not(Mem(C, x)))
    o.loose("_uid", lambda new, old, *_: [Schema("uids-of-old-objects-unchanged", (Ref,), lambda x: Implies(old_obj(x), new(x) == old(x)), trigger=("_uid",))])
    for f_ in ("_mixed_links", "_cycles", "_multipath", "_multiverse", "_edge_whitelist"):
        o.loose(f_, lambda new, old, *_, f_=f_: [Schema("only-new-laws-written", (Ref,), lambda x: Implies(x != Lw, new(x) == old(x)), trigger=(f_,))])
    o.loose("memo_has", lambda new, old, *_: [Schema("memo-only-shrinks", MEMO_KEY, lambda v, d, uu, f: Implies(new(v, d, uu, f), old(v, d, uu, f)), trigger=("memo_has",))])
    stats_monotone(o)
    o.loose("dyn_has", lambda new, old, *_: [Schema("attributes-of-old-objects-unchanged", (Ref, T.Str), lambda x, n: Implies(
        old_obj(x), new(x, n) == old(x, n)), trigger=("dyn_has",))])
    o.loose("dyn_val", lambda new, old, *_: [Schema("attribute-values-of-old-objects-unchanged", (Ref, T.Str), lambda x, n: Implies(
        old_obj(x), new(x, n) == old(x, n)), trigger=("dyn_val",))])
    o.loose("init_count", lambda new, old, *_: [])
    o.loose("init_args", lambda new, old, *_: [])


def _adj_loop_loose(S0, u, Lw, C):
    old_obj = lambda x: And(x != u, x != Lw, Not(Mem(C, x)))
    return [
        Loose("_uid", lambda new, old, *_: [Schema("uids-of-old-objects-unchanged", (Ref,), lambda x: Implies(old_obj(x), new(x) == S0.read("_uid", x)), trigger=("_uid",))]),
        Loose("memo_has", lambda new, old, *_: [Schema("memo-only-shrinks", MEMO_KEY, lambda v, d, uu, f: Implies(new(v, d, uu, f), S0.memo_has(v, d, uu, f)), trigger=("memo_has",))]),
        Loose("stats_has", lambda new, old, *_: [Schema("stats-monotone", (Int,), lambda n: Implies(S0.read("stats_has", n), new(n)), trigger=("stats_has",))]),
        Loose("dyn_has", lambda new, old, *_: [Schema("attributes-of-old-objects-unchanged", (Ref, T.Str), lambda x, n: Implies(old_obj(x), new(x, n) == S0.read("dyn_has", x, n)), trigger=("dyn_has",))]),
        Loose("dyn_val", lambda new, old, *_: [Schema("attribute-values-of-old-objects-unchanged", (Ref, T.Str), lambda x, n: Implies(old_obj(x), new(x, n) == S0.read("dyn_val", x, n)), trigger=("dyn_val",))]),
        Loose("init_count", lambda new, old, *_: []), Loose("init_args", lambda new, old, *_: []),
    ]


@REG.loop("adjmatrix.load_adj_matrix", 0)
def _(L):
    # validation: every row seen so far has n cells; nothing is touched
    A = _mat_env(L, L.args)
    p = L.prefix
    return LoopInv(schemas=[Schema("rows-so-far-are-square", (Ref,), lambda r: Implies(Mem(p, r), Len(A.cells(r)) == A.n))])


@REG.loop("adjmatrix.load_adj_matrix", 1)
def _(L):
    # registration: the vertices seen so far are members, in first-mention order; no link yet
    ct = L.engine.ct
    A = _mat_env(L, L.args)
    u = L.env["uni"].term
    E = L.st
    L.engine._adj_base = E
    st = adj_post_state(A, E, ct, u, EMPTY(), L.prefix)
    g, sdefs = A.defs_created(EMPTY())
    return LoopInv(state=st, loose=_adj_loop_loose(L.pre, u, E.laws(u), EMPTY()), ground_defs=g, defs=sdefs)


def mat_loop_inv(L, row=None, q=None):
    ct = L.engine.ct
    Tcls = L.args["linktype"].term
    A = _mat_env(L, L.args)
    u = L.env["uni"].term
    S0 = L.pre
    E = L.engine._adj_base
    Lw = E.laws(u)
    if row is None:
        p, i = L.prefix, None
    else:
        p, i = L.env["$P"].term, Len(L.env["$P"].term)
    if L.phase == "entry":
        C = EMPTY() if row is None else L.env["$C"].term
    elif L.phase in ("assume", "exit"):
        C = T.fresh("created", RSeq)
    else:
        C = L.env["$C"].term
        mark = L.engine._loop_alloc_mark.get(id(L.ls), 0)
        news = [r for (r, _c, kind) in L.path.allocs[mark:] if kind == "obj"]
        for r in news:
            C = snoc(C, r)
    st = adj_post_state(A, E, ct, u, C, A.VS)
    schemas = created_facts(A, S0, ct, Tcls, C, A.VS, u, Lw)
    gdefs = A.defs_input(p, i, q)
    g2, sdefs = A.defs_created(C)
    gdefs = gdefs + g2
    if L.phase == "check" and row is not None:
        cur = L.cur if L.cur is not None else L.path.st
        for r in news:
            gdefs = gdefs + [A.gsrc(r) == cur.v1(r), A.gdst(r) == cur.v2(r)]
    define = {"$C": VSeq(C)}
    if row is None:
        define["$P"] = VSeq(p)
    facts = [A.MS(C) == A.sources(p, i, q), A.MD(C) == A.targets(p, i, q)]
    return LoopInv(state=st, loose=_adj_loop_loose(S0, u, Lw, C), schemas=schemas, facts=facts, ground_defs=gdefs, defs=sdefs,
                   define=define, supersedes=(row is not None))


@REG.loop("adjmatrix.load_adj_matrix", 2)
def _(L):
    return mat_loop_inv(L)


@REG.loop("adjmatrix.load_adj_matrix", 3)
def _(L):
    return mat_loop_inv(L, True, L.prefix)


@contract("randgraph.randgraph", "count:int=15, edge:cls<=TwoEndedLink=DirectedEdge, connectivity:any=None, ensurelink:bool=True", props=("C20",),
          trusted=True, no_body=True, oracle_op=True)
def _(c):
    """NOT VERIFIED BY THE HEAP EXECUTOR (float arithmetic for the sample sizes, the `random` module, a comprehension that allocates).
    The scalar part of the body - sample sizes, no-raise conditions, one entry per index, vertex count - is verified separately by
    pyvc/arith.py (`randgraph.randgraph#samplesize`, z3, unbounded).  Nobody calls
    this function, the contract only registers it so that the bounded stand-in of C20 (explorer operation `randgraph`:
    counts 1..7, four edge types, default / 0 / 0.2 / 0.5 / 1 connectivity, both ensurelink values, 10^6 seeds; vertex count and
    `i` attributes, link types, ends inside the universe, first-end guarantee, reproducibility under re-seeding) runs on every
    check.  What IS verified for C20 is the materialisation step: load_adj_dict's contract (C11) - every created link has the
    requested class and both its ends are mentioned vertices, i.e. members of the returned universe."""
    o = c.outcome(exc="*", label="unspecified")
    o.result(VOpaque("universe"))
    for f_ in ("_links", "_vertices", "_universes", "_uid", "_laws", "_applies_to", "memo_has", "memo_val", "stats_has", "dyn_has", "dyn_val",
               "init_count", "init_args", "_mixed_links", "_cycles", "_multipath", "_multiverse", "_edge_whitelist"):
        o.loose(f_, lambda new, old, *_: [])
