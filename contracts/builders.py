"""Contracts of edgegraph.builder (explicit: C01, C03, C05; adjacency builders and randgraph: C11, C20)."""
from __future__ import annotations
import z3
from z3 import And, Or, Not, Implies, BoolVal, If
from pyvc import terms as T
from pyvc.terms import Ref, Int, RSeq, NONE, Cnt, Mem, Len, snoc, cat, ite, Nth, EMPTY, Without, Rem1, Minus
from pyvc.contracts import REG, Schema, LoopInv, Loose
from pyvc.values import *
from .common import *
from .structure import assoc_invs, link_init_effects, base_init_effects, memo_shrinks_unless
from .helpers import two_ended_links, heap_key

contract = REG.contract


def FJ(S):
    """first link of the sequence s whose other end (seen from a) is b, or None"""
    return z3.Function(f"FJ@{heap_key(S)}", RSeq, Ref, Ref, Ref)


def fj_defs(S, prefix, a, b, whole=None, elem=None, suffix=None):
    fj = FJ(S)
    out = [fj(EMPTY(), a, b) == NONE]
    parts = T._flat(prefix)
    if parts and T._is_unit(parts[-1]) and not T._is_empty(prefix):
        l = parts[-1].arg(0)
        head = cat(*parts[:-1])
        out.append(fj(prefix, a, b) == If(fj(head, a, b) != NONE, fj(head, a, b), If(S.other(l, a) == b, l, NONE)))
    if elem is not None:
        out.append(fj(whole, a, b) == If(fj(prefix, a, b) != NONE, fj(prefix, a, b),
                                         If(S.other(elem, a) == b, elem, fj(suffix, a, b))))
    return out


@contract("explicit.link_from_to", "v1:Vertex, lnktype:cls<=TwoEndedLink, v2:Vertex?, dontdup:bool=False",
          props=("C01", "C03", "C05", "C11"))
def _(c):
    S, a, b, Tt, dd = c.S, c.v1, c.v2, c.lnktype, c.dontdup
    ct = c.ct
    assoc_invs(c)
    c.assume_inv(Schema("links-are-two-ended-if-dontdup", (Ref,),
                        lambda l: Implies(dd, two_ended_links(S, ct, a).fn(l))))
    found = FJ(S)(S.links(a), a, b)
    if c.site == "monitor":
        from .helpers import all_prefixes
        for pr in [EMPTY()] + all_prefixes(S.links(a)):
            c.spec.defs += fj_defs(S, pr, a, b)
    # dontdup and a joining link exists: that link (the first in link order), nothing created, nothing changed
    c.normal(when=And(dd, found != NONE), result=VRef(found, "TwoEndedLink"), label="existing")
    # otherwise exactly the effect of T(a, b)
    o = c.normal(when=Not(And(dd, found != NONE)), label="created")
    l = o.fresh(Tt, "link")
    base_init_effects(c, o, l, z3.IntVal(0), NONE, T.EMPTY())
    link_init_effects(c, o, l, T.seq_of(a, b))
    o.result(VRef(l, "TwoEndedLink"))


@REG.loop("explicit.link_from_to", 0)
def _(L):
    S, A = L.st, L.args
    a, b = A["v1"].term, A["v2"].term
    defs = fj_defs(S, L.prefix, a, b, L.seq, L.elem, getattr(L, "suffix", None))
    return LoopInv(facts=[FJ(S)(L.prefix, a, b) == NONE], ground_defs=defs)


@contract("explicit.link_directed", "v1:Vertex, v2:Vertex?, dontdup:bool=False", props=("C01", "C03", "C05"))
def _(c):
    _link_typed(c, "DirectedEdge")


@contract("explicit.link_undirected", "v1:Vertex, v2:Vertex?, dontdup:bool=False", props=("C01", "C03", "C05"))
def _(c):
    _link_typed(c, "UnDirectedEdge")


def _link_typed(c, cname):
    c.args["lnktype"] = VCls(c.ct.c(cname), cname)
    REG.contracts["explicit.link_from_to"].fn(c)


@contract("explicit.unlink", "v1:Vertex, v2:Vertex, destroy:bool=True", props=("C01", "C03", "C05", "C09"))
def _(c):
    S, a, b, destroy = c.S, c.v1, c.v2, c.destroy
    ct = c.ct
    assoc_invs(c)
    c.assume_inv(two_ended_links(S, ct, a))
    c.assume_inv(I1_sym(S, ct))

    def J(l):          # the links joining a and b: every type, both directions
        return And(Mem(S.links(a), l), S.other(l, a) == b)
    p = c.enum_where(J, "joining")
    for keep in (False, True):
        o = c.normal(when=(Not(destroy) if keep else destroy), label="returned" if keep else "destroyed")
        o.set_where("_vertices", lambda ad: (J(ad[0]), Without(Without(S.ends(ad[0]), a), b)))
        o.set("_links", a, Minus(S.links(a), p))
        o.set("_links", b, Minus(S.links(b), p), when=b != a)
        o.loose("memo_has", memo_shrinks_unless(lambda x, l: And(Or(x == a, x == b), J(l))))
        stats_monotone(o)
        if keep:
            r = o.fresh("<container>", "out")
            o.set_where("setmem", lambda ad, r=r: (T.eq(ad[0], r), J(ad[1])))
            o.result(VSet(r, "TwoEndedLink"))


@REG.loop("explicit.unlink", 0)
def _(L):
    E, A = L.st, L.args
    a, b, destroy = A["v1"].term, A["v2"].term, A["destroy"].term
    pre = L.prefix
    st = E.copy()
    st.write_where("_vertices", lambda ad: (Mem(pre, ad[0]), Without(Without(E.ends(ad[0]), a), b)))
    st.write("_links", a, Minus(E.links(a), pre))
    st.write("_links", b, Minus(E.links(b), pre), when=b != a)
    if "out" in L.env and isinstance(L.env["out"], VSet):
        r = L.env["out"].ref
        st.write_where("setmem", lambda ad: (T.eq(ad[0], r), Mem(pre, ad[1])))
    return LoopInv(state=st, loose=[
        Loose("memo_has", memo_shrinks_unless(lambda x, l: And(Or(x == a, x == b), Mem(pre, l)))),
        Loose("stats_has", lambda new, old, *_: [Schema("stats-monotone", (Int,), lambda u: Implies(old(u), new(u)), trigger=("stats_has",))])])


@REG.loop("explicit.unlink", 1)
def _(L):
    # `del llinks[i]` from the back: only the local list shrinks (its content is irrelevant)
    E = L.st
    ll = L.env["llinks"].ref
    n0 = Len(E.elems(ll))
    k = L.k

    def c_elems(new, old, *_):
        return [Schema("only-the-local-list-shrinks", (Ref,),
                       lambda x: If(x == ll, Len(new(x)) == n0 - k, new(x) == old(x)), trigger=("elems",))]
    return LoopInv(loose=[Loose("elems", c_elems)], facts=[k >= 0, k <= n0])
