"""Property-level obligations that involve no code: invariant preservation by the contracts (C01, C02, C19 ...)."""
from __future__ import annotations
from pyvc.contracts import REG
from .common import *

ASSOC = [I1_sym, I1_nodup, TY_links]
MEMB = [I2_sym, I2_nodup, TY_unis]
LAWS = [I19, TY_laws]

# public operations named by C01 (+ the constructors that take links= / vertices=)
C01_OPS = ["TwoEndedLink.__init__", "TwoEndedLink.v1.setter", "TwoEndedLink.v2.setter", "Vertex.add_to_link",
           "Vertex.remove_from_link", "Link.add_vertex", "Link.unlink_from", "Link.__init__", "Vertex.__init__",
           "Universe.__init__", "explicit.link_from_to", "explicit.link_directed", "explicit.link_undirected",
           "explicit.unlink"]
C02_OPS = ["Universe.add_vertex", "Universe.remove_vertex", "Vertex.add_to_universe", "Vertex.remove_from_universe",
           "Vertex.__init__", "Universe.__init__"]
C19_OPS = ["Universe.laws.setter", "UniverseLaws.applies_to.setter", "Universe.__init__"]


def _mk(op, assume, prove, tag):
    def fn(eng):
        eng.lemma_preserve(op, assume, prove, tag)
    return fn


for _op in C01_OPS:
    REG.lemma(f"C01/I1-preserved-by/{_op}", props=("C01",))(_mk(_op, ASSOC + MEMB + LAWS, ASSOC, "C01/I1"))
for _op in C02_OPS:
    REG.lemma(f"C02/I2-preserved-by/{_op}", props=("C02",))(_mk(_op, ASSOC + MEMB + LAWS, MEMB, "C02/I2"))
for _op in C19_OPS:
    REG.lemma(f"C19/I19-preserved-by/{_op}", props=("C19",))(_mk(_op, ASSOC + MEMB + LAWS, LAWS, "C19/I19"))


# ---------------------------------------------------------------------------------------------- C04: FORWARD / BACKWARD symmetry
from .helpers import contrib, two_ended_links, FORWARD, BACKWARD, qual, NB  # noqa: E402
import z3  # noqa: E402
from pyvc import terms as T  # noqa: E402
from pyvc.state import State  # noqa: E402
from pyvc.engine import Path  # noqa: E402


@REG.lemma("C04/forward-backward-pointwise", props=("C04",))
def _(eng):
    """for every link l: (l in links(v) and l contributes [w] to FORWARD neighbours of v)  <=>
                         (l in links(w) and l contributes [v] to BACKWARD neighbours of w), without a filter.
    The count statement of C04 follows by the Lean lemma count_flatMap_singleton_of_pointwise (ListLemmas.lean)."""
    S = State("pre")
    ct = eng.ct
    p = Path()
    p.st = S
    v, w, l = z3.Consts("v w l", Ref)
    u = z3.Int("unknown_handling")
    for x in (v, w):
        p.assume(ct.is_a(x, "Vertex"))
        p.assume(x != NONE)
    p.assume(l != NONE)
    p.schemas += [I1_sym(S, ct), I1_nodup(S, ct), TY_links(S, ct), two_ended_links(S, ct, v), two_ended_links(S, ct, w)]
    p.assume(z3.Implies(Mem(S.ends(l), v), z3.And(ct.is_a(l, "Link"))))
    cf, bf = contrib(S, ct, l, v, z3.IntVal(FORWARD), u, NONE)
    cb, bb = contrib(S, ct, l, w, z3.IntVal(BACKWARD), u, NONE)
    lhs = z3.And(Mem(S.links(v), l), z3.Not(bf), cf == T.unit(w))
    rhs = z3.And(Mem(S.links(w), l), z3.Not(bb), cb == T.unit(v))
    eng.cur = None
    eng.emit(p, "cover", "C04/fb/cover", z3.BoolVal(True), expect="sat")
    eng.emit(p, "lemma", "C04/forward-backward-pointwise/=>", z3.Implies(lhs, rhs), meta={"clause": "FORWARD contribution implies BACKWARD contribution"})
    eng.emit(p, "lemma", "C04/forward-backward-pointwise/<=", z3.Implies(rhs, lhs), meta={"clause": "BACKWARD contribution implies FORWARD contribution"})


@REG.lemma("C09/find_links-neighbors-pointwise", props=("C09",))
def _(eng):
    """for every link l of a: l qualifies for find_links(a, b, ds, u, f') <=> l contributes [b] to neighbors(a, FORWARD if ds
    else ANY, u, f) where f(l, w) = f'(l).  |find_links| = count b neighbors follows by the same Lean counting lemma."""
    S = State("pre")
    ct = eng.ct
    p = Path()
    p.st = S
    a, b, l, f1, f2 = z3.Consts("a b l f1 f2", Ref)
    u = z3.Int("unknown_handling")
    ds = z3.Bool("direction_sensitive")
    p.assume(ct.is_a(a, "Vertex"))
    p.assume(a != NONE)
    p.assume(l != NONE)
    p.assume(Mem(S.links(a), l))
    p.schemas += [I1_sym(S, ct), TY_links(S, ct), two_ended_links(S, ct, a)]
    # the two filters agree: f2(l, other) is f1(l); both absent or both present
    o = S.other(l, a)
    p.assume((f1 == NONE) == (f2 == NONE))
    p.assume(T.cb1(f1, l) == T.cb2(f2, l, o))
    p.assume(T.cb1_raises(f1, l) == T.cb2_raises(f2, l, o))
    member, bad1 = qual(S, ct, l, a, b, ds, u, f1)
    d = z3.If(ds, z3.IntVal(0), z3.IntVal(1))
    sq, bad2 = contrib(S, ct, l, a, d, u, f2)
    eng.cur = None
    eng.emit(p, "cover", "C09/pw/cover", z3.BoolVal(True), expect="sat")
    eng.emit(p, "lemma", "C09/qualifies-iff-contributes-b", z3.Implies(z3.And(z3.Not(bad1), z3.Not(bad2)), member == (sq == T.unit(b))),
             meta={"clause": "l in find_links(a,b) <=> l contributes [b] to neighbors(a)"})
    eng.emit(p, "lemma", "C09/abnormal-agree", z3.Implies(o == b, bad1 == bad2),
             meta={"clause": "for links joining a and b, find_links ends abnormally exactly when neighbors does"})


@REG.lemma("C09/unlink-empties-find_links", props=("C09", "C03"))
def _(eng):
    """after unlink(a, b): no link of a joins b any more (so find_links(a, b, ...) is empty for every setting), and every
    link joining another pair c, d is still attached to c with the same ends (so it is still found)."""
    fi, c, p, args, spec = eng.entry_path("explicit.unlink")
    ct = eng.ct
    S = eng.pre
    p.schemas += [I1_sym(S, ct), I1_nodup(S, ct), TY_links(S, ct)]
    a, b = args["v1"].term, args["v2"].term
    for oi, o in enumerate(spec.outcomes):
        if not eng.feasible(p, o.cond):
            continue
        q = p.copy()
        q.assume(o.cond)
        eng.enter_outcome(q, o, S)
        P = q.st
        l = T.fresh("sk_l", Ref)
        cc, dd = T.fresh("sk_c", Ref), T.fresh("sk_d", Ref)
        eng.emit(q, "lemma", f"C09/unlink/{o.label}/no-link-of-a-joins-b",
                 z3.Not(z3.And(Mem(P.links(a), l), P.other(l, a) == b)),
                 meta={"clause": "after unlink(a,b) no link in a.links has b as its other end"})
        q2 = q.copy()
        q2.assume(ct.is_a(cc, "Vertex"))
        q2.assume(cc != NONE)
        q2.schemas.append(two_ended_links(S, ct, cc))
        q2.assume(z3.Not(z3.Or(z3.And(cc == a, dd == b), z3.And(cc == b, dd == a))))
        eng.emit(q2, "lemma", f"C09/unlink/{o.label}/other-pairs-untouched",
                 z3.Implies(z3.And(Mem(S.links(cc), l), S.other(l, cc) == dd),
                            z3.And(Mem(P.links(cc), l), P.ends(l) == S.ends(l))),
                 meta={"clause": "links joining another pair are still attached with the same ends"})


# ---------------------------------------------------------------------------------------------- C05: cache coherence (I5)
from .helpers import I5, I5_at, NBf, heap_key  # noqa: E402
from .common import MEMO_KEY  # noqa: E402

C05_MUTATORS = C01_OPS + ["Universe.add_vertex", "Universe.remove_vertex", "Vertex.add_to_universe",
                          "Vertex.remove_from_universe", "Universe.laws.setter", "UniverseLaws.applies_to.setter"]


def _footprint(op):
    def fn(eng):
        """I5 is preserved by the mutator `op`, for both values of the caching flag (the contract's cache effect does not
        depend on it): every memo entry that survives belongs to a vertex whose NB-footprint is untouched -
        same ordered link list, and every one of its links has the same ends; the entry's list object and its
        contents are the same.  NB is a fold over exactly that footprint (flatMap congruence, Lean: nb_congr), so the
        surviving entries still equal NB of the new heap."""
        fi, c, p, args, spec = eng.entry_path(op)
        ct = eng.ct
        S = eng.pre
        p.schemas += [I1_sym(S, ct), I1_nodup(S, ct), TY_links(S, ct), I2_sym(S, ct), I2_nodup(S, ct), TY_unis(S, ct),
                      I19(S, ct), TY_laws(S, ct)]
        for oi, o in enumerate(spec.outcomes):
            if not eng.feasible(p, o.cond):
                continue
            q = p.copy()
            q.assume(o.cond)
            eng.enter_outcome(q, o, S)
            P = q.st
            x0, f0, l0 = T.fresh("sk_x", Ref), T.fresh("sk_f", Ref), T.fresh("sk_l", Ref)
            d0, u0 = T.fresh("sk_d", Int), T.fresh("sk_u", Int)
            q.assume(P.memo_has(x0, d0, u0, f0))
            # entries only exist on vertices (typing of the memo): the key vertex is not a fresh object of this call
            q.assume(ct.is_a(x0, "Vertex"))
            lab = o.label or (("raises-" + str(o.exc)) if o.exc else "normal") + str(oi)
            eng.emit(q, "lemma", f"C05/I5/{op}/{lab}/entry-existed", z3.And(S.memo_has(x0, d0, u0, f0),
                     P.memo_val(x0, d0, u0, f0) == S.memo_val(x0, d0, u0, f0)),
                     meta={"clause": "a memo entry present afterwards was present before, with the same list object"})
            eng.emit(q, "lemma", f"C05/I5/{op}/{lab}/list-contents", P.elems(S.memo_val(x0, d0, u0, f0)) == S.elems(S.memo_val(x0, d0, u0, f0)),
                     meta={"clause": "the memoised list object keeps its contents"})
            eng.emit(q, "lemma", f"C05/I5/{op}/{lab}/links-unchanged", P.links(x0) == S.links(x0),
                     meta={"clause": "a vertex that keeps a memo entry keeps its ordered link list (else the entry must be dropped)"})
            eng.emit(q, "lemma", f"C05/I5/{op}/{lab}/ends-unchanged", z3.Implies(Mem(S.links(x0), l0), P.ends(l0) == S.ends(l0)),
                     meta={"clause": "every link of a vertex that keeps a memo entry keeps its ends (else the entry must be dropped)"})
    return fn


for _op in C05_MUTATORS:
    REG.lemma(f"C05/I5-footprint/{_op}", props=("C05",))(_footprint(_op))


@REG.lemma("C05/I5-preserved-by/helpers.neighbors", props=("C05",))
def _(eng):
    """neighbors() itself keeps I5: the entry it inserts holds NB of the (unchanged) heap"""
    fi, c, p, args, spec = eng.entry_path("helpers.neighbors")
    S = eng.pre
    p.schemas.append(I5(S))
    for oi, o in enumerate(spec.outcomes):
        if not eng.feasible(p, o.cond):
            continue
        q = p.copy()
        q.assume(o.cond)
        eng.enter_outcome(q, o, S)
        P = q.st
        x0, f0 = T.fresh("sk_x", Ref), T.fresh("sk_f", Ref)
        d0, u0 = T.fresh("sk_d", Int), T.fresh("sk_u", Int)
        assert heap_key(P) == heap_key(S)       # neighbors() does not write links / ends: NB is the same function
        eng.emit(q, "lemma", f"C05/I5/helpers.neighbors/{o.label}", I5_at(P, x0, d0, u0, f0),
                 meta={"clause": "I5 holds after neighbors() (normal or abnormal end)"})


# ---------------------------------------------------------------------------------------------- C13: read-only contracts
OBSERVABLE = ["_links", "_vertices", "_universes", "_uid", "_laws", "_applies_to", "_edge_whitelist", "_mixed_links",
              "_cycles", "_multipath", "_multiverse", "dyn_has", "dyn_val"]
C13_READONLY_CONTRACTS = ["helpers.neighbors", "helpers.find_links", "Vertex.links", "Link.vertices", "Universe.vertices",
                          "BaseObject.universes", "BaseObject.uid", "BaseObject.__getitem__", "TwoEndedLink.v1",
                          "TwoEndedLink.v2", "TwoEndedLink.other", "Universe.laws", "UniverseLaws.applies_to",
                          "depthfirst._df_preflight_checks", "Vertex._qa_neighbors_get", "Vertex._qa_neighbors_insert"]


def _readonly(op):
    def fn(eng):
        """every outcome (normal or exceptional, so also when a user callback raises) of the contract of `op` leaves
        every observable field of every object unchanged: links, ends, members, universes, laws, uid, attributes"""
        fi, c, p, args, spec = eng.entry_path(op)
        S = eng.pre
        for oi, o in enumerate(spec.outcomes):
            if not eng.feasible(p, o.cond):
                continue
            q = p.copy()
            q.assume(o.cond)
            lab = o.label or (("raises-" + str(o.exc)) if o.exc else "normal") + str(oi)
            loose = {l.fieldname for l in o.loose}
            for f in OBSERVABLE:
                if f in loose:
                    eng.emit(q, "lemma", f"C13/frame/{op}/{lab}/{f}", z3.BoolVal(False),
                             meta={"clause": f"observable field {f} is only loosely specified by the contract"})
                    continue
                addr = S.skolem_addr(f)
                a, b = o.post.read(f, *addr), S.read(f, *addr)
                eng.emit(q, "lemma", f"C13/frame/{op}/{lab}/{f}", T.eq(a, b),
                         meta={"clause": f"observable field {f} unchanged ({o.exc or 'normal'} exit)"})
    return fn


for _op in C13_READONLY_CONTRACTS:
    REG.lemma(f"C13/readonly-contract/{_op}", props=("C13",))(_readonly(_op))


# ---------------------------------------------------------------------------------------------- C17 / C18: registries
from pyvc.terms import Cls  # noqa: E402


def W18(S, ct):
    """C18: a registered true singleton is an instance of exactly its class whose __init__ ran exactly once"""
    return Schema("W18-registered-instance-of-its-class-initialised-once", (Cls,), lambda c: Implies(
        S.read("tmap_has", c), And(T.cls_of(S.read("tmap_val", c)) == c, S.read("init_count", S.read("tmap_val", c)) == 1)),
        trigger=("tmap_has", "tmap_val"))


def W17(S, ct):
    """C17: a live semi-singleton mapping for key (cls, k) holds an instance of exactly cls"""
    return Schema("W17-mapped-instance-is-of-the-keyed-class", (Ref, Ref), lambda M, key: Implies(
        S.read("smap_has", M, key), T.cls_ref(T.cls_of(S.read("smap_val", M, key))) == T.pfst(key)),
        trigger=("smap_has", "smap_val"))


for _op in ["TrueSingleton.__call__", "singleton.clear_true_singleton"]:
    REG.lemma(f"C18/W18-preserved-by/{_op}", props=("C18",))(_mk(_op, [W18], [W18], "C18/W18"))


def _other_class_untouched(op, has_f, val_f, keyclass):
    def fn(eng):
        """operations on one class never change what another class returns: registry entries keyed by a different class are
        the same before and after (every outcome, also the exceptional ones)"""
        fi, c, p, args, spec = eng.entry_path(op)
        S = eng.pre
        kcls = args["cls"].term if "cls" in args else T.cls_of(args["obj"].term)
        for oi, o in enumerate(spec.outcomes):
            if not eng.feasible(p, o.cond):
                continue
            q = p.copy()
            q.assume(o.cond)
            eng.enter_outcome(q, o, S)
            P = q.st
            addr = S.skolem_addr(has_f)
            q.assume(keyclass(addr) != kcls)
            lab = o.label or (("raises-" + str(o.exc)) if o.exc else "normal") + str(oi)
            eng.emit(q, "lemma", f"{op}/{lab}/other-classes-untouched", And(P.read(has_f, *addr) == S.read(has_f, *addr),
                     Implies(S.read(has_f, *addr), P.read(val_f, *addr) == S.read(val_f, *addr))),
                     meta={"clause": "entries of every other class are unchanged"})
    return fn


for _op in ["TrueSingleton.__call__"]:
    REG.lemma(f"C18/other-classes-untouched/{_op}", props=("C18",))(
        _other_class_untouched(_op, "tmap_has", "tmap_val", lambda a: a[0]))

@REG.lemma("C18/targeted-clear-leaves-other-classes", props=("C18",))
def _(eng):
    fi, c, p, args, spec = eng.entry_path("singleton.clear_true_singleton")
    S = eng.pre
    k = args["cls"].term
    for o in spec.outcomes:
        if o.label != "clear-one" or not eng.feasible(p, o.cond):
            continue
        q = p.copy()
        q.assume(o.cond)
        eng.enter_outcome(q, o, S)
        c2 = T.fresh("sk_cls", Cls)
        q.assume(c2 != k)
        eng.emit(q, "lemma", "C18/clear-one/other-classes-keep-their-instance",
                 And(q.st.read("tmap_has", c2) == S.read("tmap_has", c2), q.st.read("tmap_val", c2) == S.read("tmap_val", c2)),
                 meta={"clause": "clearing one class leaves every other class's instance in place"})


SEMI_OPS = ["_SemiSingleton.__call__", "singleton.add_mapping", "singleton.drop_semi_singleton_mapping",
            "singleton.check_semi_singleton_entry_exists", "singleton.clear_semi_singleton"]
for _op in SEMI_OPS:
    REG.lemma(f"C17/W17-preserved-by/{_op}", props=("C17",))(_mk(_op, [W17], [W17], "C17/W17"))
    REG.lemma(f"C17/other-classes-untouched/{_op}", props=("C17",))(
        _other_class_untouched(_op, "smap_has", "smap_val", lambda a: T.cls_unref(T.pfst(a[1]))))


@REG.lemma("C17/default-key-is-injective", props=("C17",))
def _(eng):
    """the default key (args, sorted-kwargs-json) of two calls is equal exactly when the positional arguments are equal and
    the order-normalised keyword arguments are equal (A9: json.dumps(sort_keys=True) is injective modulo keyword order)"""
    from pyvc.engine import Path
    from pyvc.state import State
    p = Path()
    p.st = State("pre")
    a1, a2, k1, k2 = z3.Consts("args1 args2 kwargs1 kwargs2", Ref)
    eng.cur = None
    eng.emit(p, "lemma", "C17/default-key-injective",
             (T.mkpair(a1, T.jsonk(k1)) == T.mkpair(a2, T.jsonk(k2))) == And(a1 == a2, T.jsonk(k1) == T.jsonk(k2)),
             meta={"clause": "tuple keys are equal iff their components are"})
