"""Property-level obligations that involve no code: invariant preservation by the contracts (C01, C02, C19 ...)."""
from __future__ import annotations
from pyvc.contracts import REG
from .common import *

ASSOC = [I1_sym, I1_nodup, TY_links]
MEMB = [I2_sym, I2_nodup, TY_unis]
LAWS = [I19, TY_laws]

# public operations named by C01 (+ the constructors that take links= / vertices=)
C01_OPS = ["TwoEndedLink.__init__", "TwoEndedLink.v1.setter", "TwoEndedLink.v2.setter", "Vertex.add_to_link",
           "Vertex.remove_from_link", "Link.add_vertex", "Link.unlink_from", "Link.__init__", "Vertex.__init__",
           "Universe.__init__"]
C02_OPS = ["Universe.add_vertex", "Universe.remove_vertex", "Vertex.add_to_universe", "Vertex.remove_from_universe",
           "Vertex.__init__", "Universe.__init__"]
C19_OPS = ["Universe.laws.setter", "UniverseLaws.applies_to.setter", "Universe.__init__"]


def _mk(op, assume, prove, tag):
    def fn(eng):
        eng.lemma_preserve(op, assume, prove, tag)
    return fn


for _op in C01_OPS:
    REG.lemma(f"C01/I1-preserved-by/{_op}", props=("C01",))(_mk(_op, ASSOC + MEMB + LAWS, ASSOC, "C01/I1"))
for _op in C02_OPS:
    REG.lemma(f"C02/I2-preserved-by/{_op}", props=("C02",))(_mk(_op, ASSOC + MEMB + LAWS, MEMB, "C02/I2"))
for _op in C19_OPS:
    REG.lemma(f"C19/I19-preserved-by/{_op}", props=("C19",))(_mk(_op, ASSOC + MEMB + LAWS, LAWS, "C19/I19"))
