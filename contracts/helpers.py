"""Contracts of edgegraph.traversal.helpers (C04, C05, C09, C12, C13) and the neighbor memo plumbing of Vertex.

The specification function NB is the decision table of the property statement (DESIGN.md appendix A.2), defined as a
snoc-recursive fold over the vertex's ordered link list; the loop invariant of `neighbors` unfolds it one link at a
time, so the result is proved equal to the table for every graph and every combination of the parameters.
"""
from __future__ import annotations
import z3
from z3 import And, Or, Not, Implies, BoolVal, If
from pyvc import terms as T
from pyvc.terms import Ref, Int, RSeq, NONE, Cnt, Mem, Len, snoc, cat, ite, Nth, EMPTY
from pyvc.contracts import REG, Schema, LoopInv, Loose
from pyvc.values import *
from .common import *

contract = REG.contract

FORWARD, ANY, BACKWARD = 0, 1, 2
UNK_NON, UNK_NB, UNK_ERR = 0, 1, 2

# ---------------------------------------------------------------------------------------------- heap-indexed spec functions
_heap_ids = {}


def heap_key(S):
    """identity of the part of the heap NB depends on: the link lists and the end lists (and the immutable classes)"""
    a, b = S._fs("_links"), S._fs("_vertices")
    k = (a.base.name(), tuple(id(u) for u in a.updates), b.base.name(), tuple(id(u) for u in b.updates))
    if k not in _heap_ids:
        _heap_ids[k] = (len(_heap_ids), a, b)       # keeps the update closures alive: ids are never reused
    return _heap_ids[k][0]


def NBf(S):
    """NBf_S(s, x, d, u, f): concatenation of contrib(l) for l in the link sequence s, ends read in heap S"""
    return z3.Function(f"NBf@{heap_key(S)}", RSeq, Ref, Int, Int, Ref, RSeq)


def NBbad(S):
    """some link of s makes the scan end abnormally (unknown class under LNK_UNKNOWN_ERROR, or the filter raises)"""
    return z3.Function(f"NBbad@{heap_key(S)}", RSeq, Ref, Int, Int, Ref, z3.BoolSort())


def contrib(S, ct, l, x, d, u, f):
    """decision table of C04 for one link l of vertex x -> (sequence contributed, abnormal?)
       o = other end; F = no filter or filter(l, o) true; the filter is consulted exactly where the table says"""
    o = S.other(l, x)
    isU, isD = ct.is_a(l, "UnDirectedEdge"), ct.is_a(l, "DirectedEdge")
    fwd = And(isD, S.v1(l) == x)           # leaves x (a self-loop both leaves and enters)
    bwd = And(isD, S.v2(l) == x)
    nofilter = f == NONE
    F = Or(nofilter, T.cb2(f, l, o))
    Fraises = And(Not(nofilter), T.cb2_raises(f, l, o))
    one = T.unit(o)
    # which links are candidates (before the filter) and which are errors, per direction
    unknown = And(Not(isU), Not(isD))
    cand = If(d == ANY, BoolVal(True),
              If(d == FORWARD, Or(isU, fwd, And(unknown, u == UNK_NB)),
                 Or(isU, bwd, And(unknown, u == UNK_NB))))
    err = And(d != ANY, unknown, u != UNK_NON, u != UNK_NB)
    seq = ite(And(cand, F), one, EMPTY())
    bad = Or(err, And(cand, Fraises))
    return seq, bad


def nb_defs(S, ct, prefix, x, d, u, f):
    """definitional unfolding of NBf / NBbad for the prefix at hand (structural: [] or p ++ [l])"""
    nbf, nbb = NBf(S), NBbad(S)
    out = [nbf(EMPTY(), x, d, u, f) == EMPTY(), Not(nbb(EMPTY(), x, d, u, f))]
    parts = T._flat(prefix)
    if parts and T._is_unit(parts[-1]) and not T._is_empty(prefix):
        l = parts[-1].arg(0)
        head = cat(*parts[:-1])
        sq, bad = contrib(S, ct, l, x, d, u, f)
        out.append(nbf(prefix, x, d, u, f) == cat(nbf(head, x, d, u, f), sq))
        out.append(nbb(prefix, x, d, u, f) == Or(nbb(head, x, d, u, f), bad))
    return out


def nb_split_defs(S, ct, whole, pre, l, suf, x, d, u, f):
    """exists-fold distributes over append: bad(pre ++ [l] ++ suf) = bad(pre) or bad_l or bad(suf)"""
    nbb = NBbad(S)
    _sq, bad = contrib(S, ct, l, x, d, u, f)
    return [nbb(whole, x, d, u, f) == Or(nbb(pre, x, d, u, f), bad, nbb(suf, x, d, u, f))]


def all_prefixes(seq):
    parts = T._flat(seq)
    if T._is_empty(seq):
        return []
    return [cat(*parts[:k]) for k in range(1, len(parts) + 1)]


def nb_concrete_defs(S, ct, seq, x, d, u, f):
    """monitor: unfold NBf / NBbad along a concrete link list"""
    out = []
    for pr in [EMPTY()] + all_prefixes(seq):
        out += nb_defs(S, ct, pr, x, d, u, f)
    return out


def NB(S, x, d, u, f):
    return NBf(S)(S.links(x), x, d, u, f)


def NB_bad(S, x, d, u, f):
    return NBbad(S)(S.links(x), x, d, u, f)


def two_ended_links(S, ct, x):
    """every link of x is a two-ended link that has both ends"""
    def fn(l):
        return Implies(Mem(S.links(x), l), And(l != NONE, ct.is_a(l, "TwoEndedLink"), Len(S.ends(l)) == 2,
                                               Or(x == S.v1(l), x == S.v2(l))))
    return Schema("links-are-two-ended", (Ref,), fn)


def memo_wf_at(S, x, d, u, f):
    m = S.memo_val(x, d, u, f)
    return Implies(S.memo_has(x, d, u, f), And(m != NONE, m != T.QA_INVALID))


def I5_at(S, x, d, u, f):
    """cache coherence (DESIGN.md I5) at one key: a memo entry is a list object holding exactly NB of the current heap"""
    return And(memo_wf_at(S, x, d, u, f),
               Implies(S.memo_has(x, d, u, f), And(Not(NB_bad(S, x, d, u, f)), Or(And(d >= 0, d <= 2), Len(S.links(x)) == 0),
                                                   S.elems(S.memo_val(x, d, u, f)) == NB(S, x, d, u, f))))


def I5(S):
    return Schema("I5-cache-coherent", MEMO_KEY, lambda x, d, u, f: I5_at(S, x, d, u, f), trigger=("memo_has",))


# ---------------------------------------------------------------------------------------------- memo plumbing


@contract("Vertex._qa_neighbors_get", "self:Vertex, d:int, u:int, f:cb:ff2", props=("C05", "C04", "C10", "C06", "C07", "C08"))
def _(c):
    S, v = c.S, c.self
    c.requires(memo_wf_at(S, v, c.d, c.u, c.f), "memo-entry-is-a-list")
    hit = And(S.caching(), S.memo_has(v, c.d, c.u, c.f))
    o1 = c.normal(when=hit, result=VList(S.memo_val(v, c.d, c.u, c.f), "Vertex"), label="hit")
    o1.fact(And(S.memo_val(v, c.d, c.u, c.f) != NONE, S.memo_val(v, c.d, c.u, c.f) != T.QA_INVALID))
    stats_monotone(o1)
    o2 = c.normal(when=Not(hit), result=VRef(T.QA_INVALID, None, "opaque"), label="miss-or-off")
    stats_monotone(o2)


@contract("Vertex._qa_neighbors_insert", "self:Vertex, answer:list:Vertex, d:int, u:int, f:cb:ff2", props=("C05", "C04", "C10", "C06", "C07", "C08"))
def _(c):
    S, v = c.S, c.self
    ans = c.val("answer").ref
    o = c.normal()
    o.set("memo_has", (v, c.d, c.u, c.f), BoolVal(True), when=S.caching())
    o.set("memo_val", (v, c.d, c.u, c.f), ans, when=S.caching())
    stats_monotone(o)


# ---------------------------------------------------------------------------------------------- neighbors()


@contract("helpers.neighbors", "vert:Vertex, direction_sensitive:int=0, unknown_handling:int=2, filterfunc:cb:ff2=None",
          props=("C04", "C05", "C06", "C07", "C08", "C11", "C12", "C13"), shards=6)
def _(c):
    S, x, d, u, f = c.S, c.vert, c.direction_sensitive, c.unknown_handling, c.filterfunc
    ct = c.ct
    c.assume_inv(TY_links(S, ct))
    c.assume_inv(two_ended_links(S, ct, x))
    # the memo entry for this very key, if any, is coherent (instance of invariant I5)
    c.requires(I5_at(S, x, d, u, f), "I5-at-this-key")
    hit = And(S.caching(), S.memo_has(x, d, u, f))
    nb, bad = NB(S, x, d, u, f), NB_bad(S, x, d, u, f)
    if c.site == "monitor":
        c.spec.defs += nb_concrete_defs(S, ct, S.links(x), x, d, u, f)
    baddir = And(Or(d < 0, d > 2), Len(S.links(x)) > 0)
    # abnormal ends: nothing observable changes (C13); the memo is only written after the scan
    o = c.raises("ValueError", when=And(Not(hit), baddir), label="bad-direction")
    stats_monotone(o)
    o = c.raises(("NotImplementedError", "UserExc"), when=And(Not(hit), Not(baddir), bad), label="scan-aborted")
    stats_monotone(o)
    # normal: a fresh list holding NB; with caching on, a *separate* fresh list is memoised on a miss (C12)
    o = c.normal(when=hit, label="cached")
    r = o.fresh("<container>", "nbs")
    o.set("elems", r, nb)                                    # transparency: same answer as the recomputation ...
    o.result(VList(r, "Vertex"))
    o.fact(S.elems(S.memo_val(x, d, u, f)) == nb)          # ... which is what the memo holds (I5 at this key)
    stats_monotone(o)
    o = c.normal(when=And(Not(hit), Not(baddir), Not(bad)), label="computed")
    r = o.fresh("<container>", "nbs")
    m = o.fresh("<container>", "memoised")
    o.set("elems", r, nb)
    o.set("elems", m, nb)
    o.set("memo_has", (x, d, u, f), BoolVal(True), when=S.caching())
    o.set("memo_val", (x, d, u, f), m, when=S.caching())
    o.result(VList(r, "Vertex"))
    stats_monotone(o)


@REG.loop("helpers.neighbors", 0)
def _(L):
    S = L.st                       # heap at loop entry (links / ends untouched by the scan)
    ct = L.engine.ct
    a = L.args
    x, d, u, f = a["vert"].term, a["direction_sensitive"].term, a["unknown_handling"].term, a["filterfunc"].term
    nbs = L.env["nbs"].ref
    st = S.copy()
    st.write("elems", nbs, NBf(S)(L.prefix, x, d, u, f))
    defs = nb_defs(S, ct, L.prefix, x, d, u, f)
    if L.elem is not None:
        defs += nb_split_defs(S, ct, L.seq, L.prefix, L.elem, L.suffix, x, d, u, f)
    facts = [Not(NBbad(S)(L.prefix, x, d, u, f)), Implies(Len(L.prefix) > 0, And(d >= 0, d <= 2))]
    return LoopInv(state=st, facts=facts, ground_defs=defs)


# ---------------------------------------------------------------------------------------------- find_links()


def FLbad(S):
    return z3.Function(f"FLbad@{heap_key(S)}", RSeq, Ref, Ref, z3.BoolSort(), Int, Ref, z3.BoolSort())


def qual(S, ct, l, a, b, ds, u, f):
    """membership predicate of find_links (appendix A.3) -> (member, abnormal)"""
    joins = S.other(l, a) == b
    isU, isD = ct.is_a(l, "UnDirectedEdge"), ct.is_a(l, "DirectedEdge")
    unknown = And(Not(isU), Not(isD))
    F = Or(f == NONE, T.cb1(f, l))
    Fraises = And(f != NONE, T.cb1_raises(f, l))
    cand = And(joins, Or(Not(ds), isU, And(isD, S.v1(l) == a), And(unknown, u == UNK_NB)))
    err = And(joins, ds, unknown, u != UNK_NON, u != UNK_NB)
    return And(cand, F), Or(err, And(cand, Fraises))


def fl_defs(S, ct, prefix, a, b, ds, u, f, whole=None, elem=None, suffix=None):
    flb = FLbad(S)
    out = [Not(flb(EMPTY(), a, b, ds, u, f))]
    parts = T._flat(prefix)
    if parts and T._is_unit(parts[-1]) and not T._is_empty(prefix):
        l = parts[-1].arg(0)
        head = cat(*parts[:-1])
        _m, bad = qual(S, ct, l, a, b, ds, u, f)
        out.append(flb(prefix, a, b, ds, u, f) == Or(flb(head, a, b, ds, u, f), bad))
    if elem is not None:
        _m, bad = qual(S, ct, elem, a, b, ds, u, f)
        out.append(flb(whole, a, b, ds, u, f) == Or(flb(prefix, a, b, ds, u, f), bad, flb(suffix, a, b, ds, u, f)))
    return out


@contract("helpers.find_links",
          "v1:Vertex, v2:Vertex?, direction_sensitive:bool=True, unknown_handling:int=2, filterfunc:cb:ff1=None",
          props=("C09", "C03", "C11", "C12", "C13"), shards=3)
def _(c):
    S, a, b, ds, u, f = c.S, c.v1, c.v2, c.direction_sensitive, c.unknown_handling, c.filterfunc
    ct = c.ct
    c.assume_inv(TY_links(S, ct))
    c.assume_inv(two_ended_links(S, ct, a))
    if c.site == "monitor":
        for pr in [EMPTY()] + all_prefixes(S.links(a)):
            c.spec.defs += fl_defs(S, ct, pr, a, b, ds, u, f)
    # abnormal ends need direction sensitivity (unknown class) or a filter (that raises)
    bad = And(Or(ds, f != NONE), FLbad(S)(S.links(a), a, b, ds, u, f))
    c.raises(("NotImplementedError", "UserExc"), when=bad, label="scan-aborted")
    o = c.normal(when=Not(bad))
    r = o.fresh("<container>", "links")
    o.set_where("setmem", lambda ad: (T.eq(ad[0], r), And(Mem(S.links(a), ad[1]), qual(S, ct, ad[1], a, b, ds, u, f)[0])))
    o.result(VSet(r, "Link"))


@REG.loop("helpers.find_links", 0)
def _(L):
    S, ct, A = L.st, L.engine.ct, L.args
    a, b, ds, u, f = A["v1"].term, A["v2"].term, A["direction_sensitive"].term, A["unknown_handling"].term, A["filterfunc"].term
    r = L.env["links"].ref
    pre = L.prefix
    st = S.copy()
    st.write_where("setmem", lambda ad: (T.eq(ad[0], r), And(Mem(pre, ad[1]), qual(S, ct, ad[1], a, b, ds, u, f)[0])))
    defs = fl_defs(S, ct, pre, a, b, ds, u, f, L.seq, L.elem, getattr(L, "suffix", None))
    return LoopInv(state=st, facts=[Not(FLbad(S)(pre, a, b, ds, u, f))], ground_defs=defs)
