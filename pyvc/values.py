"""Symbolic values manipulated by the executor: a z3 term plus a Python-side static type tag."""
from __future__ import annotations
from dataclasses import dataclass, field
import z3
from . import terms as T


class V:
    pass


@dataclass
class VRef(V):
    """reference to an object with identity (edgegraph instance, None, opaque user value, callback object)"""
    term: z3.ExprRef
    cname: str | None = None      # static class hint used to resolve attribute names (None = unknown)
    role: str = "obj"             # 'obj' | 'callable' | 'opaque'


@dataclass
class VInt(V):
    term: z3.ExprRef


@dataclass
class VBool(V):
    term: z3.ExprRef


@dataclass
class VStr(V):
    term: z3.ExprRef


@dataclass
class VSeq(V):
    """immutable sequence value of references (tuple, or a list that never escapes)"""
    term: z3.ExprRef
    elem_cname: str | None = None
    kind: str = "tuple"


@dataclass
class VList(V):
    """heap list object: contents are state.elems(ref)"""
    ref: z3.ExprRef
    elem_cname: str | None = None


@dataclass
class VSet(V):
    ref: z3.ExprRef
    elem_cname: str | None = None


@dataclass
class VDict(V):
    ref: z3.ExprRef
    key_cname: str | None = None


@dataclass
class VCls(V):
    term: z3.ExprRef
    pyname: str | None = None     # concrete repo class name if statically known
    bound: str | None = None      # known upper bound (static) for symbolic classes


@dataclass
class VOwned(V):
    """`obj._links` etc.: an owned private container with value semantics"""
    fieldname: str
    owner: z3.ExprRef
    elem_cname: str | None = None


@dataclass
class VPyTuple(V):
    items: list


@dataclass
class VConst(V):
    """a Python constant that needs no term (strings used as names, None handled separately)"""
    value: object


@dataclass
class VModule(V):
    dotted: str


@dataclass
class VFunc(V):
    qualname: str                 # repo function with (or without) contract


@dataclass
class VBuiltin(V):
    name: str


@dataclass
class VBound(V):
    recv: V
    name: str
    via_super: str | None = None  # class after which lookup starts


@dataclass
class VCallback(V):
    """user supplied callable (may be None): family name selects the uninterpreted result functions"""
    term: z3.ExprRef              # Ref; NONE when absent
    family: str


@dataclass
class VIter(V):
    """an arbitrary iterable argument, consumed once, yielding `seq` (A9)"""
    seq: z3.ExprRef
    elem_cname: str | None = None
    is_none: z3.ExprRef | None = None   # Bool: the argument is None


@dataclass
class VAdj(V):
    """an adjacency dictionary {vertex: iterable of vertices}"""
    term: z3.ExprRef


@dataclass
class VNet(V):
    """a pyvis.network.Network object: modelled by the assumed contract of the third-party class (node ids / labels in
    insertion order, edge records from / to / arrow, the `directed` flag)"""
    ref: z3.ExprRef


@dataclass
class VMeta(V):
    """a metaclass object (the result of type(cls))"""
    term: z3.ExprRef


@dataclass
class VAttrs(V):
    """an `attributes=` argument: None or (hopefully) a dict of name -> value"""
    term: z3.ExprRef


@dataclass
class VOptTable(V):
    """a PlantUML option table {class: {option: value}, "skinparams": {...}} (heap fields opt_has / opt_get)"""
    term: z3.ExprRef


@dataclass
class VOpts(V):
    """one per-class option dictionary {option name: value} (heap fields od_has / od_val)"""
    term: z3.ExprRef


@dataclass
class VMro(V):
    """cls.__mro__"""
    cls: z3.ExprRef


@dataclass
class VStrSet(V):
    """a set of strings whose contents are not modelled (the per-object skinparam lines of the PlantUML renderer)"""
    what: str = ""


@dataclass
class VRaise(V):
    exc: str
    info: str = ""


@dataclass
class VGlobalDict(V):
    name: str                     # 'stats'


@dataclass
class VOpaque(V):
    """a value we do not model (counter lists, strings built by f-strings ...)"""
    what: str = ""


NONE_V = VRef(T.NONE, None, "obj")


def is_none_const(v: V) -> bool:
    return isinstance(v, VRef) and v.term.eq(T.NONE)
