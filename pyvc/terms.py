"""Term layer of pyvc: sorts, uninterpreted symbols and *smart constructors*.

Everything the SMT solvers cannot do reliably on sequences (counting, erasing
the first / every occurrence, prefixes) is an uninterpreted function whose
defining equations are applied here, by structural rewriting on the term that
is being built (DESIGN.md 3.5).  Each rewrite rule is an instance of a lemma
checked by Lean/Mathlib in /verif/lean/ListLemmas.lean; the name of the lemma
is given next to the rule.  What cannot be rewritten stays an application of
the uninterpreted function and gets its generic axioms from `saturate`.
"""
from __future__ import annotations
import itertools
import z3
from z3 import (And, Or, Not, If, Implies, BoolVal, IntVal, Const, Function,
                BoolSort, IntSort, StringSort, SeqSort, DeclareSort, Concat, Unit,
                Empty, Length, is_app, is_true, is_false)

Ref = DeclareSort("Ref")      # object references (identity); None is a constant of this sort
Cls = DeclareSort("Cls")      # classes
RSeq = SeqSort(Ref)
Int = IntSort()
Bool = BoolSort()
Str = StringSort()

NONE = Const("None", Ref)
QA_INVALID = Const("Vertex._QA_NB_INVALID", Ref)   # the sentinel object of Vertex

# uninterpreted list algebra
cnt = Function("cnt", RSeq, Ref, Int)          # List.count
rem1 = Function("rem1", RSeq, Ref, RSeq)       # List.erase   (list.remove)
without = Function("without", RSeq, Ref, RSeq)  # List.filter (. != y)
dedup = Function("dedup", RSeq, RSeq)          # first occurrences, order kept ([*dict.fromkeys(s)])

cls_of = Function("cls", Ref, Cls)
sub = Function("sub", Cls, Cls, Bool)          # reflexive-transitive subclass relation
truthy = Function("truthy", Ref, Bool)          # bool(obj) for an arbitrary object (A4: unconstrained for instances)

_counter = itertools.count()


def fresh(prefix: str, sort):
    return Const(f"{prefix}!{next(_counter)}", sort)


def EMPTY():
    return Empty(RSeq)


def unit(x):
    return Unit(x)


def snoc(s, x):
    return cat(s, Unit(x))


def cat(*parts):
    ps = []
    for p in parts:
        if _is_empty(p):
            continue
        if _is_concat(p):
            ps.extend(p.children())
        else:
            ps.append(p)
    if not ps:
        return EMPTY()
    if len(ps) == 1:
        return ps[0]
    return Concat(*ps)


def seq_of(*xs):
    return cat(*[Unit(x) for x in xs])


# --- structural recognisers -------------------------------------------------

def _kind(t):
    return t.decl().kind() if is_app(t) else None


def _is_empty(t):
    return _kind(t) == z3.Z3_OP_SEQ_EMPTY


def _is_unit(t):
    return _kind(t) == z3.Z3_OP_SEQ_UNIT


def _is_concat(t):
    return _kind(t) == z3.Z3_OP_SEQ_CONCAT


def _is_ite(t):
    return _kind(t) == z3.Z3_OP_ITE


def _is_uf(t, f):
    return is_app(t) and t.decl().eq(f)


def same(a, b) -> bool:
    """syntactic identity"""
    return a.eq(b)


def ite(c, a, b):
    if is_true(c):
        return a
    if is_false(c):
        return b
    if a.eq(b):
        return a
    return If(c, a, b)


def eq(a, b):
    if a.eq(b):
        return BoolVal(True)
    return a == b


def conj(*cs):
    out = []
    for c in cs:
        if isinstance(c, (list, tuple)):
            c = conj(*c)
        if is_true(c):
            continue
        if is_false(c):
            return BoolVal(False)
        out.append(c)
    if not out:
        return BoolVal(True)
    if len(out) == 1:
        return out[0]
    return And(*out)


def disj(*cs):
    out = []
    for c in cs:
        if isinstance(c, (list, tuple)):
            c = disj(*c)
        if is_false(c):
            continue
        if is_true(c):
            return BoolVal(True)
        out.append(c)
    if not out:
        return BoolVal(False)
    if len(out) == 1:
        return out[0]
    return Or(*out)


def neg(c):
    if is_true(c):
        return BoolVal(False)
    if is_false(c):
        return BoolVal(True)
    if is_app(c) and c.decl().kind() == z3.Z3_OP_NOT:
        return c.arg(0)
    return Not(c)


def b2i(c):
    return ite(c, IntVal(1), IntVal(0))


# --- counting -----------------------------------------------------------------

def Cnt(s, x):
    """number of occurrences of x in s  (List.count)"""
    if _is_empty(s):
        return IntVal(0)
    if _is_unit(s):                       # count_singleton
        return b2i(eq(s.arg(0), x))
    if _is_concat(s):                     # count_append
        return z3.Sum([Cnt(p, x) for p in s.children()])
    if _is_ite(s):
        return ite(s.arg(0), Cnt(s.arg(1), x), Cnt(s.arg(2), x))
    if _is_uf(s, rem1):                   # count_erase
        a, y = s.arg(0), s.arg(1)
        return Cnt(a, x) - b2i(conj(eq(x, y), Cnt(a, y) >= 1))
    if _is_uf(s, without):                # count_filter_ne
        a, y = s.arg(0), s.arg(1)
        return ite(eq(x, y), IntVal(0), Cnt(a, x))
    return cnt(s, x)                      # generic: cnt >= 0 added by saturate


def Mem(s, x):
    """x in s  (mem_iff_count_pos)"""
    return Cnt(s, x) >= 1


def Len(s):
    if _is_empty(s):
        return IntVal(0)
    if _is_unit(s):
        return IntVal(1)
    if _is_concat(s):
        return z3.Sum([Len(p) for p in s.children()])
    if _is_ite(s):
        return ite(s.arg(0), Len(s.arg(1)), Len(s.arg(2)))
    if _is_uf(s, rem1):                   # length_erase
        a, y = s.arg(0), s.arg(1)
        return Len(a) - b2i(Cnt(a, y) >= 1)
    return Length(s)


def Rem1(s, y):
    """remove the first occurrence of y (list.remove without the ValueError)  (List.erase)"""
    if _is_empty(s):
        return EMPTY()
    if _is_unit(s):
        return ite(eq(s.arg(0), y), EMPTY(), s)
    if _is_concat(s):                     # erase_append
        ch = s.children()
        head, last = cat(*ch[:-1]), ch[-1]
        return ite(Cnt(head, y) >= 1, cat(Rem1(head, y), last), cat(head, Rem1(last, y)))
    if _is_ite(s):
        return ite(s.arg(0), Rem1(s.arg(1), y), Rem1(s.arg(2), y))
    return rem1(s, y)


def Without(s, y):
    """remove every occurrence of y  (List.filter (. != y))"""
    if _is_empty(s):
        return EMPTY()
    if _is_unit(s):
        return ite(eq(s.arg(0), y), EMPTY(), s)
    if _is_concat(s):                     # filter_append
        return cat(*[Without(p, y) for p in s.children()])
    if _is_ite(s):
        return ite(s.arg(0), Without(s.arg(1), y), Without(s.arg(2), y))
    return without(s, y)


def Nth(s, i):
    """s[i] for 0 <= i < len(s) (callers guard the range)"""
    if isinstance(i, int):
        if _is_unit(s) and i == 0:
            return s.arg(0)
        if _is_concat(s):
            ch = s.children()
            if all(_is_unit(c) for c in ch[: i + 1]) and i < len(ch):
                return ch[i].arg(0)
        if _is_ite(s):
            return ite(s.arg(0), Nth(s.arg(1), i), Nth(s.arg(2), i))
        i = IntVal(i)
    return s[i]


def SetNth(s, i: int, x):
    """s with position i (python int 0 or 1) replaced by x; needs len(s) > i"""
    # s = [s0, s1] ++ rest
    if _is_ite(s):
        return ite(s.arg(0), SetNth(s.arg(1), i, x), SetNth(s.arg(2), i, x))
    n = Len(s)
    pre = z3.SubSeq(s, 0, i)
    post = z3.SubSeq(s, i + 1, n - (i + 1))
    if _is_concat(s):
        ch = s.children()
        if all(_is_unit(c) for c in ch[: i + 1]) and i < len(ch):
            return cat(*ch[:i], Unit(x), *ch[i + 1:])
    return cat(pre, Unit(x), post)


# --- saturation: generic axioms of the uninterpreted symbols, instantiated at the terms of a query ----------------

def subterms(es):
    seen = {}
    stack = list(es)
    while stack:
        t = stack.pop()
        k = t.get_id()
        if k in seen:
            continue
        seen[k] = t
        if is_app(t):
            stack.extend(t.children())
        elif z3.is_quantifier(t):
            stack.append(t.body())
    return list(seen.values())


def ref_terms(es):
    """Ref-sorted ground subterms (instantiation universe), If-terms excluded"""
    out = []
    for t in subterms(es):
        if is_app(t) and t.sort().eq(Ref) and not _is_ite(t) and not z3.is_var(t):
            out.append(t)
    return out


def saturate(formulas, class_axioms, rounds=3):
    """Return ground axiom instances for cnt / rem1 / without / sub / SubSeq terms occurring in `formulas`."""
    out = []
    seen = set()
    work = list(formulas)
    for _ in range(rounds):
        new = []
        for t in subterms(work):
            k = t.get_id()
            if k in seen:
                continue
            seen.add(k)
            if not is_app(t):
                continue
            if _is_uf(t, cnt):
                s, x = t.arg(0), t.arg(1)
                new.append(t >= 0)                                   # count_nonneg
                new.append(t <= Length(s))                           # count_le_length
            elif _is_uf(t, rem1):
                a, y = t.arg(0), t.arg(1)
                new.append(Implies(Cnt(a, y) == 0, t == a))          # erase_of_not_mem
                new.append(Length(t) == Length(a) - b2i(Cnt(a, y) >= 1))  # length_erase
            elif _is_uf(t, without):
                a, y = t.arg(0), t.arg(1)
                new.append(Implies(Cnt(a, y) == 0, t == a))          # filter_ne_of_not_mem
                new.append(Length(t) == Length(a) - Cnt(a, y))       # length_filter_ne
            elif _is_uf(t, dedup):
                a = t.arg(0)
                new.append(Length(t) <= Length(a))
            elif _is_uf(t, sub):
                c = t.arg(0)
                ck = ("cls", c.get_id())
                if ck not in seen:
                    seen.add(ck)
                    new.extend(class_axioms(c))
        if not new:
            break
        out.extend(new)
        work = new
    return out
