"""Term layer of pyvc: sorts, uninterpreted symbols and *smart constructors*.

Everything the SMT solvers cannot do reliably on sequences (counting, erasing
the first / every occurrence, prefixes) is an uninterpreted function whose
defining equations are applied here, by structural rewriting on the term that
is being built (DESIGN.md 3.5).  Each rewrite rule is an instance of a lemma
checked by Lean/Mathlib in /verif/lean/ListLemmas.lean; the name of the lemma
is given next to the rule.  What cannot be rewritten stays an application of
the uninterpreted function and gets its generic axioms from `saturate`.
"""
from __future__ import annotations
import itertools
import z3
from z3 import (And, Or, Not, If, Implies, BoolVal, IntVal, Const, Function,
                BoolSort, IntSort, StringSort, SeqSort, DeclareSort, Concat, Unit,
                Empty, Length, is_app, is_true, is_false)

Ref = DeclareSort("Ref")      # object references (identity); None is a constant of this sort
Cls = DeclareSort("Cls")      # classes
RSeq = SeqSort(Ref)
Int = IntSort()
Bool = BoolSort()
Str = StringSort()

NONE = Const("None", Ref)
PY_TRUE = Const("True", Ref)      # the bool singletons seen as opaque attribute values
PY_FALSE = Const("False", Ref)
QA_INVALID = Const("Vertex._QA_NB_INVALID", Ref)   # the sentinel object of Vertex

# uninterpreted list algebra
cnt = Function("cnt", RSeq, Ref, Int)          # List.count
rem1 = Function("rem1", RSeq, Ref, RSeq)       # List.erase   (list.remove)
without = Function("without", RSeq, Ref, RSeq)  # List.filter (. != y)
dedup = Function("dedup", RSeq, RSeq)
setnth = Function("setnth", RSeq, Int, Ref, RSeq)  # List.set (s[i] = x for 0 <= i < len s)          # first occurrences, order kept ([*dict.fromkeys(s)])

cls_of = Function("cls", Ref, Cls)
sub = Function("sub", Cls, Cls, Bool)          # reflexive-transitive subclass relation
truthy = Function("truthy", Ref, Bool)          # bool(obj) for an arbitrary object (A4: unconstrained for instances)

# `attributes=` dictionaries: an opaque reference with an abstract item list (A9: dict iteration order)
ad_isdict = Function("ad_isdict", Ref, Bool)
ad_len = Function("ad_len", Ref, Int)
ad_key = Function("ad_key", Ref, Int, Str)
ad_val = Function("ad_val", Ref, Int, Ref)
# dictionary built from the first n items (snoc-recursive definition, unfolded by the loop invariant)
ad_has_n = Function("ad_has_n", Ref, Int, Str, Bool)
ad_val_n = Function("ad_val_n", Ref, Int, Str, Ref)

# user callbacks (A7): deterministic functions of their arguments; each invocation may raise
cb1 = Function("cb1", Ref, Ref, Bool)                  # truth value of f(a)
cb2 = Function("cb2", Ref, Ref, Ref, Bool)             # truth value of f(a, b)
cb1_raises = Function("cb1_raises", Ref, Ref, Bool)
cb2_raises = Function("cb2_raises", Ref, Ref, Ref, Bool)
cbv1 = Function("cbv1", Ref, Ref, Ref)                 # value of f(a) for value-returning callbacks (rfunc, sort key ...)
flt = Function("flt", Ref, RSeq, RSeq)                 # List.filter (keep f): the elements w with f None or f(w) true
cls_has = Function("cls_has", Cls, Str, Bool)          # the class provides the attribute (method, property, class attribute)
cls_get = Function("cls_get", Ref, Str, Ref)           # value of a class-provided attribute on an instance
adj_keys = Function("adj_keys", Ref, RSeq)           # the keys of an adjacency dictionary, in insertion order (A9)
adj_row = Function("adj_row", Ref, Ref, RSeq)        # the (materialised) iterable stored under a key
row_cells = Function("row_cells", Ref, RSeq)          # the cells of one row object of a matrix argument (list of lists)
meta_of = Function("meta_of", Cls, Ref)              # the metaclass object of a class
cls_ref = Function("cls_ref", Cls, Ref)              # a class seen as a value (dictionary key)
cls_unref = Function("cls_unref", Ref, Cls)
mkpair = Function("mkpair", Ref, Ref, Ref)           # a 2-tuple value (equality is componentwise)
pfst = Function("pfst", Ref, Ref)
psnd = Function("psnd", Ref, Ref)
jsonk = Function("jsonk", Ref, Ref)                  # json.dumps(kwargs, sort_keys=True) (A9: injective modulo keyword order)
hf_of = Function("hf_of", Ref, Ref)                  # the key function stored on a semi-singleton metaclass
cbv2 = Function("cbv2", Ref, Ref, Ref, Ref)          # value of a two-argument callback
init_raises = Function("init_raises", Cls, Ref, Ref, Bool)   # the user's __init__ raises for these arguments (A7: deterministic)
NONECLS = Const("class:None-argument", Cls)          # `cls=None` for an optional class argument
SSeq = SeqSort(StringSort())
cbs1 = Function("cbs1", Ref, Ref, Str)                 # str() of the value a rendering callback returns for an object
py_repr = Function("py_repr", Ref, Str)                # repr(obj)
sortedby = Function("sortedby", Ref, RSeq, RSeq)       # sorted(seq, key=f): a key-ordered stable permutation (A9), opaque
sjoin = Function("sjoin", Str, SSeq, Str)              # sep.join(list of strings)
int_unbox = Function("int_unbox", Ref, Int)             # the int behind an opaque attribute value
hexid = Function("hexid", Ref, Ref)                    # hex(id(obj)) as an opaque label value
ISeq = SeqSort(IntSort())
joined = Function("net_joined", ISeq, ISeq, Int, Int, Bool)   # some edge record joins the two ids (either orientation)
delnth = Function("delnth", RSeq, Int, RSeq)           # List.eraseIdx (del s[i], 0 <= i < len s)
minus = Function("minus", RSeq, RSeq, RSeq)            # List.diff: remove one occurrence of each element of the second list
# --- PlantUML option tables / string building (C14) ---------------------------------------------------------------------------
mro_len = Function("mro_len", Cls, Int)                # len(cls.__mro__)  (>= 1)
mro_at = Function("mro_at", Cls, Int, Cls)             # cls.__mro__[i]; mro_at(c, 0) = c
cls_name = Function("cls_name", Cls, Str)              # cls.__name__
py_str = Function("py_str", Ref, Str)                  # str(obj) = format(obj, "") of an opaque value
str_box = Function("str_box", Str, Ref)                # a str seen as an opaque value (py_str(str_box(s)) = s)
opt_skin = Function("opt_skin", Ref, Ref)              # options["skinparams"] of an option table (an attrs-like dict)
opt_has_skin = Function("opt_has_skin", Ref, Bool)     # "skinparams" in options
is_pattern = Function("is_pattern", Ref, Bool)         # isinstance(x, re.Pattern)
rx_compile = Function("rx_compile", Str, Ref)          # re.compile(s)  (is_pattern holds of it)
join_o = Function("join_o", Str, Ref, Str)             # sep.join(x) for an opaque iterable of strings x
fmt_apply = Function("fmt_apply", Ref, Ref, Ref)       # fmt.format(**mapping)
chars = Function("chars", Str, SSeq)                   # list(s): the characters of s ("".join(chars(s)) = s)
ocall2_str = Function("ocall2_str", Ref, Ref, Ref, Str)  # the string a user function f(a, b) returns (A7: deterministic)
# --- nrpickler work-list scheduler (C10): queue items and real events as values (A13: nothing depends on the identity of an item)
mk_save = Function("mk_save", Ref, Ref)                # _LazySave(obj)
mk_memo = Function("mk_memo", Ref, Ref)                # _LazyMemo(obj)
item_obj = Function("item_obj", Ref, Ref)              # item.obj
pack1 = Function("pack1", Ref, Ref)                    # the argument tuple (x,)
ev_w = Function("ev_w", Ref, Ref)                      # real event: realwrite(*args)
ev_m = Function("ev_m", Ref, Ref)                      # real event: realmemoize(obj)
pk_body = Function("pk_body", Ref, RSeq, RSeq)         # tokens dill's save(obj) feeds to write / memoize / save, given the events so far
pk_exec = Function("pk_exec", RSeq, RSeq, RSeq)        # depth-first execution of a queue from a trace (lean/Scheduler.lean: Exec)
pk_aq = Function("pk_aq", RSeq, RSeq, RSeq, RSeq)      # applyTok tokens Q R: the queue afterwards
pk_ar = Function("pk_ar", RSeq, RSeq, RSeq, RSeq)      # applyTok tokens Q R: the trace afterwards
py_ge = Function("py_ge", Ref, Int, Bool)              # opaque value >= int
wl_ok = Function("wl_ok", Ref, Bool)                   # a content value has the shape {key: mapping} (items() / dict() of every entry work)
wl_new = Function("wl_new", Ref, Ref, Bool)            # x is one of the dict objects a deep copy r created
selkeys = Function("selkeys", RSeq, Ref, RSeq)         # [k for k in s if k[0] is c]: List.filter on the first component of pair keys

_counter = itertools.count()


def fresh(prefix: str, sort):
    return Const(f"{prefix}!{next(_counter)}", sort)


def EMPTY():
    return Empty(RSeq)


def unit(x):
    return Unit(x)


def snoc(s, x):
    return cat(s, Unit(x))


def cat(*parts):
    ps = []
    for p in parts:
        if _is_empty(p):
            continue
        if _is_concat(p):
            ps.extend(_flat(p))
        else:
            ps.append(p)
    if not ps:
        return EMPTY()
    if len(ps) == 1:
        return ps[0]
    return Concat(*ps)


def _flat(s):
    """parts of a (possibly nested) concatenation, left to right"""
    if not _is_concat(s):
        return [s]
    out = []
    for c in s.children():
        out.extend(_flat(c))
    return out


def seq_of(*xs):
    return cat(*[Unit(x) for x in xs])


# --- structural recognisers -------------------------------------------------

def _kind(t):
    return t.decl().kind() if is_app(t) else None


def _is_empty(t):
    return _kind(t) == z3.Z3_OP_SEQ_EMPTY


def _is_unit(t):
    return _kind(t) == z3.Z3_OP_SEQ_UNIT


def _is_concat(t):
    return _kind(t) == z3.Z3_OP_SEQ_CONCAT


def _is_ite(t):
    return _kind(t) == z3.Z3_OP_ITE


def _is_uf(t, f):
    return is_app(t) and t.decl().eq(f)


def same(a, b) -> bool:
    """syntactic identity"""
    return a.eq(b)


def ite(c, a, b):
    if is_true(c):
        return a
    if is_false(c):
        return b
    if a.eq(b):
        return a
    return If(c, a, b)


CONCRETE = {}         # ast id -> constant standing for a distinct concrete object (run-time monitor); keeps them alive


def eq(a, b):
    if a.eq(b):
        return BoolVal(True)
    if CONCRETE and a.get_id() in CONCRETE and b.get_id() in CONCRETE:
        return BoolVal(False)
    return a == b


def conj(*cs):
    out = []
    for c in cs:
        if isinstance(c, (list, tuple)):
            c = conj(*c)
        if is_true(c):
            continue
        if is_false(c):
            return BoolVal(False)
        out.append(c)
    if not out:
        return BoolVal(True)
    if len(out) == 1:
        return out[0]
    return And(*out)


def disj(*cs):
    out = []
    for c in cs:
        if isinstance(c, (list, tuple)):
            c = disj(*c)
        if is_false(c):
            continue
        if is_true(c):
            return BoolVal(True)
        out.append(c)
    if not out:
        return BoolVal(False)
    if len(out) == 1:
        return out[0]
    return Or(*out)


def neg(c):
    if is_true(c):
        return BoolVal(False)
    if is_false(c):
        return BoolVal(True)
    if is_app(c) and c.decl().kind() == z3.Z3_OP_NOT:
        return c.arg(0)
    return Not(c)


def b2i(c):
    return ite(c, IntVal(1), IntVal(0))


# --- counting -----------------------------------------------------------------

def Cnt(s, x):
    """number of occurrences of x in s  (List.count)"""
    if _is_empty(s):
        return IntVal(0)
    if _is_unit(s):                       # count_singleton
        return b2i(eq(s.arg(0), x))
    if _is_concat(s):                     # count_append
        return z3.Sum([Cnt(p, x) for p in _flat(s)])
    if _is_ite(s):
        return ite(s.arg(0), Cnt(s.arg(1), x), Cnt(s.arg(2), x))
    if _is_uf(s, rem1):                   # count_erase
        a, y = s.arg(0), s.arg(1)
        return Cnt(a, x) - b2i(conj(eq(x, y), Cnt(a, y) >= 1))
    if _is_uf(s, without):                # count_filter_ne
        a, y = s.arg(0), s.arg(1)
        return ite(eq(x, y), IntVal(0), Cnt(a, x))
    if _is_uf(s, dedup):                  # count_dedup
        return b2i(Cnt(s.arg(0), x) >= 1)
    if _is_uf(s, flt):                    # count_filter
        return ite(keep(s.arg(0), x), Cnt(s.arg(1), x), IntVal(0))
    if _is_uf(s, selkeys):                # count_filter
        return ite(eq(pfst(x), s.arg(1)), Cnt(s.arg(0), x), IntVal(0))
    if _is_uf(s, minus):                  # count_diff
        a, p_ = s.arg(0), s.arg(1)
        ca, cp = Cnt(a, x), Cnt(p_, x)
        return ite(ca >= cp, ca - cp, IntVal(0))
    if _is_uf(s, setnth):                 # count_set  (index in range: guaranteed where setnth is built)
        a, i, y = s.arg(0), s.arg(1), s.arg(2)
        return Cnt(a, x) - b2i(eq(Nth(a, i), x)) + b2i(eq(y, x))
    return cnt(s, x)                      # generic: cnt >= 0 added by saturate


def Mem(s, x):
    """x in s  (mem_iff_count_pos)"""
    return Cnt(s, x) >= 1


def Len(s):
    if _is_empty(s):
        return IntVal(0)
    if _is_unit(s):
        return IntVal(1)
    if _is_concat(s):
        return z3.Sum([Len(p) for p in _flat(s)])
    if _is_ite(s):
        return ite(s.arg(0), Len(s.arg(1)), Len(s.arg(2)))
    if _is_uf(s, rem1):                   # length_erase
        a, y = s.arg(0), s.arg(1)
        return Len(a) - b2i(Cnt(a, y) >= 1)
    if _is_uf(s, setnth):                 # length_set
        return Len(s.arg(0))
    if _is_uf(s, delnth):                 # length_eraseIdx
        return Len(s.arg(0)) - 1
    return Length(s)


def Rem1(s, y):
    """remove the first occurrence of y (list.remove without the ValueError)  (List.erase)"""
    if _is_empty(s):
        return EMPTY()
    if _is_unit(s):
        return ite(eq(s.arg(0), y), EMPTY(), s)
    if _is_concat(s):                     # erase_append
        ch = _flat(s)
        head, last = cat(*ch[:-1]), ch[-1]
        return ite(Cnt(head, y) >= 1, cat(Rem1(head, y), last), cat(head, Rem1(last, y)))
    if _is_ite(s):
        return ite(s.arg(0), Rem1(s.arg(1), y), Rem1(s.arg(2), y))
    return rem1(s, y)


def Without(s, y):
    """remove every occurrence of y  (List.filter (. != y))"""
    if _is_empty(s):
        return EMPTY()
    if _is_unit(s):
        return ite(eq(s.arg(0), y), EMPTY(), s)
    if _is_concat(s):                     # filter_append
        return cat(*[Without(p, y) for p in _flat(s)])
    if _is_ite(s):
        return ite(s.arg(0), Without(s.arg(1), y), Without(s.arg(2), y))
    return without(s, y)


def Minus(s, p):
    """remove one occurrence of each element of p from s, in the order of p  (List.diff)"""
    if _is_empty(p):
        return s
    if _is_unit(p):
        return Rem1(s, p.arg(0))
    if _is_concat(p):                     # diff_append
        ch = _flat(p)
        if _is_unit(ch[-1]):
            return Rem1(Minus(s, cat(*ch[:-1])), ch[-1].arg(0))
    if _is_ite(p):
        return ite(p.arg(0), Minus(s, p.arg(1)), Minus(s, p.arg(2)))
    return minus(s, p)


def opt_cb_ok(f):
    """precondition on an optional callback that the code tests by truth value (`if f:`, `f and f(x)`): it is None or a truthy
    object, so that "given" means the same under either reading (`is not None` / truthiness)"""
    return disj(eq(f, NONE), truthy(f))


def keep(f, w):
    return disj(eq(f, NONE), cb1(f, w))


def Flt(f, s):
    """the elements of s kept by the optional filter callback f  (List.filter; filter_append)"""
    if _is_empty(s):
        return s
    if _is_unit(s):
        return ite(keep(f, s.arg(0)), s, EMPTY())
    if _is_concat(s):
        return cat(*[Flt(f, p) for p in _flat(s)])
    if _is_ite(s):
        return ite(s.arg(0), Flt(f, s.arg(1)), Flt(f, s.arg(2)))
    return flt(f, s)


def SJoin(sep, ss):
    """sep.join(ss) by snoc recursion: join [] = "", join (s ++ [x]) = x if s is empty else join s ++ sep ++ x"""
    k = _kind(ss)
    if k == z3.Z3_OP_SEQ_EMPTY:
        return z3.StringVal("")
    if k == z3.Z3_OP_SEQ_UNIT:
        return ss.arg(0)
    if k == z3.Z3_OP_SEQ_CONCAT:
        parts = _flat(ss)
        if _kind(parts[-1]) == z3.Z3_OP_SEQ_UNIT:
            head = parts[0] if len(parts) == 2 else Concat(*parts[:-1])
            x = parts[-1].arg(0)
            return ite(Length(head) == 0, x, Concat(SJoin(sep, head), sep, x))
    return sjoin(sep, ss)


def Dedup(s):
    """first occurrences, order kept  (List.dedup on the reversed list; [*dict.fromkeys(s)])"""
    if _is_empty(s) or _is_unit(s):
        return s
    if _is_concat(s):
        ch = _flat(s)
        if _is_unit(ch[-1]):              # dedup_snoc
            head, x = cat(*ch[:-1]), ch[-1].arg(0)
            return ite(Cnt(head, x) >= 1, Dedup(head), cat(Dedup(head), ch[-1]))
    if _is_ite(s):
        return ite(s.arg(0), Dedup(s.arg(1)), Dedup(s.arg(2)))
    return dedup(s)


def Nth(s, i):
    """s[i] for 0 <= i < len(s) (callers guard the range)"""
    if isinstance(i, int):
        iv = i
        i = IntVal(i)
    else:
        iv = i.as_long() if z3.is_int_value(i) else None
    if iv is not None:
        if _is_unit(s) and iv == 0:
            return s.arg(0)
        if _is_concat(s):
            ch = _flat(s)
            if iv < len(ch) and all(_is_unit(c) for c in ch[: iv + 1]):
                return ch[iv].arg(0)
    if _is_ite(s):
        return ite(s.arg(0), Nth(s.arg(1), i), Nth(s.arg(2), i))
    if _is_uf(s, setnth):                 # getElem_set
        a, j, y = s.arg(0), s.arg(1), s.arg(2)
        return ite(eq(simplify_int(j), simplify_int(i)), y, Nth(a, i))
    return s[i]


def simplify_int(i):
    return z3.simplify(i) if not z3.is_int_value(i) else i


def SetNth(s, i, x):
    """s with position i replaced by x; needs 0 <= i < len(s) (callers guard the range)"""
    if isinstance(i, int):
        i = IntVal(i)
    if _is_ite(s):
        return ite(s.arg(0), SetNth(s.arg(1), i, x), SetNth(s.arg(2), i, x))
    if z3.is_int_value(i) and _is_concat(s):
        n = i.as_long()
        ch = _flat(s)
        if n < len(ch) and all(_is_unit(c) for c in ch[: n + 1]):
            return cat(*ch[:n], Unit(x), *ch[n + 1:])
    if z3.is_int_value(i) and _is_unit(s) and i.as_long() == 0:
        return Unit(x)
    return setnth(s, i, x)


# --- saturation: generic axioms of the uninterpreted symbols, instantiated at the terms of a query ----------------

import ctypes
from z3 import z3core as _c


class Scanner:
    """One-pass, incremental classification of the subterms of a growing set of formulas (raw C API: the Python
    wrappers of z3 are too slow for the term sizes produced by explicit heap updates)."""

    CATS = ("cnt", "rem1", "without", "dedup", "setnth", "minus", "sub", "nth", "ref", "mkpair", "cls_ref", "mro_at", "mro_len",
            "str_box", "rx_compile", "mk_save", "mk_memo")

    def __init__(self):
        self.ctx = z3.main_ctx()
        self.cref = self.ctx.ref()
        self.seen = set()
        self.keep = []                      # keep the roots alive
        self.ufid = {}
        for name, f in (("cnt", cnt), ("rem1", rem1), ("without", without), ("dedup", dedup), ("setnth", setnth), ("minus", minus), ("sub", sub),
                        ("mkpair", mkpair), ("cls_ref", cls_ref), ("mro_at", mro_at), ("mro_len", mro_len), ("str_box", str_box),
                        ("rx_compile", rx_compile), ("mk_save", mk_save), ("mk_memo", mk_memo)):
            self.ufid[_c.Z3_get_ast_id(self.cref, _c.Z3_func_decl_to_ast(self.cref, f.ast))] = name
        self.ref_sort_id = _c.Z3_get_ast_id(self.cref, _c.Z3_sort_to_ast(self.cref, Ref.ast))

    def add(self, formulas):
        """walk the new formulas; return {category: [ExprRef]} and {fieldname: [arg tuples]} for nodes not seen before"""
        c = self.cref
        found = {k: [] for k in self.CATS}
        fields = {}
        stack = []
        for f in formulas:
            self.keep.append(f)
            stack.append(f.as_ast())
        seen = self.seen
        while stack:
            a = stack.pop()
            aid = _c.Z3_get_ast_id(c, a)
            if aid in seen:
                continue
            seen.add(aid)
            k = _c.Z3_get_ast_kind(c, a)
            if k == z3.Z3_QUANTIFIER_AST:
                stack.append(_c.Z3_get_quantifier_body(c, a))
                continue
            if k != z3.Z3_APP_AST:
                continue
            app = _c.Z3_to_app(c, a)
            n = _c.Z3_get_app_num_args(c, app)
            for i in range(n):
                stack.append(_c.Z3_get_app_arg(c, app, i))
            d = _c.Z3_get_app_decl(c, app)
            dk = _c.Z3_get_decl_kind(c, d)
            cat = None
            if dk == z3.Z3_OP_UNINTERPRETED:
                did = _c.Z3_get_ast_id(c, _c.Z3_func_decl_to_ast(c, d))
                cat = self.ufid.get(did)
                if cat is None and n > 0:
                    nm = _c.Z3_get_symbol_string(c, _c.Z3_get_decl_name(c, d)) if _c.Z3_get_symbol_kind(c, _c.Z3_get_decl_name(c, d)) == z3.Z3_STRING_SYMBOL else ""
                    if "@" in nm:
                        e = z3.ExprRef(a, self.ctx)
                        fields.setdefault(nm.split("@", 1)[0], []).append(tuple(e.children()))
            elif dk == z3.Z3_OP_SEQ_NTH:
                cat = "nth"
            if cat is not None:
                found[cat].append(z3.z3._to_expr_ref(a, self.ctx))
            if dk != z3.Z3_OP_ITE:
                srt = _c.Z3_get_sort(c, a)
                if _c.Z3_get_ast_id(c, _c.Z3_sort_to_ast(c, srt)) == self.ref_sort_id:
                    found["ref"].append(z3.z3._to_expr_ref(a, self.ctx))
        return found, fields


def subterms(es):
    seen = {}
    stack = list(es)
    while stack:
        t = stack.pop()
        k = t.get_id()
        if k in seen:
            continue
        seen[k] = t
        if is_app(t):
            stack.extend(t.children())
        elif z3.is_quantifier(t):
            stack.append(t.body())
    return list(seen.values())


def axioms_for(found, class_axioms, seen_cls):
    """generic axiom instances for newly found terms"""
    new = []
    for t in found["cnt"]:
        s, x = t.arg(0), t.arg(1)
        new.append(t >= 0)                                   # count_nonneg
        new.append(t <= Length(s))                           # count_le_length
        new.append(Implies(Length(s) == 0, t == 0))           # count_nil
        # end lists are short: count unfolds completely (count_cons); only for reads of the `_vertices` field
        if is_app(s) and s.num_args() == 1 and s.decl().name().startswith("_vertices@"):
            new.append(Implies(Length(s) == 1, t == b2i(s[0] == x)))
            new.append(Implies(Length(s) == 2, t == b2i(s[0] == x) + b2i(s[1] == x)))
    for t in found["rem1"]:
        a, y = t.arg(0), t.arg(1)
        new.append(Implies(Cnt(a, y) == 0, t == a))          # erase_of_not_mem
        new.append(Length(t) == Length(a) - b2i(Cnt(a, y) >= 1))  # length_erase
    for t in found["without"]:
        a, y = t.arg(0), t.arg(1)
        new.append(Implies(Cnt(a, y) == 0, t == a))          # filter_ne_of_not_mem
        new.append(Length(t) == Length(a) - Cnt(a, y))       # length_filter_ne
    for t in found["dedup"]:
        new.append(Length(t) <= Length(t.arg(0)))
    for t in found["setnth"]:
        new.append(Length(t) == Length(t.arg(0)))
    for t in found.get("minus", ()):
        new.append(Length(t) <= Length(t.arg(0)))
        new.append(Implies(Length(t.arg(1)) == 0, t == t.arg(0)))   # diff_nil
    for t in found["sub"]:
        c = t.arg(0)
        ck = c.get_id()
        if ck not in seen_cls:
            seen_cls.add(ck)
            new.extend(class_axioms(c))
    for t in found.get("mkpair", ()):                        # tuples are equal iff their components are
        new.append(pfst(t) == t.arg(0))
        new.append(psnd(t) == t.arg(1))
    for t in found.get("cls_ref", ()):
        new.append(cls_unref(t) == t.arg(0))
    for t in list(found.get("mro_at", ())) + list(found.get("mro_len", ())):
        c = t.arg(0)                                         # Python: cls.__mro__ is non-empty and starts with cls itself
        new.append(mro_len(c) >= 1)
        new.append(mro_at(c, IntVal(0)) == c)
    for t in found.get("str_box", ()):                       # str() of a str is the str itself
        new.append(py_str(t) == t.arg(0))
    for t in found.get("rx_compile", ()):                    # re.compile returns a pattern object (A10)
        new.append(is_pattern(t))
        new.append(t != NONE)
    for (cat_, cn_) in (("mk_save", "_LazySave"), ("mk_memo", "_LazyMemo")):
        for t in found.get(cat_, ()):                        # a queue item is a record of its class holding its payload
            new.append(cls_of(t) == Const(f"class:{cn_}", Cls))
            new.append(item_obj(t) == t.arg(0))
            new.append(t != NONE)
    for t in found["nth"]:
        if t.sort().eq(Ref):                                 # getElem_mem
            s, i = t.arg(0), t.arg(1)
            new.append(Implies(And(i >= 0, i < Length(s)), Cnt(s, t) >= 1))
    return new


def saturate(formulas, class_axioms, rounds=3):
    """ground axiom instances for the terms occurring in `formulas` (used by the cheap feasibility check)"""
    sc = Scanner()
    out = []
    seen_cls = set()
    work = list(formulas)
    for _ in range(rounds):
        found, _fields = sc.add(work)
        new = axioms_for(found, class_axioms, seen_cls)
        if not new:
            break
        out.extend(new)
        work = new
    return out
