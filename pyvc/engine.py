"""pyvc symbolic executor: generates verification conditions from the AST of the real functions.

One function at a time (modular): calls are replaced by the callee's contract, loops are cut by the invariants of
the sidecar files.  Every path is explored separately (no merging); infeasible branches are pruned by a cheap ground
query.  Anything outside the supported subset raises `Unsupported`, which makes the *function* undecided (never a
violation).
"""
from __future__ import annotations
import ast
import copy
import itertools
from dataclasses import dataclass, field
import z3
from . import terms as T
from .terms import Ref, RSeq, Int, Bool, Str, Cls, NONE
from .state import State, FIELD_SORTS
from .values import *
from .contracts import (REG, Registry, Contract, Spec, SpecCtx, Outcome, Schema, Loose, LoopSpec, LoopInv, Param)
from .classes import ClassTable
from .extract import Repo, FuncInfo, function_body


class Unsupported(Exception):
    pass


EXC_PARENTS = {
    "IndexError": "LookupError", "KeyError": "LookupError", "LookupError": "Exception", "ValueError": "Exception",
    "TypeError": "Exception", "AttributeError": "Exception", "NotImplementedError": "RuntimeError",
    "RuntimeError": "Exception", "AssertionError": "Exception", "UserExc": "Exception", "StopIteration": "Exception",
    "ImportError": "Exception", "Exception": "BaseException",
}


def exc_matches(exc: str, handler: str) -> bool:
    while exc is not None:
        if exc == handler:
            return True
        exc = EXC_PARENTS.get(exc)
    return False


@dataclass
class Oblig:
    oid: str
    func: str
    kind: str
    hyps: list
    schemas: list
    goal: z3.BoolRef
    expect: str = "unsat"          # 'unsat': goal must be valid under hyps; 'sat': cover (hyps must be satisfiable)
    meta: dict = field(default_factory=dict)
    group: str | None = None       # obligations of one group share their hypotheses: discharged as one conjunction first


class Path:
    __slots__ = ("env", "st", "pc", "schemas", "allocs", "out", "trail", "ghost")

    def __init__(self):
        self.env = {}
        self.st = None
        self.pc = []
        self.schemas = []
        self.allocs = []      # (ref, class term, kind 'obj'|'container')
        self.out = None       # generator ghost output
        self.trail = []
        self.ghost = {}

    def copy(self):
        p = Path()
        p.env = dict(self.env)
        p.st = self.st.copy()
        p.pc = list(self.pc)
        p.schemas = list(self.schemas)
        p.allocs = list(self.allocs)
        p.out = self.out
        p.trail = list(self.trail)
        p.ghost = dict(self.ghost)
        return p

    def assume(self, c):
        if z3.is_true(c):
            return
        self.pc.append(c)
        # an equation between sequences: counting is a function of the sequence, expanded structurally on both
        # sides for every reference term of the query (count_append etc.; the solver only has congruence for cnt)
        if z3.is_eq(c) and c.arg(0).sort().eq(RSeq):
            a, b = c.arg(0), c.arg(1)
            if any(T._is_concat(t) or T._is_unit(t) or T._is_empty(t) or T._is_ite(t) for t in (a, b)):
                parts = [t for t in ([a] + T._flat(a) + [b] + T._flat(b)) if not (T._is_unit(t) or T._is_empty(t) or T._is_concat(t))]
                units = [t.arg(0) for t in (T._flat(a) + T._flat(b)) if T._is_unit(t)]
                self.schemas.append(Schema("cnt-of-equal-sequences", (Ref,), lambda y, a=a, b=b: T.Cnt(a, y) == T.Cnt(b, y),
                                           trigger=("cnt-args", tuple(parts), tuple(units))))


@dataclass
class LoopCtx:
    env: dict
    st: State            # heap at loop entry
    pre: State           # heap at function entry
    prefix: z3.ExprRef | None
    seq: z3.ExprRef | None
    elem: z3.ExprRef | None = None
    args: dict = None
    engine: object = None
    k: z3.ExprRef | None = None   # ghost iteration counter (while loops)

    def t(self, name):
        v = self.env[name]
        return v.term if hasattr(v, "term") else v.ref


class Engine:
    def __init__(self, repo: Repo, reg: Registry = REG, solver_timeout_ms=3000):
        self.repo = repo
        self.reg = reg
        self.ct = ClassTable(repo)
        self.obligs: list[Oblig] = []
        self.prune_timeout = solver_timeout_ms
        self.cur: FuncInfo | None = None
        self.cur_contract: Contract | None = None
        self.pre: State | None = None
        self.args = {}
        self._oid_count = {}
        self.stats = {"paths": 0, "pruned": 0}
        self.loop_ord = {}

    # ------------------------------------------------------------------ utilities
    def base_facts(self):
        return self.ct.ground_facts()

    def feasible(self, p: Path, extra=None) -> bool:
        s = z3.Solver()
        s.set("timeout", self.prune_timeout)
        fs = list(p.pc) + ([extra] if extra is not None else [])
        fs += self.base_facts()
        fs += T.saturate(fs, self.ct.axioms_for)
        s.add(*fs)
        r = s.check()
        if r == z3.unsat:
            self.stats["pruned"] += 1
            return False
        return True

    def fork(self, p: Path, cond, label=""):
        """-> list of (path, bool) for the feasible sides of `cond`"""
        if z3.is_true(cond):
            return [(p, True)]
        if z3.is_false(cond):
            return [(p, False)]
        out = []
        if self.feasible(p, cond):
            pt = p.copy()
            pt.assume(cond)
            pt.trail.append(label + "+")
            out.append((pt, True))
        nc = T.neg(cond)
        if self.feasible(p, nc):
            pf = p.copy()
            pf.assume(nc)
            pf.trail.append(label + "-")
            out.append((pf, False))
        return out

    def oid(self, base):
        n = self._oid_count.get(base, 0)
        self._oid_count[base] = n + 1
        return base if n == 0 else f"{base}#{n}"

    def emit(self, p: Path, kind, name, goal, expect="unsat", meta=None, extra_hyps=()):
        if z3.is_true(goal) and expect == "unsat":
            # trivially valid: still recorded (counted as discharged syntactically)
            pass
        m = {"trail": "".join(p.trail[-12:])}
        if meta:
            m.update(meta)
        fq = (getattr(self, "cur_qual", None) or self.cur.qualname) if self.cur else "lemma"
        grp = getattr(self, "_group", None)
        if grp is not None and extra_hyps:
            goal = z3.Implies(z3.And(*extra_hyps), goal)
            extra_hyps = ()
        self.obligs.append(Oblig(self.oid(f"{fq}/{name}"), fq, kind,
                                 list(p.pc) + list(extra_hyps), list(p.schemas), goal, expect, m,
                                 group=(f"{grp}:{id(p)}" if grp is not None and expect == "unsat" else None)))

    # ------------------------------------------------------------------ allocation
    def freshness_schemas(self, r, S: State, container=False):
        """a newly allocated object is not referenced from anywhere in heap S (allocation model, DESIGN.md 3.3)"""
        if container:
            # a new list / set / dict object: the only places a container reference can be stored are the neighbor memo
            # and dynamic attributes (the typed fields hold edgegraph objects): keep the instantiation small
            def g2(v, d, u, f):
                return S.read("memo_val", v, d, u, f) != r
            return [Schema(f"fresh-memo({r})", (Ref, Int, Int, Ref), g2, trigger=("memo_val", "memo_has"))]

        def f1(x):
            return T.conj(T.neg(T.Mem(S.links(x), r)), T.neg(T.Mem(S.ends(x), r)), T.neg(T.Mem(S.unis(x), r)),
                          S.laws(x) != r, S.applies(x) != r, T.neg(T.Mem(S.elems(x), r)),
                          T.neg(S.read("setmem", x, r)), T.neg(S.read("dmem", x, r)), S.read("_edge_whitelist", x) != r)
        sch = [Schema(f"fresh({r})", (Ref,), f1, filter=True)]
        mh = S._fs("memo_val")

        def f2(v, d, u, f):
            return T.conj(S.read("memo_val", v, d, u, f) != r, f != r)
        sch.append(Schema(f"fresh-memo({r})", (Ref, Int, Int, Ref), f2, trigger=("memo_val", "memo_has")))

        def f3(o, n):
            return S.read("dyn_val", o, n) != r
        sch.append(Schema(f"fresh-dyn({r})", (Ref, Str), f3, trigger=("dyn_val", "dyn_has")))
        return sch

    def distinct_from_args(self, p: Path, r):
        """a newly allocated object is none of the arguments and occurs in none of the argument sequences"""
        for v in self.args.values():
            if isinstance(v, (VRef, VCallback, VAttrs, VOptTable, VOpts)):
                p.assume(r != v.term)
            elif isinstance(v, (VList, VSet, VDict)):
                p.assume(r != v.ref)
            elif isinstance(v, VIter):
                p.assume(T.neg(T.Mem(v.seq, r)))
            elif isinstance(v, VSeq):
                p.assume(T.neg(T.Mem(v.term, r)))
            elif isinstance(v, VAdj):
                p.assume(r != v.term)
                p.assume(T.neg(T.Mem(T.adj_keys(v.term), r)))
                p.schemas.append(Schema(f"fresh-adj({r})", (Ref,), lambda k, a=v.term, r=r: T.neg(T.Mem(T.adj_row(a, k), r)), filter=True))

    def alloc(self, p: Path, cls_term, kind="obj", name="new"):
        r = T.fresh(name, Ref)
        p.assume(r != NONE)
        p.assume(r != T.QA_INVALID)
        p.assume(T.cls_of(r) == cls_term)
        for (o, _c, _k) in p.allocs:
            p.assume(r != o)
        self.distinct_from_args(p, r)
        for v_ in p.env.values():          # a new object is none of the objects the locals refer to
            t_ = getattr(v_, "ref", None) if isinstance(v_, (VList, VSet, VDict)) else (v_.term if isinstance(v_, VRef) else None)
            if t_ is not None and not t_.eq(NONE):
                p.assume(r != t_)
        p.schemas.extend(self.freshness_schemas(r, p.st, container=(kind == "container")))
        if kind == "container":
            p.st.write("selems", r, z3.Empty(T.SSeq))       # same default as contracts.OutcomeBuilder.fresh
        if kind == "obj":
            # a new instance has no dynamic attributes and an empty memo until someone sets them
            p.st.write_where("dyn_has", lambda a, r=r: (T.eq(a[0], r), z3.BoolVal(False)))
            p.st.write_where("memo_has", lambda a, r=r: (T.eq(a[0], r), z3.BoolVal(False)))
        p.allocs.append((r, cls_term, kind))
        return r

    def new_list(self, p: Path, seq, elem_cname=None, name="list"):
        r = self.alloc(p, self.ct.Other, "container", name)
        p.st.write("elems", r, seq)
        return VList(r, elem_cname)

    def new_strlist(self, p: Path, sseq, name="strlist"):
        """a list object holding strings: contents in the heap field `selems`"""
        r = self.alloc(p, self.ct.Other, "container", name)
        p.st.write("elems", r, T.EMPTY())
        p.st.write("selems", r, sseq)
        return VList(r, "<str>")

    def new_set(self, p: Path, elem_cname=None, name="set"):
        r = self.alloc(p, self.ct.Other, "container", name)
        p.st.write_where("setmem", lambda a, r=r: (T.eq(a[0], r), z3.BoolVal(False)))
        return VSet(r, elem_cname)

    def new_dict(self, p: Path, key_cname=None, name="dict"):
        r = self.alloc(p, self.ct.Other, "container", name)
        p.st.write("dkeys", r, T.EMPTY())
        return VDict(r, key_cname)

    # ------------------------------------------------------------------ parameters
    def make_param(self, prm: Param, p: Path | None, owner_cls=None, prefix=""):
        """create a symbolic argument for a contract parameter and return (V, [typing assumptions])"""
        ty = prm.ty
        nm = prefix + prm.name
        facts = []
        if ty in ("int",):
            return VInt(z3.Int(nm)), facts
        if ty == "bool":
            return VBool(z3.Bool(nm)), facts
        if ty == "str":
            return VStr(z3.String(nm)), facts
        if ty.startswith("cb:"):
            t = z3.Const(nm, Ref)
            facts.append(z3.Or(t == NONE, T.cls_of(t) == self.ct.Other))
            facts.append(t != T.QA_INVALID)
            return VCallback(t, ty[3:]), facts
        if ty.startswith("cls<="):
            t = z3.Const(nm, Cls)
            facts.append(T.sub(t, self.ct.c(ty[5:])))
            return VCls(t, None, ty[5:]), facts
        if ty in ("cls", "clsopt"):
            t = z3.Const(nm, Cls)
            if ty == "cls":
                facts.append(t != T.NONECLS)
            return VCls(t, None, None), facts
        if ty == "adj":
            t = z3.Const(nm, Ref)
            facts.append(t != NONE)
            return VAdj(t), facts
        if ty == "pack":
            t = z3.Const(nm, Ref)
            return VRef(t, None, "opaque"), facts
        if ty == "any":
            t = z3.Const(nm, Ref)
            return VRef(t, None, "opaque"), facts
        if ty.startswith("iter:") or ty.startswith("iter?:"):
            opt = ty.startswith("iter?:")
            en = ty.split(":", 1)[1]
            s = z3.Const(nm + ".items", RSeq)
            isn = z3.Bool(nm + ".is_none") if opt else z3.BoolVal(False)
            v = VIter(s, en.rstrip("?") or None, isn)
            v.elem_nullable = en.endswith("?")
            return v, facts
        if ty.startswith("seq:"):
            # a list argument that is only read: indexable, re-iterable.  seq:rows = a list of row lists (matrix): the elements
            # are row objects whose cells are row_cells(row)
            en = ty[4:]
            s = z3.Const(nm, RSeq)
            return VSeq(s, None if en == "rows" else (en or None), "rows" if en == "rows" else "list"), facts
        if ty.startswith("list:"):
            t = z3.Const(nm, Ref)
            facts.append(t != NONE)
            facts.append(T.cls_of(t) == self.ct.Other)
            return VList(t, ty[5:] or None), facts
        if ty == "attrs":
            t = z3.Const(nm, Ref)
            facts.append(T.ad_len(t) >= 0)
            return VAttrs(t), facts
        if ty.startswith("dict"):
            t = z3.Const(nm, Ref)
            return VDict(t, None), facts
        if ty in ("opttable", "opts"):
            t = z3.Const(nm, Ref)
            facts.append(t != NONE)
            facts.append(T.cls_of(t) == self.ct.Other)
            return (VOptTable(t) if ty == "opttable" else VOpts(t)), facts
        # object reference of a repo class, optionally nullable
        nullable = ty.endswith("?")
        cn = ty.rstrip("?")
        t = z3.Const(nm, Ref)
        isa = self.ct.is_a(t, cn)
        if nullable:
            facts.append(z3.Or(t == NONE, isa))
        else:
            facts.append(isa)
            facts.append(t != NONE)
        facts.append(t != T.QA_INVALID)
        return VRef(t, cn, "obj"), facts

    # ------------------------------------------------------------------ verification of one function body
    def entry_path(self, qualname: str, need_body=True):
        """symbolic arguments, pre-state and contract instance for a function under contract"""
        base_q, _, variant = qualname.partition("#")
        fi = self.repo.functions.get(base_q)
        c = self.reg.contracts.get(qualname)
        if fi is None:
            raise Unsupported(f"function {base_q} is under contract but missing from the tree")
        if c is None:
            raise Unsupported(f"no contract for {qualname}")
        self.cur, self.cur_contract = fi, c
        self.cur_variant = variant or None
        self.cur_qual = qualname
        p = Path()
        p.st = State("pre")
        self.pre = p.st.copy()
        args = {}
        for prm in c.params:
            v, facts = self.make_param(prm, p)
            args[prm.name] = v
            for f in facts:
                p.assume(f)
        self.args = args
        # constructors: `self` is a freshly allocated, unreferenced object
        if fi.node.name == "__init__":
            sref = args["self"].term
            p.schemas.extend(self.freshness_schemas(sref, p.st))
            p.st.write_where("dyn_has", lambda a, r=sref: (T.eq(a[0], r), z3.BoolVal(False)))
            p.st.write_where("memo_has", lambda a, r=sref: (T.eq(a[0], r), z3.BoolVal(False)))
            self.pre = p.st.copy()
            for k, v in args.items():
                if k != "self" and isinstance(v, (VRef, VCallback, VAttrs)):
                    p.assume(v.term != sref)
                if k != "self" and isinstance(v, (VList, VSet, VDict)):
                    p.assume(v.ref != sref)
                if isinstance(v, VIter):
                    p.assume(T.neg(T.Mem(v.seq, sref)))     # a new object is not an element of an argument
                if isinstance(v, VSeq):
                    p.assume(T.neg(T.Mem(v.term, sref)))
            p.allocs.append((sref, T.cls_of(sref), "self"))
        spec = self.build_spec(c, self.pre, args, p, site="body")
        self.ghost_measure = spec.measure
        for (_lbl, r) in spec.requires:
            p.assume(r)
        for g_ in spec.gdefs:
            p.assume(g_)
        p.schemas.extend(spec.assume_schemas)
        return fi, c, p, args, spec

    def verify_function(self, qualname: str):
        fi, c, p, args, spec = self.entry_path(qualname)
        self.loop_ord = {}
        self._number_loops(fi.node)
        # vacuity guard: the precondition must be satisfiable
        self.emit(p, "cover", "cover/requires", z3.BoolVal(True), expect="sat")
        # bind python parameters
        self.bind_params(fi, p, args)
        if c.is_generator:
            p.out = T.EMPTY()
        results = self.exec_block(function_body(fi), p)
        self.stats["paths"] += len(results)
        for (rp, ctrl) in results:
            self.check_exit(rp, ctrl, spec, c)
        return spec

    def enter_outcome(self, q: Path, o: Outcome, call_state: State):
        """continue path q in the post-state of contract outcome o (q already assumes o.cond)"""
        q.st = o.post.copy()
        for (r, clsn) in o.fresh:
            is_cont = isinstance(clsn, str) and clsn == "<container>"
            clsterm = self.ct.Other if is_cont else (self.ct.c(clsn) if isinstance(clsn, str) else clsn)
            kind = "container" if is_cont else "obj"
            q.assume(r != NONE)
            q.assume(r != T.QA_INVALID)
            q.assume(T.cls_of(r) == clsterm)
            for (o2, _c, _k) in q.allocs:
                q.assume(r != o2)
            self.distinct_from_args(q, r)
            q.schemas.extend(self.freshness_schemas(r, call_state, container=(kind == "container")))
            q.allocs.append((r, clsterm, kind))
        for l in o.loose:
            old = call_state._fs(l.fieldname)
            q.st.fields[l.fieldname] = o.post._fs(l.fieldname)
            q.st.havoc(l.fieldname)
            cur = q.st._fs(l.fieldname)
            q.schemas.extend(l.constraint(lambda *a, cur=cur: cur.read(*a), lambda *a, old=old: old.read(*a), q.st))
        for fct in o.facts:
            q.assume(fct)
        q.schemas.extend(o.fact_schemas)

    def lemma_preserve(self, qualname: str, assume, prove, tag: str):
        """contract-level lemma (no code): every outcome of `qualname`'s contract, started in a state satisfying the
        invariants `assume` (functions (State, ClassTable) -> Schema), ends in a state satisfying `prove`"""
        fi, c, p, args, spec = self.entry_path(qualname)
        for f in assume:
            p.schemas.append(f(self.pre, self.ct))
        self.emit(p, "cover", f"{tag}/cover", z3.BoolVal(True), expect="sat")
        for oi, o in enumerate(spec.outcomes):
            if not self.feasible(p, o.cond):
                continue
            q = p.copy()
            q.assume(o.cond)
            self.enter_outcome(q, o, self.pre)
            for f in prove:
                sch = f(q.st, self.ct)
                sk = tuple(T.fresh("sk", s_) for s_ in sch.sorts)
                self.emit(q, "lemma", f"{tag}/{o.label or ('raises-' + o.exc if o.exc else 'normal') + str(oi)}/{sch.name}",
                          sch.fn(*sk), meta={"clause": f"{sch.name} holds after {qualname} ({o.exc or 'normal'} exit)"})

    def _number_loops(self, fnode):
        n = 0
        for node in ast.walk(fnode):
            if isinstance(node, (ast.For, ast.While)):
                pass
        # ordinal = order of appearance in source (pre-order)
        order = []

        def visit(nd):
            for ch in ast.iter_child_nodes(nd):
                if isinstance(ch, (ast.FunctionDef, ast.ClassDef, ast.Lambda)) and ch is not fnode:
                    continue
                if isinstance(ch, (ast.For, ast.While)):
                    order.append(ch)
                visit(ch)
        visit(fnode)
        for i, nd in enumerate(order):
            self.loop_ord[id(nd)] = i

    def bind_params(self, fi: FuncInfo, p: Path, args: dict):
        a = fi.node.args
        names = [x.arg for x in a.posonlyargs + a.args] + [x.arg for x in a.kwonlyargs]
        for n in names:
            if n in args:
                p.env[n] = args[n]
            else:
                raise Unsupported(f"{fi.qualname}: parameter {n} not described by the contract")
        if a.vararg:
            if a.vararg.arg in args:
                p.env[a.vararg.arg] = args[a.vararg.arg]          # the contract treats *args as one opaque pack
            else:
                extra = [args[k] for k in args if k not in names]
                p.env[a.vararg.arg] = VPyTuple(extra)
        if a.kwarg:
            if a.kwarg.arg in args:
                p.env[a.kwarg.arg] = args[a.kwarg.arg]
            else:
                raise Unsupported("**kwargs")

    def build_spec(self, c: Contract, S: State, args: dict, p: Path, site: str) -> Spec:
        def spec_alloc(cname_or_cls, name):
            pass
            r = T.fresh("spec_" + name, Ref)
            return r
        ctx = SpecCtx(S, args, spec_alloc, self.repo, site)
        ctx.engine = self
        ctx.ct = self.ct
        c.fn(ctx)
        if not ctx.spec.outcomes:
            raise Unsupported(f"contract {c.qualname} has no outcome")
        return ctx.spec

    # ------------------------------------------------------------------ exit check
    def check_exit(self, p: Path, ctrl, spec: Spec, c: Contract):
        kind = "normal"
        value = None
        exc = None
        if ctrl is None:
            value = NONE_V
        elif ctrl[0] == "return":
            value = ctrl[1]
        elif ctrl[0] == "raise":
            kind = "raise"
            exc = ctrl[1].exc
        else:
            raise Unsupported(f"{ctrl[0]} outside loop")
        tag = f"exit:{exc or 'return'}"
        # an exit that a `may` outcome allows (RecursionError) needs no agreement with the deterministic outcomes
        ends_as_may = kind == "raise" and any(getattr(o_, "may", False) and o_.exc is not None and o_.exc != "*" and any(
            exc_matches(exc, e_) for e_ in ((o_.exc,) if isinstance(o_.exc, str) else o_.exc)) for o_ in spec.outcomes)
        for oi, o in enumerate(spec.outcomes):
            self._group = None
            olabel = o.label or f"outcome{oi}"
            oexc = (o.exc,) if isinstance(o.exc, str) else (o.exc or ())
            matches = (o.exc is None and kind == "normal") or (o.exc is not None and kind == "raise" and any(exc_matches(exc, e_) for e_ in oexc))
            any_exit = o.exc == "*"
            if any_exit:
                matches = True
            if not matches and (getattr(o, "may", False) or ends_as_may):
                continue            # optional abnormal end: says nothing about paths that end otherwise (and vice versa)
            if not matches:
                # this outcome's condition must be impossible on this path
                self.emit(p, "exit-kind", f"{tag}/not:{olabel}", T.neg(o.cond),
                          meta={"clause": f"path ends with {exc or 'return'} but contract outcome '{olabel}' ({o.exc or 'normal'}) applies"})
                continue
            if not self.feasible(p, o.cond):
                continue
            q = p.copy()
            q.assume(o.cond)
            self._gcount = getattr(self, "_gcount", 0) + 1
            self._group = f"g{self._gcount}"
            # match allocations of the spec with those of the body
            subst = self.match_allocs(q, o, value)
            if subst is not None:
                body_enums = list(q.ghost.get("enums", ()))
                for k_, (pe, _pred) in enumerate(spec.enums):
                    if k_ < len(body_enums):
                        subst = subst + [(pe, body_enums[k_])]
            if subst is None:
                self.emit(q, "post", f"{tag}/{olabel}/alloc", z3.BoolVal(False),
                          meta={"clause": "the contract promises a fresh object that this path does not allocate"})
                continue

            def S_(t):
                return z3.substitute(t, *subst) if subst else t
            # result
            # spec-level ghosts are identified with the ghost locals the loop invariants define ($name)
            for (gname, gconst) in getattr(spec, "ghosts", ()):
                gv = q.env.get("$" + gname)
                if gname == "$result":
                    gv = value                  # the contract describes the result by facts, not by a term
                if gv is None:
                    gv = q.env.get(gname)       # a ghost may simply name a local of the body
                if gv is not None and hasattr(gv, "term"):
                    subst = subst + [(gconst, gv.term)]
            if o.exc is None and not any_exit:
                g = self.result_equal(q, value, o.result, S_)
                if g is not None:
                    self.emit(q, "post", f"{tag}/{olabel}/result", g, meta={"clause": "result"})
                if c.is_generator and o.out is not None:
                    self.emit(q, "post", f"{tag}/{olabel}/yielded", T.eq(q.out, S_(o.out)), meta={"clause": "yielded sequence"})
            for fct in o.facts:
                self.emit(q, "post", f"{tag}/{olabel}/fact", S_(fct), meta={"clause": "result fact"})
            for sch in o.fact_schemas:
                sk = tuple(T.fresh("sk", s_) for s_ in sch.sorts)
                self.emit(q, "post", f"{tag}/{olabel}/fact:{sch.name}", S_(sch.fn(*sk)), meta={"clause": f"result fact {sch.name}"})
            # state: every field that either side touched, at a skolem address
            loose_names = {l.fieldname for l in o.loose}
            garbage = [r for (r, _c, k) in q.allocs if k == "container" and not any(r.eq(b) for (_a, b) in subst)]
            for fname in q.st.differs_from(o.post):
                if fname in loose_names:
                    continue
                addr = q.st.skolem_addr(fname)
                lhs = q.st.read(fname, *addr)
                rhs = S_(o.post.read(fname, *addr))
                if lhs.eq(rhs):
                    continue
                hyp = [addr[0] != g_ for g_ in garbage] if addr and addr[0].sort().eq(Ref) else []
                if o.exc is not None and self.cur.node.name == "__init__" and addr and addr[0].sort().eq(Ref):
                    hyp.append(addr[0] != self.args["self"].term)   # the half-built object is unobservable
                # the returned/kept containers' contents matter; pure garbage does not
                self.emit(q, "frame", f"{tag}/{olabel}/state:{fname}", T.eq(lhs, rhs), extra_hyps=hyp,
                          meta={"clause": f"post-state of field {fname}", "addr": [str(a) for a in addr]})
            for l in o.loose:
                old = self.pre._fs(l.fieldname)
                cur = q.st._fs(l.fieldname)
                for sch in l.constraint(lambda *a: cur.read(*a), lambda *a: old.read(*a), q.st):
                    sk = tuple(T.fresh("sk", s) for s in sch.sorts)
                    self.emit(q, "frame", f"{tag}/{olabel}/loose:{l.fieldname}:{sch.name}", S_(sch.fn(*sk)),
                              meta={"clause": f"constraint {sch.name} on field {l.fieldname}"})

    def _end_group(self):
        self._group = None

    def match_allocs(self, q: Path, o: Outcome, value):
        """pair the spec's fresh references with allocations made on the path; returns substitution list or None"""
        subst = []
        if not o.fresh:
            return subst
        body = [(r, c, k) for (r, c, k) in q.allocs if k != "self"]
        used = set()
        # the result first
        res_ref = None
        if isinstance(o.result, VRef):
            res_ref = o.result.term
        elif isinstance(o.result, (VList, VSet, VDict, VNet)):
            res_ref = o.result.ref
        val_ref = None
        if isinstance(value, VRef):
            val_ref = value.term
        elif isinstance(value, (VList, VSet, VDict, VNet)):
            val_ref = value.ref
        for (sr, scls) in o.fresh:
            target = None
            if res_ref is not None and sr.eq(res_ref) and val_ref is not None:
                for i, (r, c, k) in enumerate(body):
                    if r.eq(val_ref) and i not in used:
                        target = i
            if target is None:
                want_container = isinstance(scls, str) and scls == "<container>"
                for i, (r, c, k) in enumerate(body):
                    if i in used:
                        continue
                    if (k == "container") == want_container:
                        target = i
                        break
            if target is None:
                return None
            used.add(target)
            subst.append((sr, body[target][0]))
        return subst

    def result_equal(self, q: Path, value: V, expected: V, S_):
        if expected is None:
            expected = NONE_V
        if isinstance(expected, VOpaque):
            return None
        if isinstance(expected, VRef):
            if isinstance(value, (VPyTuple, VCls)) and hasattr(self, "key_ref"):
                kr = self.key_ref(value)          # a tuple / class returned as a value
                return T.eq(kr, S_(expected.term)) if kr is not None else z3.BoolVal(False)
            if not isinstance(value, (VRef, VCallback)):
                return z3.BoolVal(False)
            return T.eq(value.term, S_(expected.term))
        if isinstance(expected, (VInt, VBool, VStr)):
            if type(value) is not type(expected):
                return z3.BoolVal(False)
            return T.eq(value.term, S_(expected.term))
        if isinstance(expected, VSeq):
            if isinstance(value, VSeq):
                return T.eq(value.term, S_(expected.term))
            return z3.BoolVal(False)
        if isinstance(expected, (VList, VSet, VDict, VNet)):
            if type(value) is not type(expected):
                return z3.BoolVal(False)
            return T.eq(value.ref, S_(expected.ref))
        if isinstance(expected, VCls):
            return T.eq(value.term, S_(expected.term)) if isinstance(value, VCls) else z3.BoolVal(False)
        if isinstance(expected, (VOpts, VOptTable)):
            return T.eq(value.term, S_(expected.term)) if type(value) is type(expected) else z3.BoolVal(False)
        raise Unsupported(f"result comparison for {type(expected).__name__}")

    # ------------------------------------------------------------------ statements
    def exec_block(self, stmts, p: Path):
        """-> list of (path, ctrl); ctrl None = fell through"""
        live = [p]
        done = []
        for st in stmts:
            nxt = []
            for q in live:
                for (r, ctrl) in self.exec_stmt(st, q):
                    if ctrl is None:
                        nxt.append(r)
                    else:
                        done.append((r, ctrl))
            live = nxt
            if not live:
                break
        return [(q, None) for q in live] + done

    def exec_stmt(self, st, p: Path):
        m = getattr(self, "st_" + type(st).__name__, None)
        if m is None:
            raise Unsupported(f"statement {type(st).__name__} at line {getattr(st, 'lineno', '?')}")
        return m(st, p)

    def st_Pass(self, st, p):
        return [(p, None)]

    def st_Expr(self, st, p):
        if isinstance(st.value, ast.Constant):
            return [(p, None)]
        if isinstance(st.value, ast.Yield):
            return self.do_yield(st.value, p)
        if isinstance(st.value, ast.YieldFrom):
            return self.do_yield_from(st.value, p)
        out = []
        for (q, v) in self.eval(st.value, p):
            out.append((q, ("raise", v)) if isinstance(v, VRaise) else (q, None))
        return out

    def st_Return(self, st, p):
        if st.value is None:
            return [(p, ("return", NONE_V))]
        out = []
        for (q, v) in self.eval(st.value, p):
            out.append((q, ("raise", v)) if isinstance(v, VRaise) else (q, ("return", v)))
        return out

    def st_Raise(self, st, p):
        e = st.exc
        if e is None:
            if "$exc" in p.ghost:
                return [(p, ("raise", p.ghost["$exc"]))]
            raise Unsupported("bare raise outside handler")
        name = None
        if isinstance(e, ast.Call) and isinstance(e.func, ast.Name):
            name = e.func.id
        elif isinstance(e, ast.Name):
            name = e.id
        if name is None or name not in EXC_PARENTS:
            raise Unsupported(f"raise of {ast.unparse(e)}")
        return [(p, ("raise", VRaise(name)))]

    def st_If(self, st, p):
        out = []
        for (q, c) in self.eval_cond(st.test, p):
            if isinstance(c, VRaise):
                out.append((q, ("raise", c)))
                continue
            for (r, side) in self.fork(q, c, f"if@{st.lineno}"):
                out.extend(self.exec_block(st.body if side else st.orelse, r))
        return out

    def st_Assign(self, st, p):
        out = []
        for (q, v) in self.eval(st.value, p):
            if isinstance(v, VRaise):
                out.append((q, ("raise", v)))
                continue
            paths = [q]
            for tgt in st.targets:
                nxt = []
                for r in paths:
                    for (r2, ctrl) in self.assign(tgt, v, r):
                        if ctrl is None:
                            nxt.append(r2)
                        else:
                            out.append((r2, ctrl))
                paths = nxt
            out.extend((r, None) for r in paths)
        return out

    def st_AnnAssign(self, st, p):
        if st.value is None:
            return [(p, None)]
        fake = ast.Assign(targets=[st.target], value=st.value, lineno=st.lineno)
        return self.st_Assign(fake, p)

    def st_AugAssign(self, st, p):
        # evaluate target as an expression, combine, store
        out = []
        load = copy.deepcopy(st.target)
        for n in ast.walk(load):
            if hasattr(n, "ctx"):
                n.ctx = ast.Load()
        for (q, cur) in self.eval(load, p):
            if isinstance(cur, VRaise):
                out.append((q, ("raise", cur)))
                continue
            for (r, v) in self.eval(st.value, q):
                if isinstance(v, VRaise):
                    out.append((r, ("raise", v)))
                    continue
                if isinstance(cur, VOpaque):
                    out.append((r, None))       # counters etc.: not modelled, no observable effect
                    continue
                for (r2, res) in self.binop(st.op, cur, v, r, aug=True):
                    if isinstance(res, VRaise):
                        out.append((r2, ("raise", res)))
                    elif res is None:
                        out.append((r2, None))   # in-place update already performed
                    else:
                        out.extend(self.assign(st.target, res, r2))
        return out

    def st_Delete(self, st, p):
        paths = [p]
        out = []
        for tgt in st.targets:
            nxt = []
            for q in paths:
                for (r, ctrl) in self.delete(tgt, q):
                    if ctrl is None:
                        nxt.append(r)
                    else:
                        out.append((r, ctrl))
            paths = nxt
        return [(q, None) for q in paths] + out

    def st_Break(self, st, p):
        return [(p, ("break",))]

    def st_Continue(self, st, p):
        return [(p, ("continue",))]

    def st_FunctionDef(self, st, p):
        p.env[st.name] = VConst(("localfunc", st))
        return [(p, None)]

    def st_Try(self, st, p):
        out = []
        body_res = self.exec_block(st.body, p)
        after = []
        for (q, ctrl) in body_res:
            if ctrl is not None and ctrl[0] == "raise":
                exc = ctrl[1]
                pending = [q]
                for h in st.handlers:
                    names = []
                    if h.type is None:
                        names = ["BaseException"]
                    elif isinstance(h.type, ast.Tuple):
                        names = [ast.unparse(e) for e in h.type.elts]
                    else:
                        names = [ast.unparse(h.type)]
                    if any(exc_matches(exc.exc, n) for n in names):
                        takers, pending = [(r, True) for r in pending], []
                    elif exc.exc == "UserExc":
                        # what a user callback / a user __init__ raises is of an arbitrary class (a subclass of Exception): a
                        # handler for a specific class may or may not take it - both continuations are explored
                        takers, rest = [], []
                        for r in pending:
                            for (r2, side) in self.fork(r, T.fresh("user_exception_is_" + "_".join(names)[:40], z3.BoolSort()),
                                                        f"userexc@{h.lineno}"):
                                (takers if side else rest).append((r2, side) if side else r2)
                        pending = rest
                    else:
                        takers = []
                    for (r, _side) in takers:
                        r.ghost = dict(r.ghost)
                        r.ghost["$exc"] = exc
                        if h.name:
                            r.env[h.name] = VOpaque("exception")
                        after.extend(self.exec_block(h.body, r))
                    if not pending:
                        break
                for r in pending:
                    after.append((r, ctrl))
            elif ctrl is None and st.orelse:
                after.extend(self.exec_block(st.orelse, q))
            else:
                after.append((q, ctrl))
        if st.finalbody:
            for (q, ctrl) in after:
                for (r, c2) in self.exec_block(st.finalbody, q):
                    out.append((r, c2 if c2 is not None else ctrl))
        else:
            out = after
        return out

    # ---- loops ------------------------------------------------------------------
    def loop_spec(self, node) -> LoopSpec:
        ls = self._loop_spec(node)
        if not hasattr(self, "_loop_assigned"):
            self._loop_assigned = {}
        self._loop_assigned[id(ls)] = self.assigned_names(node)
        return ls

    def _loop_spec(self, node) -> LoopSpec:
        ordn = self.loop_ord[id(node)]
        ls = None
        if getattr(self, "cur_variant", None):
            ls = self.reg.loops.get((f"{self.cur.qualname}#{self.cur_variant}", ordn))
        if ls is None:
            ls = self.reg.loops.get((self.cur.qualname, ordn))
        if ls is None:
            raise Unsupported(f"loop #{ordn} of {self.cur.qualname} (line {node.lineno}) has no invariant")
        return ls

    class _Names(set):
        aug_only = frozenset()

    def assigned_names(self, node):
        names = self._Names()
        aug = set()
        for n in ast.walk(node):
            if isinstance(n, ast.AugAssign) and isinstance(n.target, ast.Name):
                aug.add(id(n.target))
        plain = set()
        for n in ast.walk(node):
            if isinstance(n, ast.Name) and isinstance(n.ctx, (ast.Store, ast.Del)):
                names.add(n.id)
                if id(n) not in aug:
                    plain.add(n.id)
        # names only ever updated by `x += ...` / `x |= ...`: for a list / set / dict that is an in-place update, the identity stays
        names.aug_only = frozenset(names - plain)
        return names

    def havoc_local(self, name, v: V, assigned=None):
        if isinstance(v, (VList, VSet, VDict)) and assigned is not None and name in getattr(assigned, "aug_only", ()):
            return v
        if isinstance(v, VRef):
            return VRef(T.fresh(name, Ref), v.cname, v.role)
        if isinstance(v, VInt):
            return VInt(T.fresh(name, Int))
        if isinstance(v, VBool):
            return VBool(T.fresh(name, Bool))
        if isinstance(v, VStr):
            return VStr(T.fresh(name, Str))
        if isinstance(v, VSeq):
            return VSeq(T.fresh(name, RSeq), v.elem_cname, v.kind)
        if isinstance(v, VOpts):
            return VOpts(T.fresh(name, Ref))
        if isinstance(v, (VList, VSet, VDict)):
            # the name is re-bound somewhere in the loop: at the head of an arbitrary iteration it refers to whatever container the
            # previous iteration bound it to (an existing object of unknown identity), not to the container it held before the loop
            r_ = T.fresh(name, Ref)
            return type(v)(r_, getattr(v, "elem_cname", None)) if not isinstance(v, VDict) else VDict(r_, v.key_cname)
        if isinstance(v, (VList, VSet, VDict, VCls, VCallback, VOpaque, VConst, VPyTuple, VOptTable, VStrSet, VMro)):
            return v       # identity of containers does not change; contents are heap
        raise Unsupported(f"havoc of local {name}: {type(v).__name__}")

    def check_inv(self, p: Path, inv: LoopInv, what: str, ls: LoopSpec, entry_st: State):
        """emit obligations that path p satisfies the invariant"""
        self._gcount = getattr(self, "_gcount", 0) + 1
        self._group = f"g{self._gcount}"
        try:
            self._check_inv(p, inv, what, ls, entry_st)
        finally:
            self._group = None

    def _check_inv(self, p: Path, inv: LoopInv, what: str, ls: LoopSpec, entry_st: State):
        name = f"loop{ls.ordinal}/{what}"
        if inv.defs or inv.ground_defs:
            p = p.copy()
            p.schemas.extend(inv.defs)
            for g_ in inv.ground_defs:
                p.assume(g_)
        for i, f in enumerate(inv.facts):
            self.emit(p, "loop", f"{name}/fact[{i}]", f, meta={"clause": f"loop invariant fact {i}"})
        for sch in inv.schemas:
            sk = tuple(T.fresh("sk", s) for s in sch.sorts)
            self.emit(p, "loop", f"{name}/schema:{sch.name}", sch.fn(*sk), meta={"clause": f"loop invariant {sch.name}"})
        for k, v in inv.define.items():
            if k.startswith("$"):
                continue              # existential ghost: the invariant function supplies the witness in this phase
            cur = p.env.get(k)
            g = self.result_equal(p, cur, v, lambda t: t)
            if g is not None:
                self.emit(p, "loop", f"{name}/local:{k}", g, meta={"clause": f"loop invariant: value of {k}"})
        if inv.out is not None:
            self.emit(p, "loop", f"{name}/yielded", T.eq(p.out, inv.out), meta={"clause": "loop invariant: yielded so far"})
        # containers allocated during this iteration and not kept anywhere are garbage: the frame does not speak about them
        kept = set()
        dead = getattr(self, "_loop_assigned", {}).get(id(ls), set())      # locals (re)assigned by the body are dead at the loop head
        for n_, v_ in p.env.items():
            r_ = getattr(v_, "ref", None)
            if r_ is not None and n_ not in dead:
                kept.add(r_.get_id())
        garbage = [r for (r, _c, k) in p.allocs[getattr(self, "_loop_alloc_mark", {}).get(id(ls), 0):]
                   if k == "container" and r.get_id() not in kept]
        target = inv.state if inv.state is not None else entry_st
        loose_names = {l.fieldname for l in inv.loose}
        for fname in p.st.differs_from(target):
            if fname in loose_names:
                continue
            addr = p.st.skolem_addr(fname)
            lhs = p.st.read(fname, *addr)
            rhs = target.read(fname, *addr)
            if lhs.eq(rhs):
                continue
            g_ = T.eq(lhs, rhs)
            if garbage and addr and addr[0].sort().eq(Ref):
                g_ = z3.Implies(z3.And(*[addr[0] != gr for gr in garbage]), g_)
            self.emit(p, "loop", f"{name}/state:{fname}", g_, meta={"clause": f"loop invariant: heap field {fname}"})
        for l in inv.loose:
            old = entry_st._fs(l.fieldname)
            cur = p.st._fs(l.fieldname)
            for sch in l.constraint(lambda *a, cur=cur: cur.read(*a), lambda *a, old=old: old.read(*a), p.st):
                sk = tuple(T.fresh("sk", s_) for s_ in sch.sorts)
                g_ = sch.fn(*sk)
                if garbage and sk and sk[0].sort().eq(Ref):
                    g_ = z3.Implies(z3.And(*[sk[0] != gr for gr in garbage]), g_)
                self.emit(p, "loop", f"{name}/loose:{l.fieldname}:{sch.name}", g_,
                          meta={"clause": f"loop invariant: constraint {sch.name} on field {l.fieldname}"})

    def st_For(self, st, p: Path):
        if st.orelse:
            raise Unsupported("for-else")
        out = []
        for (q, it) in self.eval(st.iter, p):
            if isinstance(it, VRaise):
                out.append((q, ("raise", it)))
                continue
            out.extend(self.run_for(st, q, it))
        return out

    def iter_seq(self, p: Path, it: V):
        """sequence of values an iteration over `it` yields -> (seq term, elem V maker, kind)"""
        if isinstance(it, VSeq):
            return it.term, it.elem_cname
        if isinstance(it, VOwned):
            return p.st.read(it.fieldname, it.owner), it.elem_cname
        if isinstance(it, VList):
            return p.st.elems(it.ref), it.elem_cname
        if isinstance(it, VIter):
            return self.consume(p, it), it.elem_cname
        if isinstance(it, VSet):
            # arbitrary duplicate-free enumeration of the set (A9)
            s = T.fresh("enum", RSeq)
            ref = it.ref
            st0 = p.st.copy()
            p.schemas.append(Schema(f"enum({ref})", (Ref,), lambda x, s=s, ref=ref, st0=st0: z3.And(
                T.Cnt(s, x) <= 1, (T.Cnt(s, x) >= 1) == st0.read("setmem", ref, x))))
            p.ghost = dict(p.ghost)
            p.ghost["enums"] = tuple(p.ghost.get("enums", ())) + (s,)
            return s, it.elem_cname
        raise Unsupported(f"iteration over {type(it).__name__}")

    def consume(self, p: Path, it: VIter):
        """an arbitrary iterable argument may be a one-shot iterator (generator): the first pass yields its items, what a second
        pass yields is unknown (nothing for a generator, the same items for a list)"""
        done = p.ghost.get("consumed", frozenset())
        if id(it) in done:
            return T.fresh("second_pass", RSeq)
        p.ghost = dict(p.ghost)
        p.ghost["consumed"] = done | {id(it)}
        keep = p.ghost.setdefault("consumed_keepalive", ())
        p.ghost["consumed_keepalive"] = keep + (it,)
        return it.seq

    def elem_value(self, term, cname, it=None):
        if it is not None and isinstance(it, VSeq) and it.kind == "rows":
            return VSeq(T.row_cells(term), None, "list")
        if it is not None and isinstance(it, VIter) and getattr(it, "elem_nullable", False):
            return VRef(term, cname, "obj")
        return VRef(term, cname, "obj" if cname else "opaque")

    def call_inv(self, ls: LoopSpec, phase: str, path: Path, L: LoopCtx):
        """phase: 'entry' (check before the first iteration), 'assume' (arbitrary iteration: existential ghosts of the
        invariant become fresh constants), 'check' (end of the body: the invariant function exhibits witnesses from the
        path's environment), 'exit'"""
        L.phase = phase
        L.pghost = path.ghost
        L.path = path
        L.ls = ls
        if phase in ("entry", "assume"):
            if not hasattr(self, "_loop_alloc_mark"):
                self._loop_alloc_mark = {}
            self._loop_alloc_mark[id(ls)] = len(path.allocs)
        return ls.fn(L)

    def assume_inv(self, q: Path, inv: LoopInv, entry_st: State, finished=False):
        """finished: the loop is over (exit state) - its facts stay for good; otherwise they describe the head of an iteration
        of an enclosing loop and a nested invariant that `supersedes` may drop them"""
        q.env.update(inv.define)
        if inv.supersedes:
            q.schemas = [s_ for s_ in q.schemas if not getattr(s_, "_from_loop_inv", False)]
        n0_ = len(q.schemas)
        try:
            self._assume_inv(q, inv, entry_st)
        finally:
            for s_ in q.schemas[n0_:]:
                try:
                    s_._from_loop_inv = not finished
                except Exception:
                    pass

    def _assume_inv(self, q: Path, inv: LoopInv, entry_st: State):
        q.st = (inv.state if inv.state is not None else entry_st).copy()
        for l in inv.loose:
            old = entry_st._fs(l.fieldname)
            q.st.havoc(l.fieldname)
            cur = q.st._fs(l.fieldname)
            q.schemas.extend(l.constraint(lambda *a, cur=cur: cur.read(*a), lambda *a, old=old: old.read(*a), q.st))
        for f in inv.facts:
            q.assume(f)
        q.schemas.extend(inv.schemas)
        q.schemas.extend(inv.defs)
        for g_ in inv.ground_defs:
            q.assume(g_)
        if inv.out is not None:
            q.out = inv.out
        # vacuity guard: an invariant that contradicts itself would make every obligation after it pass
        if q.trail and q.trail[-1].endswith(("i", "w")):
            done_ = self.__dict__.setdefault("_covered_loops", set())
            key_ = (getattr(self, "cur_qual", None), q.trail[-1])
            if key_ not in done_:        # once per loop (the first path reaching it)
                done_.add(key_)
                self.emit(q, "cover", f"cover/invariant-assumed@{q.trail[-1]}", z3.BoolVal(True), expect="sat")

    def run_for_items(self, st, p: Path, a):
        """for key, val in <attributes>.items(): index-based cut (ghost index L.k)"""
        ls = self.loop_spec(st)
        entry_st = p.st.copy()
        entry_env = dict(p.env)

        def mk(env, k, stt=None):
            L = LoopCtx(env, entry_st, self.pre, None, None, None, self.args, self, k)
            L.entry_env = entry_env
            L.entry_out = p.out
            L.cur = stt
            L.items_of = a
            return L
        self.check_inv(p, self.call_inv(ls, 'entry', p, mk(p.env, z3.IntVal(0), p.st)), "entry", ls, entry_st)
        assigned = self.assigned_names(st)
        results = []
        q = p.copy()
        q.trail.append(f"L{ls.ordinal}i")
        i = T.fresh("i", Int)
        q.assume(z3.And(i >= 0, i < T.ad_len(a)))
        for n in assigned:
            if n in q.env:
                q.env[n] = self.havoc_local(n, q.env[n], assigned)
        self.assume_inv(q, self.call_inv(ls, 'assume', q, mk(q.env, i)), entry_st)
        if self.feasible(q):
            item = VPyTuple([VStr(T.ad_key(a, i)), VRef(T.ad_val(a, i), None, "opaque")])
            for (r0, ctrl0) in self.assign(st.target, item, q):
                if ctrl0 is not None:
                    results.append((r0, ctrl0))
                    continue
                for (r, ctrl) in self.exec_block(st.body, r0):
                    if ctrl is None or ctrl[0] == "continue":
                        self.check_inv(r, self.call_inv(ls, 'check', r, mk(r.env, i + 1, r.st)), "preserve", ls, entry_st)
                    elif ctrl[0] == "break":
                        results.append((r, None))
                    else:
                        results.append((r, ctrl))
        e = p.copy()
        e.trail.append(f"L{ls.ordinal}x")
        for n in assigned:
            if n in e.env:
                e.env[n] = self.havoc_local(n, e.env[n], assigned)
        self.assume_inv(e, self.call_inv(ls, 'exit', e, mk(e.env, T.ad_len(a))), entry_st, finished=True)
        if self.feasible(e):
            results.append((e, None))
        return results

    def run_for_range(self, st, p: Path, start, stop, step: int):
        """for i in range(start, stop, step) with a concrete non-zero step: index-based cut (ghost counter L.k)"""
        ls = self.loop_spec(st)
        entry_st = p.st.copy()
        entry_env = dict(p.env)
        if step > 0:
            n = T.ite(stop > start, (stop - start + (step - 1)) / step, z3.IntVal(0))
        else:
            n = T.ite(start > stop, (start - stop + (-step - 1)) / (-step), z3.IntVal(0))

        def mk(env, k, stt=None):
            L = LoopCtx(env, entry_st, self.pre, None, None, None, self.args, self, k)
            L.entry_env = entry_env
            L.entry_out = p.out
            L.cur = stt
            L.n = n
            return L
        self.check_inv(p, self.call_inv(ls, 'entry', p, mk(p.env, z3.IntVal(0), p.st)), "entry", ls, entry_st)
        assigned = self.assigned_names(st)
        results = []
        q = p.copy()
        q.trail.append(f"L{ls.ordinal}i")
        k = T.fresh("k", Int)
        q.assume(z3.And(k >= 0, k < n))
        for nm in assigned:
            if nm in q.env:
                q.env[nm] = self.havoc_local(nm, q.env[nm], assigned)
        self.assume_inv(q, self.call_inv(ls, 'assume', q, mk(q.env, k)), entry_st)
        if self.feasible(q):
            self.bind_target(st.target, VInt(start + k * step), q)
            for (r, ctrl) in self.exec_block(st.body, q):
                if ctrl is None or ctrl[0] == "continue":
                    self.check_inv(r, self.call_inv(ls, 'check', r, mk(r.env, k + 1, r.st)), "preserve", ls, entry_st)
                elif ctrl[0] == "break":
                    results.append((r, None))
                else:
                    results.append((r, ctrl))
        e = p.copy()
        e.trail.append(f"L{ls.ordinal}x")
        for nm in assigned:
            if nm in e.env:
                e.env[nm] = self.havoc_local(nm, e.env[nm], assigned)
        self.assume_inv(e, self.call_inv(ls, 'exit', e, mk(e.env, n)), entry_st, finished=True)
        if self.feasible(e):
            results.append((e, None))
        return results

    def run_for_strs(self, st, p: Path, it: VList):
        """for s in <list of strings>: prefix-based cut over the string sequence (L.prefix / L.seq are sequences of strings)"""
        ls = self.loop_spec(st)
        SSeq = T.SSeq
        seq = p.st.read("selems", it.ref)
        entry_st = p.st.copy()
        entry_env = dict(p.env)
        entry_out = p.out

        def mk(env, prefix, elem=None, stt=None, suffix=None):
            L = LoopCtx(env, entry_st, self.pre, prefix, seq, elem, self.args, self)
            L.entry_env = entry_env
            L.entry_out = entry_out
            L.cur = stt
            L.suffix = suffix
            return L
        self.check_inv(p, self.call_inv(ls, 'entry', p, mk(p.env, z3.Empty(SSeq))), "entry", ls, entry_st)
        results = []
        assigned = self.assigned_names(st)
        q = p.copy()
        q.trail.append(f"L{ls.ordinal}i")
        pre, x, suf = T.fresh("spre", SSeq), T.fresh("sx", Str), T.fresh("ssuf", SSeq)
        q.assume(seq == z3.Concat(pre, z3.Unit(x), suf))
        for n in assigned:
            if n in q.env:
                q.env[n] = self.havoc_local(n, q.env[n], assigned)
        self.assume_inv(q, self.call_inv(ls, 'assume', q, mk(q.env, pre, elem=x, suffix=suf)), entry_st)
        body_res = []
        if self.feasible(q):
            for (q1, c1) in self.assign(st.target, VStr(x), q):
                if c1 is not None:
                    results.append((q1, c1))
            body_res = self.exec_block(st.body, q)
        for (r, ctrl) in body_res:
            if ctrl is None or ctrl[0] == "continue":
                self.check_inv(r, self.call_inv(ls, 'check', r, mk(r.env, z3.Concat(pre, z3.Unit(x)), stt=r.st)), "preserve", ls, entry_st)
            elif ctrl[0] == "break":
                results.append((r, None))
            else:
                results.append((r, ctrl))
        e = p.copy()
        e.trail.append(f"L{ls.ordinal}x")
        for n in assigned:
            if n in e.env:
                e.env[n] = self.havoc_local(n, e.env[n], assigned)
        self.assume_inv(e, self.call_inv(ls, 'exit', e, mk(e.env, seq)), entry_st, finished=True)
        if self.feasible(e):
            results.append((e, None))
        return results

    def run_for(self, st, p: Path, it: V):
        if isinstance(it, VList) and it.elem_cname == "<str>":
            return self.run_for_strs(st, p, it)
        if isinstance(it, VConst) and isinstance(it.value, tuple) and it.value[0] == "items":
            return self.run_for_items(st, p, it.value[1])
        if isinstance(it, VConst) and isinstance(it.value, tuple) and it.value[0] == "range":
            return self.run_for_range(st, p, *it.value[1:])
        ls = self.loop_spec(st)
        self._enum = False
        self._item_mapper = None
        if isinstance(it, VConst) and isinstance(it.value, tuple) and it.value[0] == "adjitems":
            a = it.value[1]
            it = VSeq(T.adj_keys(a), "Vertex", "keys")
            # each item is (key, the iterable stored under it)
            self._item_mapper = lambda x, a=a: VPyTuple([VRef(x, "Vertex", "obj"), VIter(T.adj_row(a, x), "Vertex", z3.BoolVal(False))])
        if isinstance(it, VConst) and isinstance(it.value, tuple) and it.value[0] == "smapitems":
            M_ = it.value[1]
            en_ = self.registry_enum(p, M_)
            st0_ = p.st.copy()
            it = VSeq(en_, None, "keys")
            self._item_mapper = lambda x, M_=M_, st0_=st0_: VPyTuple([VRef(x, None, "opaque"), VRef(st0_.read("smap_val", M_, x), None, "opaque")])
        if isinstance(it, VConst) and isinstance(it.value, tuple) and it.value[0] == "enumerate":
            it = it.value[1]
            self._enum = True
        seq, ecn = self.iter_seq(p, it)
        if isinstance(it, VIter) and it.is_none is not None and not z3.is_false(it.is_none):
            # iterating None raises TypeError
            res = []
            for (r, side) in self.fork(p, it.is_none, "iterNone"):
                if side:
                    res.append((r, ("raise", VRaise("TypeError"))))
                else:
                    res.extend(self._run_for(st, r, it, ls, seq, ecn))
            return res
        return self._run_for(st, p, it, ls, seq, ecn)

    def bind_target(self, tgt, v: V, p: Path):
        if isinstance(tgt, ast.Name):
            p.env[tgt.id] = v
        else:
            raise Unsupported("loop target " + ast.unparse(tgt))

    def _run_for(self, st, p: Path, it, ls: LoopSpec, seq, ecn):
        enum = getattr(self, "_enum", False)
        self._enum = False
        mapper = getattr(self, "_item_mapper", None)
        self._item_mapper = None
        entry_st = p.st.copy()
        entry_env = dict(p.env)
        entry_out = p.out

        def mk(env, prefix, elem=None, stt=None, suffix=None):
            L = LoopCtx(env, entry_st, self.pre, prefix, seq, elem, self.args, self)
            L.entry_env = entry_env
            L.entry_out = entry_out
            L.cur = stt
            L.suffix = suffix
            return L
        # 1. invariant holds at entry (prefix = [])
        inv0 = self.call_inv(ls, 'entry', p, mk(p.env, T.EMPTY()))
        self.check_inv(p, inv0, "entry", ls, entry_st)
        results = []
        assigned = self.assigned_names(st)
        # 2. arbitrary iteration
        q = p.copy()
        q.trail.append(f"L{ls.ordinal}i")
        pre = T.fresh("pre", RSeq)
        x = T.fresh("x", Ref)
        suf = T.fresh("suf", RSeq)
        q.assume(seq == T.cat(pre, T.unit(x), suf))
        if enum:
            q.assume(z3.Length(seq) == z3.Length(pre) + 1 + z3.Length(suf))
            q.assume(seq[z3.Length(pre)] == x)        # getElem_append: the element at the enumerate index is the loop element
        # counting distributes over the split (count_append), instantiated per reference term of the query
        q.schemas.append(Schema(f"split({x})", (Ref,), lambda y, seq=seq, pre=pre, x=x, suf=suf:
                                T.Cnt(seq, y) == T.Cnt(pre, y) + T.b2i(T.eq(x, y)) + T.Cnt(suf, y),
                                trigger=("cnt-args", tuple(t for t in [seq, pre, suf] + T._flat(seq) if not (T._is_unit(t) or T._is_concat(t) or T._is_empty(t))), (x,))))
        for n in assigned:
            if n in q.env:
                q.env[n] = self.havoc_local(n, q.env[n], assigned)
        invk = self.call_inv(ls, 'assume', q, mk(q.env, pre, elem=x, suffix=suf))
        self.assume_inv(q, invk, entry_st)
        if not self.feasible(q):
            body_res = []
        else:
            ev = self.elem_value(x, ecn, it)
            if ecn and not (isinstance(it, VIter) and getattr(it, "elem_nullable", False)):
                pass
            if mapper is not None:
                ev = mapper(x)
            if enum:
                ev = VPyTuple([VInt(T.Len(pre)), ev])      # enumerate: the index is the length of the processed prefix
            for (q1, c1) in self.assign(st.target, ev, q):
                if c1 is not None:
                    results.append((q1, c1))
            body_res = self.exec_block(st.body, q)
        for (r, ctrl) in body_res:
            if ctrl is None or ctrl[0] == "continue":
                inv1 = self.call_inv(ls, 'check', r, mk(r.env, T.snoc(pre, x), stt=r.st))
                self.check_inv(r, inv1, "preserve", ls, entry_st)
            elif ctrl[0] == "break":
                results.append((r, None))
            else:
                results.append((r, ctrl))
        # 3. exit (prefix = whole sequence)
        e = p.copy()
        e.trail.append(f"L{ls.ordinal}x")
        for n in assigned:
            if n in e.env:
                e.env[n] = self.havoc_local(n, e.env[n], assigned)
        inve = self.call_inv(ls, 'exit', e, mk(e.env, seq))
        self.assume_inv(e, inve, entry_st, finished=True)
        if self.feasible(e):
            results.append((e, None))
        return results

    def st_While(self, st, p: Path):
        if st.orelse:
            raise Unsupported("while-else")
        ls = self.loop_spec(st)
        entry_st = p.st.copy()
        entry_env = dict(p.env)
        entry_out = p.out

        def mk(env, k, stt=None):
            L = LoopCtx(env, entry_st, self.pre, None, None, None, self.args, self, k)
            L.entry_env = entry_env
            L.entry_out = entry_out
            L.cur = stt
            return L
        inv0 = self.call_inv(ls, 'entry', p, mk(p.env, z3.IntVal(0), p.st))
        self.check_inv(p, inv0, "entry", ls, entry_st)
        assigned = self.assigned_names(st)
        q = p.copy()
        q.trail.append(f"L{ls.ordinal}w")
        k = T.fresh("k", Int)
        q.assume(k >= 0)
        for n in assigned:
            if n in q.env:
                q.env[n] = self.havoc_local(n, q.env[n], assigned)
        invk = self.call_inv(ls, 'assume', q, mk(q.env, k))
        self.assume_inv(q, invk, entry_st)
        results = []
        for (r, c) in self.eval_cond(st.test, q):
            if isinstance(c, VRaise):
                results.append((r, ("raise", c)))
                continue
            for (r2, side) in self.fork(r, c, f"while@{st.lineno}"):
                if not side:
                    results.append((r2, None))      # loop exit with invariant + negated guard
                    continue
                for (r3, ctrl) in self.exec_block(st.body, r2):
                    if ctrl is None or ctrl[0] == "continue":
                        inv1 = self.call_inv(ls, 'check', r3, mk(r3.env, k + 1, r3.st))
                        self.check_inv(r3, inv1, "preserve", ls, entry_st)
                        if invk.variant is not None and inv1.variant is not None:
                            self.emit(r3, "decreases", f"loop{ls.ordinal}/variant",
                                      z3.And(invk.variant >= 0, inv1.variant < invk.variant),
                                      meta={"clause": "loop variant decreases and is bounded below"})
                    elif ctrl[0] == "break":
                        results.append((r3, None))
                    else:
                        results.append((r3, ctrl))
        return results

    # ---- generators -------------------------------------------------------------
    def do_yield(self, node, p: Path):
        out = []
        if node.value is None:
            raise Unsupported("bare yield")
        for (q, v) in self.eval(node.value, p):
            if isinstance(v, VRaise):
                out.append((q, ("raise", v)))
                continue
            if not isinstance(v, VRef):
                raise Unsupported("yield of non-reference")
            q.out = T.snoc(q.out, v.term)
            out.append((q, None))
        return out

    def do_yield_from(self, node, p: Path):
        out = []
        p.ghost = dict(p.ghost)
        p.ghost["$want_out"] = True
        for (q, v) in self.eval(node.value, p):
            q.ghost.pop("$want_out", None)
            if isinstance(v, VRaise):
                out.append((q, ("raise", v)))
                continue
            if isinstance(v, VSeq):
                q.out = T.cat(q.out, v.term)
            elif isinstance(v, VList):
                q.out = T.cat(q.out, q.st.elems(v.ref))
            else:
                raise Unsupported("yield from " + type(v).__name__)
            out.append((q, None))
        return out

    # ------------------------------------------------------------------ assignment targets
    def mangle(self, attr: str) -> str:
        if attr.startswith("__") and not attr.endswith("__") and self.cur is not None and self.cur.cls:
            return f"_{self.cur.cls.lstrip('_')}{attr}"
        return attr

    def assign(self, tgt, v: V, p: Path):
        if isinstance(tgt, ast.Name):
            p.env[tgt.id] = v
            return [(p, None)]
        if isinstance(tgt, (ast.Tuple, ast.List)):
            if isinstance(v, VPyTuple) and len(v.items) == len(tgt.elts):
                paths = [(p, None)]
                for t, item in zip(tgt.elts, v.items):
                    nxt = []
                    for (q, ctrl) in paths:
                        if ctrl is None:
                            nxt.extend(self.assign(t, item, q))
                        else:
                            nxt.append((q, ctrl))
                    paths = nxt
                return paths
            raise Unsupported("unpacking of " + type(v).__name__)
        if isinstance(tgt, ast.Attribute):
            out = []
            for (q, recv) in self.eval(tgt.value, p):
                if isinstance(recv, VRaise):
                    out.append((q, ("raise", recv)))
                    continue
                for (r, res) in self.store_attr(recv, self.mangle(tgt.attr), v, q):
                    out.append((r, ("raise", res)) if isinstance(res, VRaise) else (r, None))
            return out
        if isinstance(tgt, ast.Subscript):
            out = []
            for (q, recv) in self.eval(tgt.value, p):
                if isinstance(recv, VRaise):
                    out.append((q, ("raise", recv)))
                    continue
                for (r, idx) in self.eval(tgt.slice, q):
                    if isinstance(idx, VRaise):
                        out.append((r, ("raise", idx)))
                        continue
                    for (r2, res) in self.store_item(recv, idx, v, r):
                        out.append((r2, ("raise", res)) if isinstance(res, VRaise) else (r2, None))
            return out
        raise Unsupported("assignment target " + type(tgt).__name__)

    def delete(self, tgt, p: Path):
        if isinstance(tgt, ast.Attribute):
            out = []
            for (q, recv) in self.eval(tgt.value, p):
                if isinstance(recv, VRaise):
                    out.append((q, ("raise", recv)))
                    continue
                out.extend(self.del_attr(recv, self.mangle(tgt.attr), q))
            return out
        if isinstance(tgt, ast.Subscript):
            out = []
            for (q, recv) in self.eval(tgt.value, p):
                if isinstance(recv, VRaise):
                    out.append((q, ("raise", recv)))
                    continue
                for (r, idx) in self.eval(tgt.slice, q):
                    if isinstance(idx, VRaise):
                        out.append((r, ("raise", idx)))
                        continue
                    out.extend(self.del_item(recv, idx, r))
            return out
        if isinstance(tgt, ast.Name):
            p.env.pop(tgt.id, None)
            return [(p, None)]
        raise Unsupported("del target")

    # hooks filled in by the mixin in ops.py
