"""Discharge of obligations: tool-side quantifier instantiation + saturation, z3 first, cvc5 on `unknown`."""
from __future__ import annotations
import itertools
import os
import subprocess
import tempfile
import time
from dataclasses import dataclass, field
import z3
from . import terms as T
from .terms import Ref, Int, Bool, Str
from .contracts import Schema

Z3_TIMEOUT_MS = int(os.environ.get("PYVC_Z3_TIMEOUT_MS", "20000"))
CVC5_TIMEOUT_MS = int(os.environ.get("PYVC_CVC5_TIMEOUT_MS", "30000"))
MAX_UNIVERSE = 60


@dataclass
class Result:
    oid: str
    status: str            # 'proved' | 'refuted' | 'unknown' | 'covered' | 'vacuous'
    backend: str
    seconds: float
    ninst: int = 0
    model: object = None
    reason: str = ""


def field_apps(formulas, names):
    """argument tuples of applications of heap-field functions whose field name is in `names`"""
    out = {}
    for t in T.subterms(formulas):
        if z3.is_app(t) and t.num_args() > 0 and t.decl().kind() == z3.Z3_OP_UNINTERPRETED:
            nm = t.decl().name()
            base = nm.split("@", 1)[0]
            if base in names:
                out[tuple(a.get_id() for a in t.children())] = tuple(t.children())
    return list(out.values())


def instantiate(schemas, formulas, rounds=2):
    insts = []
    done = set()
    work = list(formulas)
    allf = list(formulas)
    for _rnd in range(rounds):
        new = []
        univ = {}
        for t in T.ref_terms(allf):
            univ[t.get_id()] = t
        U = list(univ.values())
        if len(U) > MAX_UNIVERSE:
            # keep the smaller terms (constants and shallow reads first)
            U.sort(key=lambda t: len(t.sexpr()))
            U = U[:MAX_UNIVERSE]
        for si, sch in enumerate(schemas):
            if sch.trigger:
                tuples = [a for a in field_apps(allf, set(sch.trigger)) if len(a) == len(sch.sorts)
                          and all(x.sort().eq(s) for x, s in zip(a, sch.sorts))]
            elif all(s.eq(Ref) for s in sch.sorts):
                tuples = list(itertools.product(U, repeat=len(sch.sorts)))
            else:
                raise ValueError(f"schema {sch.name}: non-reference sorts need a trigger")
            for tup in tuples:
                key = (si,) + tuple(x.get_id() for x in tup)
                if key in done:
                    continue
                done.add(key)
                f = sch.fn(*tup)
                if z3.is_true(f):
                    continue
                new.append(f)
        if not new:
            break
        insts.extend(new)
        allf = allf + new
    return insts


def build_query(ob, class_axioms, base_facts):
    if ob.expect == "sat":
        core = list(ob.hyps)
    else:
        core = list(ob.hyps) + [T.neg(ob.goal)]
    core += base_facts
    insts = instantiate(ob.schemas, core)
    allf = core + insts
    sat_ax = T.saturate(allf, class_axioms)
    # seq.nth membership: an element read from a sequence is a member of it
    extra = []
    for t in T.subterms(allf):
        if z3.is_app(t) and t.decl().kind() == z3.Z3_OP_SEQ_NTH and t.sort().eq(Ref):
            s, i = t.arg(0), t.arg(1)
            extra.append(z3.Implies(z3.And(i >= 0, i < z3.Length(s)), T.Cnt(s, t) >= 1))
    extra += T.saturate(extra, class_axioms) if extra else []
    return allf + sat_ax + extra, len(insts)


def run_cvc5(smt2: str, timeout_ms: int):
    with tempfile.NamedTemporaryFile("w", suffix=".smt2", delete=False) as fh:
        fh.write("(set-logic ALL)\n" + smt2 + "\n(check-sat)\n")
        path = fh.name
    try:
        r = subprocess.run(["/usr/bin/cvc5", "--strings-exp", f"--tlimit={timeout_ms}", path], capture_output=True,
                           text=True, timeout=timeout_ms / 1000 + 10)
        out = r.stdout.strip().splitlines()
        return out[0] if out else "unknown"
    except Exception:
        return "unknown"
    finally:
        os.unlink(path)


def discharge(ob, class_axioms, base_facts, want_model=True) -> Result:
    t0 = time.time()
    if ob.expect == "unsat" and z3.is_true(ob.goal):
        return Result(ob.oid, "proved", "syntactic", 0.0)
    fs, ninst = build_query(ob, class_axioms, base_facts)
    s = z3.Solver()
    s.set("timeout", Z3_TIMEOUT_MS)
    s.add(*fs)
    r = s.check()
    backend = f"z3-{z3.get_version_string()}"
    if r == z3.unknown:
        smt2 = s.to_smt2().replace("(check-sat)", "")
        cv = run_cvc5(smt2, CVC5_TIMEOUT_MS)
        if cv in ("sat", "unsat"):
            backend = "cvc5-1.0.3"
            r = z3.sat if cv == "sat" else z3.unsat
            if r == z3.sat:
                # model needed from z3: retry with another seed, otherwise report without model
                s2 = z3.Solver()
                s2.set("timeout", Z3_TIMEOUT_MS)
                s2.set("random_seed", 7)
                s2.add(*fs)
                if s2.check() == z3.sat:
                    s = s2
                else:
                    s = None
    dt = time.time() - t0
    if ob.expect == "sat":
        if r == z3.sat:
            return Result(ob.oid, "covered", backend, dt, ninst)
        if r == z3.unsat:
            return Result(ob.oid, "vacuous", backend, dt, ninst, reason="hypotheses are contradictory")
        return Result(ob.oid, "unknown", backend, dt, ninst, reason=str(s.reason_unknown()) if s else "")
    if r == z3.unsat:
        return Result(ob.oid, "proved", backend, dt, ninst)
    if r == z3.sat:
        m = s.model() if (s is not None and want_model) else None
        return Result(ob.oid, "refuted", backend, dt, ninst, model=m)
    return Result(ob.oid, "unknown", backend, dt, ninst, reason=s.reason_unknown() if s else "")
