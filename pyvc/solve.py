"""Discharge of obligations: tool-side quantifier instantiation + saturation, z3 first, cvc5 on `unknown`."""
from __future__ import annotations
import itertools
import os
import subprocess
import tempfile
import time
from dataclasses import dataclass, field
import z3
from . import terms as T
from .terms import Ref, Int, Bool, Str
from .contracts import Schema

Z3_TIMEOUT_MS = int(os.environ.get("PYVC_Z3_TIMEOUT_MS", "20000"))
CVC5_TIMEOUT_MS = int(os.environ.get("PYVC_CVC5_TIMEOUT_MS", "30000"))
MAX_UNIVERSE = 60


@dataclass
class Result:
    oid: str
    status: str            # 'proved' | 'refuted' | 'unknown' | 'covered' | 'vacuous'
    backend: str
    seconds: float
    ninst: int = 0
    model: object = None
    reason: str = ""


def _field_read_arg(s):
    """if s is a plain read f@tag(v) of a heap field of one reference argument, return v"""
    if z3.is_app(s) and s.num_args() == 1 and s.decl().kind() == z3.Z3_OP_UNINTERPRETED and "@" in s.decl().name():
        a = s.arg(0)
        if a.sort().eq(Ref):
            return a
    return None


def build_query(ob, class_axioms, base_facts, rounds=3):
    """hypotheses + negated goal, tool-side instantiation of the quantified hypotheses (DESIGN.md 3.4) and saturation
    with the generic axioms of the uninterpreted list algebra.  Instantiation is trigger driven:
      - unary reference schemas: every reference term of the query;
      - binary reference schemas: pairs (v, x) / (x, v) for every membership atom cnt(f(v), x) of the query
        (trigger 'product' forces the full cartesian product);
      - schemas with a field trigger: argument tuples of the applications of those heap fields."""
    if ob.expect == "sat":
        core = list(ob.hyps)
    else:
        core = list(ob.hyps) + [T.neg(ob.goal)]
    core += base_facts
    sc = T.Scanner()
    seen_cls = set()
    allf = list(core)
    work = list(core)
    U = {}
    pairs = {}
    ftuples = {}
    done = set()
    ninst = 0
    for _rnd in range(rounds):
        found, fields = sc.add(work)
        new = T.axioms_for(found, class_axioms, seen_cls)
        for t in found["ref"]:
            U.setdefault(t.get_id(), t)
        for t in found["cnt"]:
            v = _field_read_arg(t.arg(0))
            if v is not None:
                x = t.arg(1)
                pairs.setdefault((v.get_id(), x.get_id()), (v, x))
                pairs.setdefault((x.get_id(), v.get_id()), (x, v))
        for fname, tups in fields.items():
            d = ftuples.setdefault(fname, {})
            for tp in tups:
                d.setdefault(tuple(a.get_id() for a in tp), tp)
        Ul = list(U.values())
        if len(Ul) > MAX_UNIVERSE:
            Ul.sort(key=lambda t: len(t.sexpr()))
            Ul = Ul[:MAX_UNIVERSE]
        for si, sch in enumerate(ob.schemas):
            if sch.trigger and sch.trigger != ("product",):
                tuples = []
                for fname in sch.trigger:
                    for tp in ftuples.get(fname, {}).values():
                        if len(tp) == len(sch.sorts) and all(x.sort().eq(s_) for x, s_ in zip(tp, sch.sorts)):
                            tuples.append(tp)
                        elif len(tp) < len(sch.sorts) and all(x.sort().eq(s_) for x, s_ in zip(tp, sch.sorts)) \
                                and all(s_.eq(Ref) for s_ in sch.sorts[len(tp):]):
                            # trailing reference variables range over the reference universe
                            for rest in itertools.product(Ul, repeat=len(sch.sorts) - len(tp)):
                                tuples.append(tp + rest)
            elif len(sch.sorts) == 1 and sch.sorts[0].eq(Ref):
                tuples = [(t,) for t in Ul]
            elif len(sch.sorts) == 2 and all(s_.eq(Ref) for s_ in sch.sorts) and not sch.trigger:
                tuples = list(pairs.values())
            elif all(s_.eq(Ref) for s_ in sch.sorts):
                tuples = list(itertools.product(Ul, repeat=len(sch.sorts)))
            else:
                raise ValueError(f"schema {sch.name}: non-reference sorts need a trigger")
            for tup in tuples:
                key = (si,) + tuple(x.get_id() for x in tup)
                if key in done:
                    continue
                done.add(key)
                f = sch.fn(*tup)
                if z3.is_true(f):
                    continue
                new.append(f)
                ninst += 1
        if not new:
            break
        allf.extend(new)
        work = new
    return allf, ninst


def run_cvc5(smt2: str, timeout_ms: int):
    with tempfile.NamedTemporaryFile("w", suffix=".smt2", delete=False) as fh:
        fh.write("(set-logic ALL)\n" + smt2 + "\n(check-sat)\n")
        path = fh.name
    try:
        r = subprocess.run(["/usr/bin/cvc5", "--strings-exp", f"--tlimit={timeout_ms}", path], capture_output=True,
                           text=True, timeout=timeout_ms / 1000 + 10)
        out = r.stdout.strip().splitlines()
        return out[0] if out else "unknown"
    except Exception:
        return "unknown"
    finally:
        os.unlink(path)


def discharge(ob, class_axioms, base_facts, want_model=True) -> Result:
    t0 = time.time()
    if ob.expect == "unsat" and z3.is_true(ob.goal):
        return Result(ob.oid, "proved", "syntactic", 0.0)
    fs, ninst = build_query(ob, class_axioms, base_facts)
    s = z3.Solver()
    s.set("timeout", Z3_TIMEOUT_MS)
    s.add(*fs)
    r = s.check()
    backend = f"z3-{z3.get_version_string()}"
    if r == z3.unknown:
        smt2 = s.to_smt2().replace("(check-sat)", "")
        cv = run_cvc5(smt2, CVC5_TIMEOUT_MS)
        if cv in ("sat", "unsat"):
            backend = "cvc5-1.0.3"
            r = z3.sat if cv == "sat" else z3.unsat
            if r == z3.sat:
                # model needed from z3: retry with another seed, otherwise report without model
                s2 = z3.Solver()
                s2.set("timeout", Z3_TIMEOUT_MS)
                s2.set("random_seed", 7)
                s2.add(*fs)
                if s2.check() == z3.sat:
                    s = s2
                else:
                    s = None
    dt = time.time() - t0
    if ob.expect == "sat":
        if r == z3.sat:
            return Result(ob.oid, "covered", backend, dt, ninst)
        if r == z3.unsat:
            return Result(ob.oid, "vacuous", backend, dt, ninst, reason="hypotheses are contradictory")
        # a vacuity guard the solvers cannot decide (model construction over sequences + uninterpreted functions):
        # retry on the ground hypotheses only, then give up without failing anything
        s3 = z3.Solver()
        s3.set("timeout", 5000)
        s3.add(*[h for h in ob.hyps])
        s3.add(*base_facts)
        r3 = s3.check()
        if r3 == z3.unsat:
            return Result(ob.oid, "vacuous", backend, time.time() - t0, ninst, reason="ground hypotheses are contradictory")
        return Result(ob.oid, "cover-unknown", backend, time.time() - t0, ninst,
                      reason="satisfiability of the instantiated hypotheses not decided" + (" (ground part is satisfiable)" if r3 == z3.sat else ""))
    if r == z3.unsat:
        return Result(ob.oid, "proved", backend, dt, ninst)
    if r == z3.sat:
        m = s.model() if (s is not None and want_model) else None
        return Result(ob.oid, "refuted", backend, dt, ninst, model=m)
    return Result(ob.oid, "unknown", backend, dt, ninst, reason=s.reason_unknown() if s else "")
