"""Discharge of obligations: tool-side quantifier instantiation + saturation, z3 first, cvc5 on `unknown`."""
from __future__ import annotations
import itertools
import os
import subprocess
import tempfile
import time
from dataclasses import dataclass, field
import z3
from . import terms as T
from .terms import Ref, Int, Bool, Str
from .contracts import Schema

Z3_TIMEOUT_MS = int(os.environ.get("PYVC_Z3_TIMEOUT_MS", "120000"))
CVC5_TIMEOUT_MS = int(os.environ.get("PYVC_CVC5_TIMEOUT_MS", "20000"))
MAX_UNIVERSE = 60


@dataclass
class Result:
    oid: str
    status: str            # 'proved' | 'refuted' | 'unknown' | 'covered' | 'vacuous'
    backend: str
    seconds: float
    ninst: int = 0
    model: object = None
    reason: str = ""


def _field_read_arg(s):
    """if s is a plain read f@tag(v) of a heap field of one reference argument, return v"""
    if z3.is_app(s) and s.num_args() == 1 and s.decl().kind() == z3.Z3_OP_UNINTERPRETED and "@" in s.decl().name():
        a = s.arg(0)
        if a.sort().eq(Ref):
            return a
    return None


_INST_CACHE = {}      # (id(schema), ids of the argument terms) -> (schema, terms, instance)      [per process]
_SCAN_CACHE = {}      # formula id -> (formula, found, fields, axioms)                              [per process]
_CLS_SEEN = None


RELEVANCE = os.environ.get("PYVC_RELEVANCE", "1") == "1"
_APPS_CACHE = {}      # formula id -> (formula, frozenset of ids of its uninterpreted applications)
_LAST_WAITING = []
_KEYS_CACHE = {}      # (formula id, instantiation term ids) -> (formula, keys, direct)
_c = z3.z3core


def _apps_of(f):
    """ids of all uninterpreted applications (arity > 0) occurring in f"""
    hit = _APPS_CACHE.get(f.get_id())
    if hit is not None:
        return hit[1]
    ctx = z3.main_ctx().ref()
    out = set()
    seen = set()
    stack = [f.as_ast()]
    while stack:
        a = stack.pop()
        aid = _c.Z3_get_ast_id(ctx, a)
        if aid in seen:
            continue
        seen.add(aid)
        if _c.Z3_get_ast_kind(ctx, a) != z3.Z3_APP_AST:
            continue
        app = _c.Z3_to_app(ctx, a)
        n = _c.Z3_get_app_num_args(ctx, app)
        if n and _c.Z3_get_decl_kind(ctx, _c.Z3_get_app_decl(ctx, app)) == z3.Z3_OP_UNINTERPRETED:
            out.add(aid)
        for i in range(n):
            stack.append(_c.Z3_get_app_arg(ctx, app, i))
    out = frozenset(out)
    _APPS_CACHE[f.get_id()] = (f, out)
    return out


def _inst_keys(g, tup):
    """trigger terms of the instance g of a schema at the terms `tup`: the uninterpreted applications in g that have one of
    the instantiation terms as a direct argument; direct = g also constrains an instantiation term by a plain (dis)equality
    or arithmetic atom, which no trigger can anticipate"""
    tids = tuple(t.get_id() for t in tup)
    key = (g.get_id(), tids)
    hit = _KEYS_CACHE.get(key)
    if hit is not None:
        return hit[1], hit[2]
    tset = set(tids)
    ctx = z3.main_ctx().ref()
    keys = set()
    direct = False
    seen = set()
    stack = [g.as_ast()]
    while stack:
        a = stack.pop()
        aid = _c.Z3_get_ast_id(ctx, a)
        if aid in seen:
            continue
        seen.add(aid)
        if aid in tset:
            continue            # inside an instantiation term: its own subterms are already known
        if _c.Z3_get_ast_kind(ctx, a) != z3.Z3_APP_AST:
            continue
        app = _c.Z3_to_app(ctx, a)
        n = _c.Z3_get_app_num_args(ctx, app)
        if not n:
            continue
        dk = _c.Z3_get_decl_kind(ctx, _c.Z3_get_app_decl(ctx, app))
        has = False
        for i in range(n):
            ch = _c.Z3_get_app_arg(ctx, app, i)
            if _c.Z3_get_ast_id(ctx, ch) in tset:
                has = True
            stack.append(ch)
        if has:
            if dk == z3.Z3_OP_UNINTERPRETED:
                keys.add(aid)
            elif dk not in (z3.Z3_OP_ITE,):
                direct = True      # x == t, distinct, arithmetic, sequence constructors over x ...
    _KEYS_CACHE[key] = (g, frozenset(keys), direct)
    return frozenset(keys), direct


def _conjuncts(f):
    if z3.is_and(f):
        out = []
        for ch in f.children():
            out.extend(_conjuncts(ch))
        return out
    return [f]


def _scan_formula(f, class_axioms):
    """classification of the subterms of one formula + the generic axioms of its own terms (cached per formula)"""
    hit = _SCAN_CACHE.get(f.get_id())
    if hit is not None:
        return hit[1], hit[2], hit[3]
    sc = T.Scanner()
    found, fields = sc.add([f])
    ax = T.axioms_for(found, class_axioms, set())
    _SCAN_CACHE[f.get_id()] = (f, found, fields, ax)
    return found, fields, ax


def build_query(ob, class_axioms, base_facts, rounds=3):
    """hypotheses + negated goal, tool-side instantiation of the quantified hypotheses (DESIGN.md 3.4) and saturation
    with the generic axioms of the uninterpreted list algebra.  Instantiation is trigger driven:
      - unary reference schemas: every reference term of the query;
      - binary reference schemas: pairs (v, x) / (x, v) for every membership atom cnt(f(v), x) of the query
        (trigger 'product' forces the full cartesian product);
      - schemas with a field trigger: argument tuples of the applications of those heap fields."""
    if ob.expect == "sat":
        core = list(ob.hyps)
    else:
        core = list(ob.hyps) + [T.neg(ob.goal)]
    core += base_facts
    allf = {}
    work = []
    for f in core:
        if f.get_id() not in allf:
            allf[f.get_id()] = f
            work.append(f)
    U = {}
    pairs = {}
    ftuples = {}
    cnt_atoms = {}
    done = set()
    ninst = 0
    known = set()          # ids of the uninterpreted applications occurring in the query so far
    waiting = []           # instance conjuncts none of whose trigger terms occurs yet
    for _rnd in range(rounds):
        new = []
        for f in work:
            found, fields, ax = _scan_formula(f, class_axioms)
            new.extend(ax)
            if RELEVANCE:
                known |= _apps_of(f)
                for a_ in ax:
                    known |= _apps_of(a_)
            for t in found["ref"]:
                U.setdefault(t.get_id(), t)
            for t in found["cnt"]:
                s0, x = t.arg(0), t.arg(1)
                cnt_atoms.setdefault((s0.get_id(), x.get_id()), (s0, x))
                vs = []
                origin = ""
                v = _field_read_arg(s0)
                if v is not None:
                    vs.append(v)
                    origin = s0.decl().name()
                elif z3.is_app(s0) and s0.decl().kind() == z3.Z3_OP_UNINTERPRETED and s0.num_args() > 0:
                    # a spec function of some references (e.g. NBf(links(v), v, d, u, f)): pair its first reference argument with x
                    origin = s0.decl().name()
                    refs_ = [a for a in s0.children() if a.sort().eq(Ref)]
                    vs.extend(refs_[:1] if origin.startswith("NBf@") else refs_)
                for v in vs:
                    pairs.setdefault((v.get_id(), x.get_id(), origin), (v, x))
                    pairs.setdefault((x.get_id(), v.get_id(), origin), (x, v))
            for fname, tups in fields.items():
                d = ftuples.setdefault(fname, {})
                for tp in tups:
                    d.setdefault(tuple(a.get_id() for a in tp), tp)
        if RELEVANCE and waiting:
            still = []
            for (g_, keys_) in waiting:
                if keys_ & known:
                    new.append(g_)
                else:
                    still.append((g_, keys_))
            waiting = still
        Ul = list(U.values())
        if len(Ul) > MAX_UNIVERSE:
            Ul.sort(key=lambda t: len(t.sexpr()))
            Ul = Ul[:MAX_UNIVERSE]
        for si, sch in enumerate(ob.schemas):
            universe_driven = False
            if sch.trigger and sch.trigger[0] == "cnt-args":
                # y ranges over the elements whose count in one of the given sequence terms is mentioned (plus the units)
                want = {t.get_id() for t in sch.trigger[1]}
                ys = {}
                for y in sch.trigger[2]:
                    ys[y.get_id()] = y
                for (sid_, xid_), (s_, x_) in cnt_atoms.items():
                    if sid_ in want:
                        ys[xid_] = x_
                for t in U.values():          # the skolem constants of the goal are always relevant
                    if z3.is_const(t) and t.decl().name().startswith(("sk", "k_")):
                        ys[t.get_id()] = t
                tuples = [(y,) for y in ys.values()]
            elif sch.trigger and sch.trigger != ("product",):
                tuples = []
                for fname in sch.trigger:
                    for tp in ftuples.get(fname, {}).values():
                        if len(tp) == len(sch.sorts) and all(x.sort().eq(s_) for x, s_ in zip(tp, sch.sorts)):
                            tuples.append(tp)
                        elif len(tp) < len(sch.sorts) and all(x.sort().eq(s_) for x, s_ in zip(tp, sch.sorts)) \
                                and all(s_.eq(Ref) for s_ in sch.sorts[len(tp):]):
                            # trailing reference variables range over the reference universe
                            for rest in itertools.product(Ul, repeat=len(sch.sorts) - len(tp)):
                                tuples.append(tp + rest)
            elif len(sch.sorts) == 1 and sch.sorts[0].eq(Ref):
                tuples = [(t,) for t in Ul]
                universe_driven = True      # no trigger matched these instances: keep only those that touch the query
            elif len(sch.sorts) == 2 and all(s_.eq(Ref) for s_ in sch.sorts) and not sch.trigger:
                if sch.pair_from:
                    tuples = [pv for (k_, pv) in pairs.items() if k_[2].startswith(sch.pair_from)]
                else:
                    tuples = list(pairs.values())
            elif all(s_.eq(Ref) for s_ in sch.sorts):
                tuples = list(itertools.product(Ul, repeat=len(sch.sorts)))
                universe_driven = True
            else:
                raise ValueError(f"schema {sch.name}: non-reference sorts need a trigger")
            sid = id(sch)
            for tup in tuples:
                key = (sid,) + tuple(x.get_id() for x in tup)
                if key in done:
                    continue
                done.add(key)
                hit = _INST_CACHE.get(key)
                if hit is None:
                    f = sch.fn(*tup)
                    _INST_CACHE[key] = (sch, tup, f)
                else:
                    f = hit[2]
                if z3.is_true(f):
                    continue
                ninst += 1
                if not RELEVANCE or ob.expect == "sat" or not universe_driven or not sch.filter:
                    new.append(f)
                    continue
                for g_ in _conjuncts(f):
                    keys_, direct_ = _inst_keys(g_, tup)
                    if direct_ or not keys_ or (keys_ & known):
                        new.append(g_)
                    else:
                        waiting.append((g_, keys_))
        work = []
        for f in new:
            if f.get_id() not in allf:
                allf[f.get_id()] = f
                work.append(f)
        if not work:
            break
    global _LAST_WAITING
    _LAST_WAITING = waiting
    return list(allf.values()), ninst


def run_cvc5(smt2: str, timeout_ms: int):
    with tempfile.NamedTemporaryFile("w", suffix=".smt2", delete=False) as fh:
        fh.write("(set-logic ALL)\n" + smt2 + "\n(check-sat)\n")
        path = fh.name
    try:
        r = subprocess.run(["/usr/bin/cvc5", "--strings-exp", f"--tlimit={timeout_ms}", path], capture_output=True,
                           text=True, timeout=timeout_ms / 1000 + 10)
        out = r.stdout.strip().splitlines()
        return out[0] if out else "unknown"
    except Exception:
        return "unknown"
    finally:
        os.unlink(path)


def discharge(ob, class_axioms, base_facts, want_model=True, timeout_ms=None, quick=False) -> Result:
    """quick: one z3 attempt only (used for the conjunction of a group of obligations: on failure each member is tried alone)"""
    t0 = time.time()
    if ob.expect == "unsat" and z3.is_true(ob.goal):
        return Result(ob.oid, "proved", "syntactic", 0.0)
    fs, ninst = build_query(ob, class_axioms, base_facts)
    s = z3.Solver()
    s.set("timeout", (timeout_ms or Z3_TIMEOUT_MS) if ob.expect != "sat" else min(Z3_TIMEOUT_MS, 6000))
    s.add(*fs)
    r = s.check()
    backend = f"z3-{z3.get_version_string()}"
    if quick and r != z3.unsat:
        return Result(ob.oid, "unknown", backend, time.time() - t0, ninst, reason="group attempt")
    if r == z3.unknown and ob.expect != "sat":
        smt2 = s.to_smt2().replace("(check-sat)", "")
        cv = run_cvc5(smt2, CVC5_TIMEOUT_MS)
        if cv in ("sat", "unsat"):
            backend = "cvc5-1.0.3"
            r = z3.sat if cv == "sat" else z3.unsat
            if r == z3.sat:
                # model needed from z3: retry with another seed, otherwise report without model
                s2 = z3.Solver()
                s2.set("timeout", Z3_TIMEOUT_MS)
                s2.set("random_seed", 7)
                s2.add(*fs)
                if s2.check() == z3.sat:
                    s = s2
                else:
                    s = None
    if r == z3.unknown and ob.expect != "sat":
        # the solvers are slow at *finding* models over sequences: look for a small counter-model (every sequence-valued
        # uninterpreted term of length <= 3).  Sound for refutation: a bounded model is a model.
        bounds = []
        seen = set()
        for t in T.subterms(fs):
            if z3.is_app(t) and t.sort().eq(T.RSeq) and t.decl().kind() == z3.Z3_OP_UNINTERPRETED and t.get_id() not in seen:
                seen.add(t.get_id())
                bounds.append(z3.Length(t) <= 3)
        for seed_ in (0, 3):
            s4 = z3.Solver()
            s4.set("timeout", 15000)
            s4.set("random_seed", seed_)
            s4.add(*fs)
            s4.add(*bounds)
            r4 = s4.check()
            if r4 == z3.sat:
                r, s, backend = z3.sat, s4, backend + "+small-model"
                break
    dt = time.time() - t0
    if ob.expect == "sat":
        if r == z3.sat:
            return Result(ob.oid, "covered", backend, dt, ninst)
        if r == z3.unsat:
            return Result(ob.oid, "vacuous", backend, dt, ninst, reason="hypotheses are contradictory")
        # a vacuity guard the solvers cannot decide (model construction over sequences + uninterpreted functions):
        # retry on the ground hypotheses only, then give up without failing anything
        s3 = z3.Solver()
        s3.set("timeout", 5000)
        s3.add(*[h for h in ob.hyps])
        s3.add(*base_facts)
        r3 = s3.check()
        if r3 == z3.unsat:
            return Result(ob.oid, "vacuous", backend, time.time() - t0, ninst, reason="ground hypotheses are contradictory")
        return Result(ob.oid, "cover-unknown", backend, time.time() - t0, ninst,
                      reason="satisfiability of the instantiated hypotheses not decided" + (" (ground part is satisfiable)" if r3 == z3.sat else ""))
    if r == z3.unsat:
        return Result(ob.oid, "proved", backend, dt, ninst)
    if r == z3.sat:
        m = s.model() if (s is not None and want_model) else None
        return Result(ob.oid, "refuted", backend, dt, ninst, model=m)
    return Result(ob.oid, "unknown", backend, dt, ninst, reason=s.reason_unknown() if s else "")
