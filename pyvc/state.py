"""Symbolic heap: every field is an uninterpreted function of references for a *base* heap plus explicit updates.

No SMT array theory is used (DESIGN.md 3.3).  A `State` is immutable from the outside: `write*` return nothing but the
object may be `copy()`-ed in O(#fields).  Field names are the Python attribute names (after name mangling) so that the
extractor needs no mapping table; abstract views used by contracts (`links`, `ends`, `members`, `unis` ...) are
accessor methods defined here.
"""
from __future__ import annotations
import itertools
from dataclasses import dataclass
import z3
from . import terms as T
from .terms import Ref, RSeq, Int, Bool, Str, Cls

# name -> (argument sorts, value sort)
FIELD_SORTS: dict[str, tuple[tuple, object]] = {
    # owned private containers (value semantics, licensed by the ownership discipline, DESIGN.md 5.3)
    "_links": ((Ref,), RSeq),
    "_vertices": ((Ref,), RSeq),
    "_universes": ((Ref,), RSeq),
    # scalars
    "_uid": ((Ref,), Int),
    "_laws": ((Ref,), Ref),
    "_applies_to": ((Ref,), Ref),
    "_edge_whitelist": ((Ref,), Ref),
    "_mixed_links": ((Ref,), Ref),
    "_cycles": ((Ref,), Ref),
    "_multipath": ((Ref,), Ref),
    "_multiverse": ((Ref,), Ref),
    # neighbor memo of a vertex: key = (direction, unknown handling, filter object)
    "memo_has": ((Ref, Int, Int, Ref), Bool),
    "memo_val": ((Ref, Int, Int, Ref), Ref),
    # heap containers with identity
    "elems": ((Ref,), RSeq),            # contents of a list object
    "selems": ((Ref,), z3.SeqSort(Str)),  # contents of a list object that holds strings
    "setmem": ((Ref, Ref), Bool),       # membership of a set object
    "dmem": ((Ref, Ref), Bool),         # keys of a dict object keyed by references
    "dkeys": ((Ref,), RSeq),            # keys of a dict object in insertion order (dict used as an ordered set)
    # pyvis.network.Network objects (assumed contract of the third-party class, DESIGN.md C15)
    "net_nodes": ((Ref,), z3.SeqSort(Int)),    # node ids in insertion order
    "net_labels": ((Ref,), RSeq),            # their labels
    "net_from": ((Ref,), z3.SeqSort(Int)),
    "net_to": ((Ref,), z3.SeqSort(Int)),
    "net_arrow": ((Ref,), z3.SeqSort(Int)),    # 1 = arrowed ("arrows": "to"), 0 = plain
    "net_directed": ((Ref,), Bool),
    # singleton registries (structure/singleton.py)
    "tmap_has": ((Cls,), Bool),          # class has a TrueSingleton instance
    "tmap_val": ((Cls,), Ref),
    "smap_has": ((Ref, Ref), Bool),      # (metaclass object, key) is a live semi-singleton mapping
    "smap_val": ((Ref, Ref), Ref),
    "init_count": ((Ref,), Int),         # ghost: how often __init__ ran on the object
    "init_args": ((Ref,), Ref),          # ghost: the (args, kwargs) of that run
    # dynamic instance attributes (attributes=, setattr, temporaries)
    "dyn_has": ((Ref, Str), Bool),
    "dyn_val": ((Ref, Str), Ref),
    # PlantUML option tables (C14): options = {class: {option name: value}}
    "opt_has": ((Ref, Cls), Bool),       # the class is a key of the option table
    "opt_get": ((Ref, Cls), Ref),        # the per-class option dictionary stored under it
    "od_has": ((Ref, Str), Bool),        # the option dictionary has this key
    "od_val": ((Ref, Str), Ref),         # its value
    # nested mapping values (UniverseLaws.edge_whitelist: {type: {type: type}}): deep content and the mutable dict objects they consist of
    "wl_val": ((Ref,), Ref),             # the (deep) content of a mapping object, as a value
    "wl_part": ((Ref, Ref), Bool),       # x is a mutable dict object that mapping object o consists of (o itself or an inner dict)
    # nrpickler (C10): ghost trace of the real writes / memoisations performed through a pickler object
    "rtrace": ((Ref,), RSeq),
    # interpreter-global state
    "CACHING": ((), Bool),              # Vertex.NEIGHBOR_CACHING
    "stats_has": ((Int,), Bool),        # uid in Vertex._CACHE_STATS
}

_tagc = itertools.count()


@dataclass(frozen=True)
class FieldState:
    name: str
    base: z3.FuncDeclRef
    updates: tuple = ()          # each update: callable addr(tuple of terms) -> (cond, value)

    def read(self, *addr):
        r = self.base(*addr) if addr else self.base()
        for u in self.updates:
            c, v = u(addr)
            r = T.ite(c, v, r)
        return r


def _akey(a):
    if z3.is_int_value(a):
        return ("i", a.as_long())
    if z3.is_string_value(a):
        return ("s", a.as_string())
    return a.get_id()


class State:
    def __init__(self, tag: str | None = None, _fields=None):
        self.tag = tag if tag is not None else f"h{next(_tagc)}"
        self.fields: dict[str, FieldState] = dict(_fields) if _fields else {}

    # -- infrastructure -----------------------------------------------------
    def _fs(self, name) -> FieldState:
        fs = self.fields.get(name)
        if fs is None:
            args, val = FIELD_SORTS[name]
            fs = FieldState(name, z3.Function(f"{name}@{self.tag}", *args, val))
            self.fields[name] = fs
        return fs

    def copy(self) -> "State":
        s = State(self.tag, self.fields)
        s.table = self.table
        s.defaults = self.defaults
        return s

    defaults = None   # closed-world defaults of the concrete tables (e.g. memo_has -> False)
    table = None      # concrete base values (run-time monitor): (field, ids of the address constants) -> literal term

    def read(self, name, *addr):
        fs = self._fs(name)
        if self.table is not None:
            addr = tuple(a if (z3.is_const(a) or z3.is_int_value(a) or z3.is_string_value(a)) else z3.simplify(a) for a in addr)
            lit = self.table.get((name,) + tuple(_akey(a) for a in addr))
            if lit is None and self.defaults and name in self.defaults and all(
                    z3.is_int_value(a) or z3.is_string_value(a) or a.get_id() in T.CONCRETE for a in addr):
                lit = self.defaults[name]          # closed world: no entry for a concrete key means absent
            if lit is not None:
                r = lit
                for u in fs.updates:
                    c, v = u(addr)
                    r = T.ite(c, v, r)
                return r
        return fs.read(*addr)

    def set_base(self, name, addr, lit):
        if self.table is None:
            self.table = {}
        if not isinstance(addr, tuple):
            addr = (addr,)
        self.table[(name,) + tuple(_akey(a) for a in addr)] = lit

    def write(self, name, addr, val, when=None):
        """field[name](addr) := val  (if `when` holds)"""
        if not isinstance(addr, tuple):
            addr = (addr,)
        fs = self._fs(name)
        cond0 = when if when is not None else z3.BoolVal(True)

        def upd(a, addr=addr, val=val, cond0=cond0):
            return T.conj(cond0, *[T.eq(x, y) for x, y in zip(a, addr)]), val
        self.fields[name] = FieldState(name, fs.base, fs.updates + (upd,))

    def write_where(self, name, fn):
        """guarded bulk update: fn(addr tuple) -> (cond, val)"""
        fs = self._fs(name)
        self.fields[name] = FieldState(name, fs.base, fs.updates + (fn,))

    def havoc(self, name) -> FieldState:
        """replace the field by a fresh uninterpreted base; returns the old FieldState"""
        old = self._fs(name)
        args, val = FIELD_SORTS[name]
        self.fields[name] = FieldState(name, z3.Function(f"{name}@{self.tag}~{next(_tagc)}", *args, val))
        return old

    def touched(self) -> set[str]:
        return {n for n, f in self.fields.items()}

    def differs_from(self, other: "State") -> list[str]:
        """fields whose representation differs syntactically (candidates for an equality obligation)"""
        out = []
        for n in sorted(set(self.fields) | set(other.fields)):
            a, b = self._fs(n), other._fs(n)
            if a.base.eq(b.base) and a.updates == b.updates:
                continue
            out.append(n)
        return out

    def skolem_addr(self, name, prefix="k"):
        args, _ = FIELD_SORTS[name]
        return tuple(T.fresh(f"{prefix}_{name}", s) for s in args)

    # -- abstract views used by contracts (DESIGN.md 5.1) ----------------------
    def links(self, v):
        return self.read("_links", v)

    def ends(self, l):
        return self.read("_vertices", l)

    def members(self, u):
        return self.read("_vertices", u)

    def unis(self, o):
        return self.read("_universes", o)

    def uid(self, o):
        return self.read("_uid", o)

    def laws(self, u):
        return self.read("_laws", u)

    def applies(self, L):
        return self.read("_applies_to", L)

    def elems(self, r):
        return self.read("elems", r)

    def caching(self):
        return self.read("CACHING")

    def memo_has(self, v, d, u, f):
        return self.read("memo_has", v, d, u, f)

    def memo_val(self, v, d, u, f):
        return self.read("memo_val", v, d, u, f)

    # derived (contract of TwoEndedLink.v1 / v2 / other)
    def v1(self, l):
        return T.Nth(self.ends(l), 0)

    def v2(self, l):
        return T.Nth(self.ends(l), 1)

    def other(self, l, x):
        return T.ite(T.eq(x, self.v1(l)), self.v2(l), T.ite(T.eq(x, self.v2(l)), self.v1(l), T.NONE))
