"""Bounded exploration of public-API histories under the run-time contract monitor.

Used (a) as the labelled *bounded stand-in* for functions the symbolic executor cannot decide, (b) to look for a concrete
failing input when an obligation is refuted (the replay file then replays that history against the real code), and
(c) in the thorough tier as a cross-check that the contracts agree with CPython (a firing contract on the unchanged
tree would be a wrong contract or an unsound encoding).  Histories are sequences of operations over a small pool of
objects; arguments are chosen with heavy aliasing.  Everything here is bounded: never counted as proved.
"""
from __future__ import annotations
import json
import os
import random
import sys
import time
import traceback

from . import driver
from .monitor import Monitor, ContractViolation


class PropertyViolation(Exception):
    pass


def _faulty1(cls, fault=None):
    def f(e):
        if isinstance(e, cls):
            raise (fault or UserFault)("injected")
        return True
    return f


class Pool:
    def __init__(self, eg, mods):
        self.eg = eg
        self.mods = mods
        E = eg

        class OtherLink(E["TwoEndedLink"]):        # a two-ended link class that is neither directed nor undirected
            pass

        class SubDirected(E["DirectedEdge"]):
            pass

        class PlainVertex(E["Vertex"]):
            pass

        class MarkedVertex(E["Vertex"]):
            pass

        class FalsyVertex(PlainVertex, MarkedVertex):   # truth value must not matter anywhere; its MRO (Falsy, Plain, Marked, Vertex)
            def __bool__(self):                          # differs from its __base__ chain (Falsy, Plain, Vertex)
                return False
        self.vclasses = {"PlainVertex": PlainVertex, "MarkedVertex": MarkedVertex, "FalsyVertex": FalsyVertex}
        self.classes = {"DirectedEdge": E["DirectedEdge"], "UnDirectedEdge": E["UnDirectedEdge"], "OtherLink": OtherLink,
                        "SubDirected": SubDirected}
        # two vertices share a user-chosen uid (uids are labels, not identities: nothing may key on them)
        self.V = [E["Vertex"](uid=7), E["Vertex"](uid=7), FalsyVertex()]
        self.U = [E["Universe"](), E["Universe"]()]
        self.L = []          # links
        self.W = [self.U[0].laws, self.U[1].laws, E["UniverseLaws"]()]   # law sets
        self.last_results = []
        V0 = self.V[0]

        def accept(e, v):
            return True

        def reject(e, v):
            return []          # falsy, not False

        def selective(e, v):
            return v is V0

        def faulty(e, v):
            if v is V0:
                raise UserFault("injected")
            return True
        class FalsyReject:                         # a callable whose truth value is false: still a filter, not "no filter"
            def __bool__(self):
                return False

            def __call__(self, *a):
                return False
        def faulty_as(fault):
            def faulty_k(e, v):
                raise fault("injected")             # at every invocation: any vertex with a link that is looked at will do
            return faulty_k
        # a user callback may raise an exception of ANY class, also one the library (or an iterator protocol) treats specially
        self.filters2 = [None, accept, reject, selective, faulty, FalsyReject()] + [faulty_as(k) for k in FAULT_CLASSES[1:]]
        self.rfilters = [None, lambda v: True, lambda v: v is not V0, lambda v: []]
        for k_, v_ in enumerate(self.V):
            v_.tag = k_ % 2
        for k_, v_ in enumerate(self.V + self.U):
            v_.pname = "n%d" % k_                  # a unique printable name (title format of the PlantUML operation)
        self.filters1 = [None, lambda e: True, lambda e: 0, lambda e: isinstance(e, E["DirectedEdge"]),
                         _faulty1(E["UnDirectedEdge"]), FalsyReject()] + [_faulty1(E["UnDirectedEdge"], k) for k in FAULT_CLASSES[1:]]

    def vert(self, i):
        if i is None or i < 0:
            return None
        allv = self.V + self.U
        return allv[i % len(allv)]

    def link(self, i):
        return self.L[i % len(self.L)] if self.L else None

    def roots(self):
        return self.V + self.U + self.L + self.W


# ------------------------------------------------------------------------------------------------- operations
# op = (name, *int arguments); each returns nothing; exceptions of well-typed calls that the API documents are swallowed

def op_table():
    T = {}

    def reg(name, arity, group):
        def deco(fn):
            T[name] = (fn, arity, group)
            return fn
        return deco

    @reg("new_edge", 3, "assoc")
    def _(P, k, i, j):
        names = sorted(P.classes)
        P.L.append(P.classes[names[k % len(names)]](P.vert(i), P.vert(j)))

    @reg("new_link_multi", 3, "assoc")
    def _(P, i, j, k):
        P.L.append(P.eg["Link"](vertices=[P.vert(i), P.vert(j), P.vert(k)], _force_creation=True))

    @reg("set_v1", 2, "assoc")
    def _(P, e, i):
        l = P.link(e)
        if l is not None and hasattr(type(l), "v1"):
            try:
                l.v1 = P.vert(i)
            except IndexError:
                pass

    @reg("set_v2", 2, "assoc")
    def _(P, e, i):
        l = P.link(e)
        if l is not None and hasattr(type(l), "v2"):
            try:
                l.v2 = P.vert(i)
            except IndexError:
                pass

    @reg("add_to_link", 2, "assoc")
    def _(P, i, e):
        if P.link(e) is not None and P.vert(i) is not None:
            P.vert(i).add_to_link(P.link(e))

    @reg("remove_from_link", 2, "assoc")
    def _(P, i, e):
        if P.link(e) is not None and P.vert(i) is not None:
            P.vert(i).remove_from_link(P.link(e))

    @reg("add_vertex", 2, "assoc")
    def _(P, e, i):
        if P.link(e) is not None:
            P.link(e).add_vertex(P.vert(i))

    @reg("unlink_from", 2, "assoc")
    def _(P, e, i):
        if P.link(e) is not None:
            P.link(e).unlink_from(P.vert(i))

    @reg("new_vertex_links", 2, "assoc")
    def _(P, e1, e2):
        ls = [x for x in (P.link(e1), P.link(e2)) if x is not None]
        P.V.append(P.eg["Vertex"](links=iter(ls)))

    @reg("link_from_to", 4, "explicit")
    def _(P, k, i, j, dd):
        a, b = P.vert(i), P.vert(j)
        if a is None or b is None:
            return
        names = sorted(P.classes)
        try:
            r = P.mods["explicit"].link_from_to(a, P.classes[names[k % len(names)]], b, dontdup=bool(dd % 2))
        except (IndexError, AttributeError):
            return      # see unlink
        if r not in P.L:
            P.L.append(r)

    @reg("unlink", 3, "explicit")
    def _(P, i, j, d):
        a, b = P.vert(i), P.vert(j)
        if a is None or b is None:
            return
        try:
            P.mods["explicit"].unlink(a, b, destroy=bool(d % 2))
        except (IndexError, AttributeError):
            pass        # a has a link that is not two-ended (lost an end / plain Link): outside the builders' domain

    @reg("u_add_vertex", 2, "member")
    def _(P, u, i):
        if P.vert(i) is not None:
            P.U[u % len(P.U)].add_vertex(P.vert(i))

    @reg("u_remove_vertex", 2, "member")
    def _(P, u, i):
        if P.vert(i) is not None:
            try:
                P.U[u % len(P.U)].remove_vertex(P.vert(i))
            except ValueError:
                pass

    @reg("v_add_to_universe", 2, "member")
    def _(P, i, u):
        if P.vert(i) is not None:
            P.vert(i).add_to_universe(P.U[u % len(P.U)])

    @reg("v_remove_from_universe", 2, "member")
    def _(P, i, u):
        if P.vert(i) is not None:
            try:
                P.vert(i).remove_from_universe(P.U[u % len(P.U)])
            except ValueError:
                pass

    @reg("new_vertex_unis", 3, "member")
    def _(P, u1, u2, oneshot):
        us = [P.U[u1 % len(P.U)], P.U[u2 % len(P.U)]]
        P.V.append(P.eg["Vertex"](universes=iter(us) if oneshot % 2 else us))

    @reg("new_universe", 3, "member")
    def _(P, i, j, oneshot):
        vs = [x for x in (P.vert(i), P.vert(j)) if x is not None]
        P.U.append(P.eg["Universe"](vertices=iter(vs) if oneshot % 2 else vs))
        P.W.append(P.U[-1].laws)

    @reg("set_laws", 2, "laws")
    def _(P, u, w):
        P.U[u % len(P.U)].laws = None if w < 0 else P.W[w % len(P.W)]

    @reg("set_applies_to", 2, "laws")
    def _(P, w, u):
        P.W[w % len(P.W)].applies_to = None if u < 0 else P.U[u % len(P.U)]

    @reg("new_universe_laws", 1, "laws")
    def _(P, w):
        P.U.append(P.eg["Universe"](laws=None if w < 0 else P.W[w % len(P.W)]))
        if P.U[-1].laws not in P.W:
            P.W.append(P.U[-1].laws)

    @reg("toggle_cache", 1, "cache")
    def _(P, on):
        P.eg["Vertex"].NEIGHBOR_CACHING = bool(on % 2)

    @reg("forget_stats", 1, "cache")
    def _(P, _k):
        # what un-pickling into a fresh interpreter looks like to the objects: their memo is there, the class-level statistics
        # dictionary knows none of them (C05: "objects un-pickled into a fresh interpreter")
        P.eg["Vertex"]._CACHE_STATS.clear()

    @reg("query_neighbors", 4, "query")
    def _(P, i, d, u, fl):
        v = P.vert(i)
        if v is None:
            return
        try:
            r = P.mods["helpers"].neighbors(v, d % 3, u % 3, P.filters2[fl % len(P.filters2)])
        except (NotImplementedError, IndexError, AttributeError, UserFault):
            return
        P.last_results.append(r)

    @reg("find_links", 5, "query")
    def _(P, i, j, ds, u, fl):
        a, b = P.vert(i), P.vert(j)
        if a is None:
            return
        try:
            r = P.mods["helpers"].find_links(a, b, bool(ds % 2), u % 3, P.filters1[fl % len(P.filters1)])
        except (NotImplementedError, IndexError, AttributeError, UserFault):
            return
        P.last_results.append(r)

    @reg("traverse", 7, "traverse")
    def _(P, kind, i, u, d, unk, fv, fr):
        """run a traversal (list and generator form) and compare with the canonical machine of the property statement"""
        start = P.vert(i)
        if start is None:
            return
        uni = None if u < 0 else P.U[u % len(P.U)]
        names = ["bft", "dft_recursive", "dft_iterative"]
        nm = names[kind % 3]
        mod = P.mods["breadthfirst"] if nm == "bft" else P.mods["depthfirst"]
        d, unk = d % 3, unk % 3
        ffv = P.filters2[fv % 4]           # well-behaved filters only (the faulty one is for C13)
        ffr = P.rfilters[fr % len(P.rfilters)]
        kw = dict(direction_sensitive=d, unknown_handling=unk, ff_via=ffv, ff_result=ffr)
        try:
            want = reference_listing(P, nm, uni, start, d, unk, ffv)
        except RefAbort:
            return                          # outside the functional contract (abnormal scan, start outside universe ...)
        got = getattr(mod, nm)(uni, start, **kw)
        gen = list(getattr(mod, "i" + nm)(uni, start, **kw))
        want_f = [x for x in want if (ffr is None or ffr(x))]
        if not same_seq(got, want_f):
            raise PropertyViolation(f"C06/C07: {nm} lists {fmt(P, got)}, the canonical order is {fmt(P, want_f)}")
        if not same_seq(gen, got):
            raise PropertyViolation(f"C06: generator form of {nm} yields {fmt(P, gen)}, list form {fmt(P, got)}")
        P.last_results.append(got)

    @reg("search", 5, "traverse")
    def _(P, kind, i, u, a, vv):
        start = P.vert(i)
        if start is None:
            return
        uni = None if u < 0 else P.U[u % len(P.U)]
        names = ["bfs", "dfs_recursive", "dfs_iterative"]
        nm = names[kind % 3]
        mod = P.mods["breadthfirst"] if nm == "bfs" else P.mods["depthfirst"]
        attrib = ["tag", "missing", "uid"][a % 3]
        val = [0, 1, 1.0, None, "x"][vv % 5]
        try:
            order = reference_listing(P, {"bfs": "bft", "dfs_recursive": "dft_recursive", "dfs_iterative": "dft_iterative"}[nm],
                                      uni, start, 0, 2, None)
        except RefAbort:
            return
        want = None
        for x in order:
            if hasattr(x, attrib) and getattr(x, attrib) == val:
                want = x
                break
        got = getattr(mod, nm)(uni, start, attrib, val)
        if got is not want:
            raise PropertyViolation(f"C08: {nm}({attrib}=={val!r}) returned {fmt(P, [got])}, the first match of the listing is {fmt(P, [want])}")

    @reg("scenario", 1, "traverse")
    def _(P, seed):
        """a pseudo-random small multigraph (parallel / anti-parallel edges, self-loops, mixed classes, a vertex outside the
        universe) followed by every traversal and search, each compared with the canonical machine"""
        rng = random.Random(seed * 7919 + 13)
        names = sorted(P.classes)
        verts = P.V + [P.U[1]]
        for _ in range(rng.randint(1, 7)):
            a, b = rng.choice(verts), rng.choice(verts)
            P.L.append(P.classes[rng.choice(names)](a, b))
        use_uni = rng.random() < 0.6
        if use_uni:
            for v in verts:
                if rng.random() < 0.75:
                    P.U[0].add_vertex(v)
        for v in verts:
            v.tag = rng.randint(0, 1)
        tr, se = OPS["traverse"][0], OPS["search"][0]
        for kind in range(3):
            for _ in range(2):
                i = rng.randint(0, 3)
                tr(P, kind, i, 0 if use_uni else -1, rng.randint(0, 2), rng.randint(0, 2), rng.randint(0, 3), rng.randint(0, 3))
                se(P, kind, i, 0 if use_uni else -1, rng.randint(0, 2), rng.randint(0, 4))

    @reg("whitelist_snapshot", 2, "snapshot")
    def _(P, k, deep):
        """C12 / C19: the edge_whitelist given to UniverseLaws is copied (bounded stand-in: that constructor's contract is trusted)"""
        E = P.eg
        inner = {E["Vertex"]: E["DirectedEdge"]}
        rules = {E["Vertex"]: inner}
        if k % 3 == 2:
            rules, inner = {}, {}                      # an empty whitelist is a whitelist (nothing allowed), not "no whitelist"
        elif k % 3 == 1 and deep % 2:
            rules = {E["Vertex"]: inner, E["Universe"]: {}}
        L = E["UniverseLaws"](edge_whitelist=rules)
        if L.edge_whitelist is None:
            raise PropertyViolation("C19: a law set built with an edge_whitelist reads back None")
        want = {a: dict(b) for a, b in rules.items()}
        if deep % 2:
            inner[E["Universe"]] = E["UnDirectedEdge"]
            inner[E["Vertex"]] = E["UnDirectedEdge"]
        else:
            rules[E["Universe"]] = {}
            rules.pop(E["Vertex"], None) if k % 2 else None
        got = L.edge_whitelist
        if {a: dict(b) for a, b in got.items()} != want:
            raise PropertyViolation("C12/C19: mutating the dictionary passed as edge_whitelist changed the law set")
        try:
            got[E["Vertex"]] = {}
            raise PropertyViolation("C12: edge_whitelist handed out a mutable mapping")
        except TypeError:
            pass

    @reg("mutate_accessor_result", 2, "snapshot")
    def _(P, i, which):
        """C12: containers handed out by accessors are detached"""
        o = (P.V + P.U)[i % len(P.V + P.U)]
        before = observable(P)
        uu = P.U[i % len(P.U)]
        acc = [lambda: o.universes, lambda: uu.vertices, lambda: o.links, lambda: (P.L[i % len(P.L)].vertices if P.L else ())][which % 4]
        want = list(acc())
        r = acc()
        if isinstance(r, list):
            # length-preserving edits first (a snapshot memoised by length would not notice them), then size-changing ones
            r.reverse()
            if r:
                r[0] = P.V[-1]
            r.sort(key=id)
            if not same_seq(list(acc()), want):
                raise PropertyViolation("C12: a length-preserving edit of a list returned by an accessor shows in the next read")
            r.append(P.V[0])
            r.clear()
        if not same_seq(list(acc()), want) or observable(P) != before:
            raise PropertyViolation("C12: mutating a list returned by an accessor changed the graph")

    @reg("mutate_ctor_argument", 3, "snapshot")
    def _(P, i, j, which):
        """C12: collections passed to constructors are copied"""
        E = P.eg
        if which % 3 == 0:
            us = [P.U[i % len(P.U)]]
            v = E["Vertex"](universes=us)
            P.V.append(v)
            before = observable(P)
            us.append(P.U[j % len(P.U)])
            us.clear()
        elif which % 3 == 1:
            vs = [P.vert(i) or P.V[0]]
            u = E["Universe"](vertices=vs)
            P.U.append(u)
            P.W.append(u.laws)
            before = observable(P)
            vs.append(P.V[1])
            vs.clear()
        else:
            at = {"color": [1, 2]}
            v = E["Vertex"](attributes=at)
            P.V.append(v)
            before = observable(P)
            at["extra"] = 1
            del at["color"]
        if observable(P) != before:
            raise PropertyViolation("C12: mutating a collection after passing it to a constructor changed the object built from it")

    # ---- singletons (C17, C18): the real registries against a plain-dictionary reference model --------------------
    ARGSETS = [((), {}), ((1,), {}), ((-1,), {}), ((-2,), {}), ((1, 2), {}), ((), {"x": 1, "y": 2}), ((), {"y": 2, "x": 1}),
               ((), {"d": {"a": 1, "b": 2}}), ((), {"d": {"b": 2, "a": 1}}), ((1.0,), {}), ((True,), {})]

    def skey(a, k):
        import json
        return (a, json.dumps(k, sort_keys=True))

    def sing(P):
        if not hasattr(P, "sg"):
            S = P.mods["singleton"]
            S.clear_true_singleton()
            M = S.semi_singleton_metaclass()
            log = []

            class Base:
                def __init__(self, *a, **k):
                    log.append((type(self).__name__, a, dict(k)))
                    self.a, self.k = a, k

                def __len__(self):          # a falsy instance: truthiness must not matter
                    return 0
            A = M("A", (Base,), {})
            B = M("B", (Base,), {})
            SubA = M("SubA", (A,), {})
            C = S.semi_singleton_metaclass()("C", (Base,), {})
            T1 = S.TrueSingleton("T1", (Base,), {})
            T2 = S.TrueSingleton("T2", (T1,), {})
            T3 = S.TrueSingleton("T3", (Base,), {})
            P.sg = {"S": S, "semi": [A, B, SubA, C], "true": [T1, T2, T3], "log": log,
                    "model": {c: {} for c in (A, B, SubA, C)}, "tmodel": {}, "objs": []}
        return P.sg

    @reg("semi_call", 2, "singleton")
    def _(P, ci, ai):
        g = sing(P)
        cls = g["semi"][ci % 4]
        a, k = ARGSETS[ai % len(ARGSETS)]
        n0 = len(g["log"])
        got = cls(*a, **k)
        key = skey(a, k)
        m = g["model"][cls]
        if key in m:
            if got is not m[key] or len(g["log"]) != n0:
                raise PropertyViolation(f"C17: {cls.__name__}{a}{k}: a live key must return its instance without running __init__")
        else:
            if any(got is o for d in g["model"].values() for o in d.values()) or len(g["log"]) != n0 + 1:
                raise PropertyViolation(f"C17: {cls.__name__}{a}{k}: a new key must create a new instance (init ran {len(g['log']) - n0}x)")
            m[key] = got
            g["objs"].append(got)
        if type(got) is not cls:
            raise PropertyViolation(f"C17: {cls.__name__}(...) returned an instance of {type(got).__name__}")

    @reg("semi_add_mapping", 2, "singleton")
    def _(P, oi, ai):
        g = sing(P)
        if not g["objs"]:
            return
        obj = g["objs"][oi % len(g["objs"])]
        a, k = ARGSETS[ai % len(ARGSETS)]
        g["S"].add_mapping(obj, *a, **k)
        g["model"][type(obj)][skey(a, k)] = obj

    @reg("semi_drop", 2, "singleton")
    def _(P, ci, ai):
        g = sing(P)
        cls = g["semi"][ci % 4]
        a, k = ARGSETS[ai % len(ARGSETS)]
        key = skey(a, k)
        try:
            g["S"].drop_semi_singleton_mapping(cls, *a, **k)
            dropped = True
        except KeyError:
            dropped = False
        if dropped != (key in g["model"][cls]):
            raise PropertyViolation("C17: drop_semi_singleton_mapping disagrees with the live mappings")
        g["model"][cls].pop(key, None)

    @reg("semi_check", 2, "singleton")
    def _(P, ci, ai):
        g = sing(P)
        cls = g["semi"][ci % 4]
        a, k = ARGSETS[ai % len(ARGSETS)]
        n0 = len(g["log"])
        got = g["S"].check_semi_singleton_entry_exists(cls, *a, **k)
        want = g["model"][cls].get(skey(a, k))
        if got is not want or len(g["log"]) != n0:
            raise PropertyViolation("C17: check_semi_singleton_entry_exists does not report exactly the live mapping")

    @reg("semi_get_all", 1, "singleton")
    def _(P, ci):
        g = sing(P)
        cls = g["semi"][ci % 4]
        n0 = len(g["log"])
        got = list(g["S"].get_all_semi_singleton_instances(cls))
        want = list(g["model"][cls].values())
        if sorted(map(id, got)) != sorted(map(id, want)) or len(g["log"]) != n0:
            raise PropertyViolation(f"C17: get_all_semi_singleton_instances({cls.__name__}) reports {len(got)} instances, {len(want)} mappings are live")

    @reg("semi_clear", 1, "singleton")
    def _(P, ci):
        g = sing(P)
        cls = g["semi"][ci % 4]
        g["S"].clear_semi_singleton(cls)
        g["model"][cls].clear()

    @reg("true_call", 2, "singleton")
    def _(P, ti, ai):
        g = sing(P)
        cls = g["true"][ti % 3]
        a, k = ARGSETS[ai % len(ARGSETS)]
        n0 = len(g["log"])
        got = cls(*a, **k)
        tm = g["tmodel"]
        if cls in tm:
            if got is not tm[cls] or len(g["log"]) != n0:
                raise PropertyViolation(f"C18: {cls.__name__}: between two clears every construction must return the same object, __init__ once")
        else:
            if len(g["log"]) != n0 + 1 or type(got) is not cls or any(got is o for o in tm.values()):
                raise PropertyViolation(f"C18: {cls.__name__}: first construction after a clear must build one new instance of that class")
            tm[cls] = got
        if got.a != g["log"][[i for i, e in enumerate(g["log"]) if e[0] == cls.__name__][-1]][1]:
            raise PropertyViolation("C18: the instance was not initialised with the arguments of the first call of its period")

    @reg("true_clear", 1, "singleton")
    def _(P, ti):
        g = sing(P)
        if ti < 0:
            g["S"].clear_true_singleton()
            g["tmodel"].clear()
        else:
            cls = g["true"][ti % 3]
            g["S"].clear_true_singleton(cls)
            g["tmodel"].pop(cls, None)

    @reg("render_text", 3, "text")
    def _(P, u, rf, sk):
        """C16: basic_render against the text built from the public API (one line per member ...)"""
        uni = P.U[u % len(P.U)]
        names = {id(v): "n%d" % k for k, v in enumerate(P.V + P.U)}
        rfunc = [None, lambda v: names.get(id(v), "?"), lambda v: names.get(id(v), "?") + " ,"][rf % 3]
        sort = [None, lambda v: names.get(id(v), "?")][sk % 2]
        nb = P.mods["helpers"].neighbors
        members = uni.vertices
        try:
            order = sorted(members, key=sort) if sort else members
            rr = rfunc if rfunc else repr
            lines = []
            for v in order:
                ns = nb(v)
                ns = sorted(ns, key=sort) if sort else ns
                if any(w is None for w in ns):
                    return
                lines.append(str(rr(v)) + " -> " + ", ".join(str(rr(w)) for w in ns))
            want = "\n".join(lines) if members else None
        except (NotImplementedError, IndexError, AttributeError):
            return
        got = P.mods["plaintext"].basic_render(uni, rfunc=rfunc, sort=sort)
        if got != want:
            raise PropertyViolation(f"C16: basic_render returned {got!r}, expected {want!r}")

    @reg("render", 4, "render")
    def _(P, kind, u, fault_at, sortk):
        """a read-only output operation, with a user callback that raises at its `fault_at`-th invocation (0 = never):
        however it ends, every vertex, link and universe must be observably unchanged (C13)"""
        uni = P.U[u % len(P.U)]
        count = [0]

        def cb(*a):
            count[0] += 1
            if fault_at > 0 and count[0] == fault_at:
                raise FAULT_CLASSES[(sortk // 2) % len(FAULT_CLASSES)]("injected")
            return "x%d" % (count[0] % 3)
        before = observable(P)
        kind = kind % 4
        try:
            if kind == 0:
                P.mods["plaintext"].basic_render(uni, rfunc=cb if fault_at >= 0 else None, sort=(lambda v: id(v)) if sortk % 2 else None)
            elif kind == 1 and "pyvis" in P.mods:
                P.mods["pyvis"].make_pyvis_net(uni, rvfunc=cb if fault_at % 2 == 0 else None, refunc=cb if fault_at >= 0 else None)
            elif kind == 2 and "plantuml" in P.mods:
                opts = dict(P.mods["plantuml"].PLANTUML_RENDER_OPTIONS)
                P.mods["plantuml"].render_to_plantuml_src(uni, opts)
            elif kind == 3 and "nrpickler" in P.mods:
                P.mods["nrpickler"].dumps(uni)
        except UserFault:
            pass
        except (NotImplementedError, IndexError, AttributeError, ValueError, AssertionError, TypeError, KeyError, RuntimeError):
            pass                # RuntimeError: a StopIteration raised by the callback inside a generator expression (PEP 479)
        after = observable(P)
        if before != after:
            diff = [k for k in before if before[k] != after.get(k)] + [k for k in after if k not in before]
            raise PropertyViolation(f"C13: a read-only operation (kind {kind}) changed the graph: {diff[:4]}")

    @reg("set_tag", 2, "traverse")
    def _(P, i, t):
        v = P.vert(i)
        if v is not None:
            v.tag = t % 2

    # ------------------------------------------------------------------ adjacency builders / randgraph (C11, C20)
    def _adj_check(P, uni, old, cells, order, cls, what):
        """the result of an adjacency builder against the statement of C11: `cells` = the listed pairs in input order,
        `order` = the expected member order, `old` = observables before the call"""
        E = P.eg
        if type(uni) is not E["Universe"] or any(uni is u for u in P.U):
            raise PropertyViolation(f"C11: {what} did not return a new universe")
        if not same_seq(uni.vertices, order):
            raise PropertyViolation(f"C11: {what}: members {fmt(P, uni.vertices)} != expected {fmt(P, order)}")
        allo = P.V + P.U
        oldlinks = {id(o): old[id(o)][0] for o in allo}
        for o in allo:
            now = o.links
            was = oldlinks[id(o)]
            if not same_seq(now[:len(was)], was):
                raise PropertyViolation(f"C11: {what} disturbed the pre-existing links of a vertex")
            new = now[len(was):]
            # the created links incident to o, in creation order = the cells mentioning o, in input order (a self-entry once)
            exp = [(a, b) for (a, b) in cells if a is o or b is o]
            if len(new) != len(exp):
                raise PropertyViolation(f"C11: {what}: a vertex got {len(new)} new links, {len(exp)} listed pairs mention it")
            for l, (a, b) in zip(new, exp):
                if type(l) is not cls:
                    raise PropertyViolation(f"C11: {what} created a {type(l).__name__}, requested {cls.__name__}")
                if not (l.v1 is a and l.v2 is b):
                    raise PropertyViolation(f"C11: {what}: a created link is not oriented key/row -> value/column in input order")
                if len(l.universes) != 0:
                    raise PropertyViolation(f"C11: {what}: a created link was put into a universe")
            wasu = old[id(o)][1]
            nowu = o.universes
            expu = list(wasu) + ([uni] if any(o is m for m in order) else [])
            if not same_seq(nowu, expu):
                raise PropertyViolation(f"C11: {what}: universes of a vertex are {len(nowu)}, expected the old ones{' plus the new one' if len(expu) > len(wasu) else ''}")
        for l in P.L:
            if not same_seq(l.vertices, old[id(l)][2]):
                raise PropertyViolation(f"C11: {what} changed the ends of a pre-existing link")
        # reading back: every listed pair shows in neighbors() / find_links (forward; both ways for an undirected type)
        nbf, flf = P.mods["helpers"].neighbors, P.mods["helpers"].find_links
        directed = issubclass(cls, E["DirectedEdge"])
        if directed or issubclass(cls, E["UnDirectedEdge"]):
            flag = E["Vertex"].NEIGHBOR_CACHING
            for (a, b) in cells:
                for caching in (False, flag):
                    E["Vertex"].NEIGHBOR_CACHING = caching
                    try:
                        fw = nbf(a, 0)
                        bw = nbf(b, 1)
                        fl = flf(a, b)
                    except (NotImplementedError, IndexError, AttributeError):
                        continue
                    finally:
                        E["Vertex"].NEIGHBOR_CACHING = flag
                    if not any(x is b for x in fw) or not any(x is a for x in bw) or not fl:
                        raise PropertyViolation(f"C11: reading {what}'s result back, a listed pair is missing from neighbors() / find_links")
                    try:
                        sym = directed or any(x is a for x in nbf(b, 0))
                    except (NotImplementedError, IndexError, AttributeError):
                        continue            # a pre-existing link of unknown class / with a missing end at b: neighbors() documents the error
                    if not sym:
                        raise PropertyViolation(f"C11: {what} with an undirected type: the symmetric entry is missing from neighbors()")
        P.L.extend(x for o in allo for x in o.links[len(oldlinks[id(o)]):] if not any(x is y for y in P.L))
        P.U.append(uni)

    def _adj_before(P):
        return {id(o): (tuple(getattr(o, "links", ())), tuple(o.universes), tuple(o.vertices) if hasattr(o, "vertices") else ()) for o in P.V + P.U + P.L}

    @reg("adj_dict", 2, "adj")
    def _(P, seed, lt):
        rng = random.Random(seed)
        verts = list(P.V)
        rng.shuffle(verts)
        keys = verts[: rng.randint(0, len(verts))]
        adj = {}
        cells, order = [], []
        for k in keys:
            row = [rng.choice(P.V) for _ in range(rng.choice([0, 0, 1, 2, 3]))]
            adj[k] = row if rng.random() < 0.5 else tuple(row)
            if not any(k is m for m in order):
                order.append(k)
            for w in row:
                cells.append((k, w))
                if not any(w is m for m in order):
                    order.append(w)
        cls = list(P.classes.values())[lt % len(P.classes)]
        old = _adj_before(P)
        uni = P.mods["adjlist"].load_adj_dict(adj, linktype=cls) if lt >= 0 else P.mods["adjlist"].load_adj_dict(adj)
        if lt < 0:
            cls = P.eg["UnDirectedEdge"]
        _adj_check(P, uni, old, cells, order, cls, "load_adj_dict")

    @reg("adj_matrix", 3, "adj")
    def _(P, seed, lt, bad):
        rng = random.Random(seed)
        verts = list(P.V)
        rng.shuffle(verts)
        n = rng.randint(0, len(verts))
        verts = verts[:n]
        truthy = [1, True, "x", [0], 2.5, (None,)]
        falsy = [0, False, "", [], None, 0.0]
        matrix = [[(rng.choice(truthy) if rng.random() < 0.45 else rng.choice(falsy)) for _j in range(n)] for _i in range(n)]
        cells = [(verts[i], verts[j]) for i in range(n) for j in range(n) if matrix[i][j]]
        cls = list(P.classes.values())[lt % len(P.classes)]
        old = _adj_before(P)
        obs = observable(P)
        bad = bad % 4
        if bad == 1 and n:
            matrix[rng.randrange(n)].append(1)                # not a square
        elif bad == 2 and n:
            matrix[-1] = matrix[-1][:-1]                       # last row too short (found only after scanning the others)
        elif bad == 3:
            verts = verts + [P.V[0]]                           # side array of the wrong length
        else:
            bad = 0
        kw = {"linktype": cls} if lt >= 0 else {}
        if lt < 0:
            cls = P.eg["DirectedEdge"]
        try:
            uni = P.mods["adjmatrix"].load_adj_matrix(matrix, verts, **kw)
        except ValueError:
            if not bad:
                raise PropertyViolation("C11: load_adj_matrix rejected a square matrix with a matching side array")
            if observable(P) != obs:
                raise PropertyViolation("C11: load_adj_matrix raised ValueError after touching a vertex or link")
            return
        if bad:
            raise PropertyViolation("C11: load_adj_matrix accepted a malformed matrix / side array")
        _adj_check(P, uni, old, cells, verts, cls, "load_adj_matrix")

    @reg("randgraph", 4, "rand")
    def _(P, seed, count, lt, mode):
        """C20: randgraph(count, edge, connectivity, ensurelink) under a seeded generator"""
        import random as _r
        count = 1 + count % 7
        cls = [P.eg["DirectedEdge"], P.eg["UnDirectedEdge"], P.classes["SubDirected"], P.classes["OtherLink"]][lt % 4]
        conn = [None, 0.0, 1.0, 0.5, 0.2][mode % 5]
        ens = bool((mode // 5) % 2)
        rg = P.mods["randgraph"].randgraph

        def run():
            _r.seed(seed)
            kw = {"count": count, "edge": cls, "ensurelink": ens}
            if conn is not None:
                kw["connectivity"] = conn
            return rg(**kw)
        try:
            uni = run()
        except Exception as exc:
            raise PropertyViolation(f"C20: randgraph(count={count}, connectivity={conn}, ensurelink={ens}) raised {type(exc).__name__}: {exc}")
        vs = uni.vertices
        if len(vs) != count or sorted(v.i for v in vs) != list(range(count)) or len({id(v) for v in vs}) != count:
            raise PropertyViolation(f"C20: randgraph(count={count}) returned {len(vs)} vertices / wrong i attributes")
        for v in vs:
            for l in v.links:
                if type(l) is not cls:
                    raise PropertyViolation("C20: randgraph created a link of another type")
                if not all(any(e is m for m in vs) for e in l.vertices):
                    raise PropertyViolation("C20: a link of the random graph has an end outside the universe")
            if ens and not any(l.v1 is v for l in v.links):
                raise PropertyViolation("C20: ensurelink is set but a vertex is the first end of no link")
        again = run()
        shape = lambda u: [(v.i, [(l.v1.i, l.v2.i) for l in v.links]) for v in u.vertices]
        if shape(again) != shape(uni):
            raise PropertyViolation("C20: the same seed gave a different graph")

    @reg("pyvis_net", 2, "pyvis")
    def _(P, u, rf):
        """C15: make_pyvis_net against the statement, read back from the real pyvis network (this is also what validates the
        assumed contract of pyvis.network.Network used by the proof)"""
        uni = P.U[u % len(P.U)]
        names = {id(v): "n%d" % k for k, v in enumerate(P.V + P.U)}
        rv = [None, lambda v: names.get(id(v), "?")][rf % 2]
        V = uni.vertices
        DE = P.eg["DirectedEdge"]
        for v in V:
            for l in getattr(v, "links", ()):
                if len(l.vertices) != 2 or any(e is None for e in l.vertices):
                    return                      # outside the domain of the statement (two-ended links between vertices)
        net = P.mods["pyvis"].make_pyvis_net(uni, rvfunc=rv)
        nodes = net.nodes
        if [nd["id"] for nd in nodes] != list(range(len(V))):
            raise PropertyViolation(f"C15: node ids {[nd['id'] for nd in nodes]} for {len(V)} members")
        if rv is not None and [nd["label"] for nd in nodes] != [rv(v) for v in V]:
            raise PropertyViolation("C15: node labels are not rvfunc of the members in universe order")
        pos = {id(v): k for k, v in enumerate(V)}
        internal = []
        for v in V:
            for l in v.links:
                if l.v1 is v and id(l.v2) in pos and not any(l is m for m in internal):
                    internal.append(l)
        edges = net.edges
        for e in edges:
            a, b = e["from"], e["to"]
            if not (0 <= a < len(V) and 0 <= b < len(V)):
                raise PropertyViolation("C15: an edge names a node that does not exist")
            arrowed = e.get("arrows") == "to"
            if arrowed:
                want = sum(1 for l in internal if isinstance(l, DE) and l.v1 is V[a] and l.v2 is V[b])
                have = sum(1 for f in edges if f.get("arrows") == "to" and f["from"] == a and f["to"] == b)
                if want != have:
                    raise PropertyViolation(f"C15: {have} arrowed edges {a}->{b} for {want} directed links from that vertex to that vertex")
            elif not any((not isinstance(l, DE)) and ((l.v1 is V[a] and l.v2 is V[b]) or (l.v1 is V[b] and l.v2 is V[a])) for l in internal):
                raise PropertyViolation(f"C15: an arrow-less edge {a}--{b} without a non-directed link between the two vertices")
        for l in internal:
            a, b = pos[id(l.v1)], pos[id(l.v2)]
            if not any((e["from"], e["to"]) in ((a, b), (b, a)) for e in edges):
                raise PropertyViolation(f"C15: a link between members {a} and {b} is not drawn")
            if isinstance(l, DE) and not any(e["from"] == a and e["to"] == b and e.get("arrows") == "to" for e in edges):
                raise PropertyViolation(f"C15: the directed link {a}->{b} has no arrowed edge")

    @reg("plantuml_src", 2, "puml")
    def _(P, u, kind):
        """C14: render_to_plantuml_src against the statement, by parsing the text back: one declaration per member (type and
        title from the options of the nearest configured class, class name), one relation line per internal link in v1 -> v2
        orientation with the arrow ends of the nearest configured class, no line without a link, None for an empty universe"""
        import re as _re
        if "plantuml" not in P.mods:
            return
        E = P.eg
        uni = P.U[u % len(P.U)]
        V = uni.vertices
        incident = []
        for v in V:
            for l in getattr(v, "links", ()):
                if len(l.vertices) != 2 or any(e is None for e in l.vertices) or not hasattr(type(l), "v1"):
                    return                      # outside the domain of the statement (two-ended links between vertices)
                if not any(l is m for m in incident):
                    incident.append(l)
        blank = (kind // 4) % 2 == 1          # titles that contain a blank (the title is whatever the format produces, not one token)
        kind = kind % 4
        vopt = {"type": "object", "show_attrs": ["pname", "tag"], "title_format": "$id"}
        options = {E["Vertex"]: vopt, E["DirectedEdge"]: {"v1side": "", "v2side": ">"}, E["UnDirectedEdge"]: {"v1side": "", "v2side": ""},
                   E["TwoEndedLink"]: {"v1side": "x", "v2side": "o"}}
        if kind in (1, 3):
            vopt["title_format"] = "v {pname}" if blank else "{pname}"
            options["skinparams"] = {"dpi": "300"}
        if kind in (2, 3):
            # class-specific entries: the nearest configured class in the MRO decides
            options[P.vclasses["MarkedVertex"]] = {"type": "class", "show_attrs": ["pname"], "title_format": "m {pname}" if blank else "m_{pname}"}
            options[P.classes["SubDirected"]] = {"v1side": "<", "v2side": "*"}
            options[E["Universe"]] = {"type": "package", "show_attrs": [".+name"], "title_format": "$id",
                                      "stereotype_skinparams": {"BackgroundColor": "White"}}

        def nearest(cls):
            for c in cls.__mro__:
                if c in options:
                    return options[c]
            raise LookupError(cls)

        def title(v):
            o = nearest(type(v))
            if o["title_format"] == "$id":
                return hex(id(v))
            return o["title_format"].format(pname=v.pname, tag=getattr(v, "tag", None))
        try:
            want_decl = sorted((nearest(type(v))["type"], title(v), type(v).__name__) for v in V)
            rel = lambda l: (title(l.v1), nearest(type(l))["v1side"], nearest(type(l))["v2side"], title(l.v2))
            inc_rel = sorted(rel(l) for l in incident)
            int_rel = sorted(rel(l) for l in incident if any(l.v1 is m for m in V) and any(l.v2 is m for m in V))
        except (LookupError, AttributeError, KeyError):
            return
        import copy
        # the same table object is used by every even-kind call of a history (entries are added / removed between renders, as a
        # user refining the configuration would): nothing the renderer leaves behind in it may change what is configured
        live = P.__dict__.setdefault("puml_live", {})
        for k_ in list(P.__dict__.get("puml_mine", ())):
            if k_ not in options:
                live.pop(k_, None)
        live.update(options)
        P.puml_mine = set(options)
        got = P.mods["plantuml"].render_to_plantuml_src(uni, copy.deepcopy(options) if kind % 2 else live)
        if not V:
            if got is not None:
                raise PropertyViolation("C14: an empty universe was rendered to text")
            return
        if not isinstance(got, str) or not got.startswith("@startuml\n") or not got.endswith("@enduml\n"):
            raise PropertyViolation("C14: the text is not enclosed in @startuml / @enduml")
        decls, rels = [], []
        for line in got.split("\n"):
            m = _re.match(r"^(\w+) (.+) <<(\w+)>> \{$", line)
            if m:
                decls.append(m.groups())
                continue
            m = _re.match(r"^(\S.*?) ([^\s-]*)--([^\s-]*) (\S.*)$", line)
            if m:
                rels.append(m.groups())
        if sorted(decls) != want_decl:
            raise PropertyViolation(f"C14: declarations {sorted(decls)} for members {want_decl}")
        rels.sort()
        from collections import Counter
        cg, ci, ca = Counter(rels), Counter(int_rel), Counter(inc_rel)
        for k_ in set(cg) | set(ci):
            if cg[k_] < ci[k_]:
                raise PropertyViolation(f"C14: {ci[k_]} internal link(s) {k_} but {cg[k_]} relation line(s)")
            if cg[k_] > ca[k_]:
                raise PropertyViolation(f"C14: {cg[k_]} relation line(s) {k_} for {ca[k_]} link(s) between those vertices")

    def _iso(E, a0, b0, skip=("_Vertex__qa_nb_cache",)):
        """structural isomorphism of the object graphs reachable from a0 / b0: same classes (qualified names), same uids and
        attributes, same ordered links / ends / members / universes, shared objects (edgegraph objects, lists, dicts) still shared,
        nothing of the copy is an object of the original.  Returns None or a description of the first difference."""
        base = (E["BaseObject"], E["UniverseLaws"])
        fwd, bwd = {}, {}
        work = [(a0, b0, "root")]
        while work:
            a, b, where = work.pop()
            if isinstance(a, base) or isinstance(a, (list, dict)):
                if id(a) in fwd:
                    if fwd[id(a)] is not b:
                        return f"{where}: an object shared in the original is not shared in the copy"
                    continue
                if id(b) in bwd:
                    return f"{where}: two objects of the original became one in the copy"
                fwd[id(a)], bwd[id(b)] = b, a
            if isinstance(a, base):
                if a is b:
                    return f"{where}: the copy refers to an object of the original"
                if type(a).__qualname__ != type(b).__qualname__ or type(a).__module__ != type(b).__module__:
                    return f"{where}: class {type(a).__qualname__} became {type(b).__qualname__}"
                da = {k: v for k, v in a.__dict__.items() if k not in skip}
                db = {k: v for k, v in b.__dict__.items() if k not in skip}
                if sorted(da) != sorted(db):
                    return f"{where}: attributes {sorted(da)} became {sorted(db)}"
                for k in da:
                    work.append((da[k], db[k], f"{where}.{k}"))
            elif isinstance(a, (list, tuple)):
                if type(a) is not type(b) or len(a) != len(b):
                    return f"{where}: {type(a).__name__} of {len(a)} became {type(b).__name__} of {len(b) if hasattr(b, '__len__') else '?'}"
                for i, (x, y) in enumerate(zip(a, b)):
                    work.append((x, y, f"{where}[{i}]"))
            elif isinstance(a, dict):
                if type(b) is not dict or len(a) != len(b):
                    return f"{where}: dict of {len(a)} entries became {type(b).__name__}"
                for (ka, va), (kb, vb) in zip(a.items(), b.items()):
                    work.append((ka, kb, f"{where} key"))
                    work.append((va, vb, f"{where}[{ka!r}]"))
            elif isinstance(a, (int, str, bool, float, bytes, type(None))):
                if type(a) is not type(b) or a != b:
                    return f"{where}: {a!r} became {b!r}"
            elif isinstance(a, type):
                if not isinstance(b, type) or a.__qualname__ != b.__qualname__:
                    return f"{where}: class object {a!r} became {b!r}"
        return None

    @reg("pickle_roundtrip", 3, "pickle")
    def _(P, r, proto, mode):
        """C10 (bounded stand-in): nrpickler.dumps -> pickle.loads / dill.loads gives an isomorphic, detached copy (every protocol);
        the copy is usable with caching on after the class-level statistics were forgotten (= loaded in a fresh interpreter)"""
        import pickle as _pk
        if "nrpickler" not in P.mods:
            return
        mon_ = getattr(P, "mon", None)
        if mon_ is not None and mon_.enabled:
            mon_.enabled = False            # the copy is outside the monitored pool: this operation is judged by its own oracle
            mon_.stats["checked"] += 1      # one dumps() call checked against the statement by this operation
            try:
                return OPS["pickle_roundtrip"][0](P, r, proto, mode)
            finally:
                mon_.enabled = True
        E = P.eg
        allv = P.V + P.U
        root = allv[r % len(allv)]
        proto = proto % 6
        mode = mode % 6
        nb = P.mods["helpers"].neighbors
        # shared mutable attribute values, empty at dump time (sharing must survive): two attributes of one object, and
        # attributes of different objects
        root.shared_a = root.shared_b = []
        root.reg_a = root.reg_b = {}
        if mode >= 4:
            box, reg_ = [], {}
            P.V[0].box = P.V[1].box = box
            P.V[0].registry = P.U[0].registry = reg_
        warm = mode % 2 == 1
        if warm:
            E["Vertex"].NEIGHBOR_CACHING = True
            for v in allv:
                try:
                    nb(v)
                except (NotImplementedError, IndexError, AttributeError):
                    pass
        try:
            data = P.mods["nrpickler"].dumps(root, protocol=proto)
        finally:
            if warm:
                E["Vertex"].NEIGHBOR_CACHING = False
        if mode in (2, 3):
            import dill as _dill
            copy_ = _dill.loads(data)
        else:
            copy_ = _pk.loads(data)
        why = _iso(E, root, copy_)
        if why:
            raise PropertyViolation(f"C10: protocol {proto}: {why}")
        # the copy in a fresh interpreter: the class-level statistics know none of its uids
        flag = E["Vertex"].NEIGHBOR_CACHING
        saved = dict(E["Vertex"]._CACHE_STATS)
        E["Vertex"]._CACHE_STATS.clear()
        try:
            E["Vertex"].NEIGHBOR_CACHING = True
            cverts = [x for x in getattr(copy_, "vertices", [])] if isinstance(copy_, E["Universe"]) else []
            cverts.append(copy_)
            for v in cverts:
                for l in list(getattr(v, "links", ())):
                    if len(l.vertices) != 2 or any(e is None for e in l.vertices) or not isinstance(l, (E["DirectedEdge"], E["UnDirectedEdge"])):
                        return
            for v in cverts:
                before = nb(v)
                E["DirectedEdge"](v, cverts[0])              # a mutation of the copy must invalidate what travelled in its cache
                cached = nb(v)
                E["Vertex"].NEIGHBOR_CACHING = False
                fresh = nb(v)
                E["Vertex"].NEIGHBOR_CACHING = True
                if not same_seq(cached, fresh):
                    raise PropertyViolation("C10: on the loaded copy (statistics forgotten, caching on) neighbors() is stale after a mutation")
                if len(fresh) != len(before) + 1:
                    raise PropertyViolation("C10: a new edge on the loaded copy does not show in neighbors()")
        finally:
            E["Vertex"].NEIGHBOR_CACHING = flag
            E["Vertex"]._CACHE_STATS.update(saved)

    @reg("pickle_deep", 1, "pickle")
    def _(P, n):
        """C10 (bounded stand-in): a chain far deeper than the recursion limit pickles without RecursionError"""
        if "nrpickler" not in P.mods:
            return
        mon_ = getattr(P, "mon", None)
        if mon_ is not None and mon_.enabled:
            mon_.enabled = False
            mon_.stats["checked"] += 1
            try:
                return OPS["pickle_deep"][0](P, n)
            finally:
                mon_.enabled = True
        E = P.eg
        n = 700 + 150 * (n % 3)
        vs = [E["Vertex"]() for _ in range(n)]
        for a, b in zip(vs, vs[1:]):
            E["DirectedEdge"](a, b)
        f, depth = sys._getframe(), 0
        while f is not None:
            depth, f = depth + 1, f.f_back
        old = sys.getrecursionlimit()
        sys.setrecursionlimit(depth + 80)
        try:
            data = P.mods["nrpickler"].dumps(vs[0])
        except RecursionError:
            raise PropertyViolation(f"C10: RecursionError while pickling a chain of {n} vertices with {80} frames of head room")
        finally:
            sys.setrecursionlimit(old)
        import pickle as _pk
        sys.setrecursionlimit(max(old, 50 * n))
        try:
            back = _pk.loads(data)
        finally:
            sys.setrecursionlimit(old)
        k, v = 1, back
        while True:
            nxt = [l.v2 for l in v.links if l.v1 is v]
            if not nxt:
                break
            v, k = nxt[0], k + 1
        if k != n:
            raise PropertyViolation(f"C10: a chain of {n} vertices came back with {k}")

    @reg("mutate_last_result", 1, "query")
    def _(P, k):
        # a caller may do anything with a container it was handed (C12)
        if not P.last_results:
            return
        r = P.last_results[-1]
        if isinstance(r, list):
            if k % 2 and r:
                r.pop()
            else:
                r.append(P.V[0])
        elif isinstance(r, set):
            r.clear()
    return T


def observable(P):
    """the public observables of every object of the pool: ordered links / ends / members / universes, laws, attribute dict"""
    out = {}
    allo = P.V + P.U + P.L
    idx = {id(o): k for k, o in enumerate(allo)}

    def nm(o):
        return idx.get(id(o), ("ext", id(o))) if o is not None else None
    for k, o in enumerate(allo):
        d = o.__dict__
        out[(k, "links")] = tuple(nm(x) for x in d.get("_links", ()))
        out[(k, "ends/members")] = tuple(nm(x) for x in d.get("_vertices", ()))
        out[(k, "universes")] = tuple(nm(x) for x in d.get("_universes", ()))
        out[(k, "uid")] = d.get("_uid")
        out[(k, "attrs")] = tuple(sorted((a, repr(v)) for a, v in d.items() if not a.startswith("_") or a.startswith("__make")))
    return out


class RefAbort(Exception):
    pass


def same_seq(a, b):
    return len(a) == len(b) and all(x is y for x, y in zip(a, b))


def fmt(P, seq):
    allv = P.V + P.U
    out = []
    for x in seq:
        idx = [k for k, y in enumerate(allv) if y is x]
        out.append(f"v{idx[0]}" if idx else repr(x))
    return "[" + ", ".join(out) + "]"


def reference_listing(P, kind, uni, start, d, unk, ffv):
    """the canonical machines of the property statement (C07), on top of an *uncached* neighbors()"""
    Vx = P.eg["Vertex"]
    nbf = P.mods["helpers"].neighbors
    members = None if uni is None else uni.vertices
    if members is not None and (len(members) == 0 or not any(x is start for x in members)):
        raise RefAbort()

    def inU(w):
        return members is None or any(x is w for x in members)

    def N(x):
        flag = Vx.NEIGHBOR_CACHING
        Vx.NEIGHBOR_CACHING = False
        try:
            r = nbf(x, d, unk, ffv)
        except Exception:
            raise RefAbort()
        finally:
            Vx.NEIGHBOR_CACHING = flag
        if any(w is None for w in r):
            raise RefAbort()
        return r
    if kind == "bft":
        A = [start]
        k = 0
        while k < len(A):
            for w in N(A[k]):
                if inU(w) and not any(w is y for y in A):
                    A.append(w)
            k += 1
        return A
    if kind == "dft_iterative":
        stack, disc = [start], []
        while stack:
            v = stack.pop()
            if any(v is y for y in disc) or not inU(v):
                continue
            disc.append(v)
            stack.extend(N(v))
        return disc
    out = []

    def rec(x):
        out.append(x)
        for w in N(x):
            if inU(w) and not any(w is y for y in out):
                rec(w)
    rec(start)
    return out


class UserFault(Exception):
    """raised by the injected faulty callbacks"""
    _pyvc_user = True


class UserStop(UserFault, StopIteration):
    pass


class UserAttributeError(UserFault, AttributeError):
    pass


class UserAssertionError(UserFault, AssertionError):
    pass


class UserKeyError(UserFault, KeyError):
    pass


class UserIndexError(UserFault, IndexError):
    pass


FAULT_CLASSES = [UserFault, UserStop, UserAttributeError, UserAssertionError, UserKeyError, UserIndexError]


OPS = op_table()


# ------------------------------------------------------------------------------------------------- property oracles (public API only)

def oracle_C01(P):
    for v in P.V + P.U:
        ls = v.links
        if len(set(map(id, ls))) != len(ls):
            raise PropertyViolation(f"C01: a vertex lists the same link twice: {ls}")
        for l in ls:
            if not any(x is v for x in l.vertices):
                raise PropertyViolation("C01: link in v.links but v not in link.vertices")
    for l in P.L:
        for x in l.vertices:
            if x is not None and not any(y is l for y in x.links):
                raise PropertyViolation("C01: v in link.vertices but link not in v.links")


def oracle_C02(P):
    for u in P.U:
        vs = u.vertices
        if len(set(map(id, vs))) != len(vs):
            raise PropertyViolation("C02: duplicate member")
        for o in vs:
            if not any(x is u for x in o.universes):
                raise PropertyViolation("C02: member of a universe that it does not list")
    for o in P.V + P.U:
        us = o.universes
        if len(set(map(id, us))) != len(us):
            raise PropertyViolation("C02: duplicate universe")
        for u in us:
            if not any(x is o for x in u.vertices):
                raise PropertyViolation("C02: lists a universe it is not a member of")


def oracle_C19(P):
    for u in P.U:
        for w in P.W:
            if (u.laws is w) != (w.applies_to is u):
                raise PropertyViolation("C19: u.laws is L  !=  L.applies_to is u")


def oracle_C05(P):
    """cached answers equal recomputed ones: query every vertex with caching as it is, then with caching off"""
    Vx = P.eg["Vertex"]
    nb = P.mods["helpers"].neighbors
    flag = Vx.NEIGHBOR_CACHING
    for v in P.V + P.U:
        for d in (0, 1, 2):
            for f in P.filters2[:4]:
                try:
                    got = nb(v, d, 1, f)
                except (IndexError, AttributeError):
                    got = "raises"
                Vx.NEIGHBOR_CACHING = False
                try:
                    want = nb(v, d, 1, f)
                except (IndexError, AttributeError):
                    want = "raises"
                finally:
                    Vx.NEIGHBOR_CACHING = flag
                if got != want and not (got != "raises" and want != "raises" and len(got) == len(want) and all(x is y for x, y in zip(got, want))):
                    raise PropertyViolation(f"C05: cached neighbors({d}) differ from the recomputed ones")
    # short-lived filter functions: each is dropped right after its query, so the interpreter re-uses their addresses; an
    # answer memoised for one of them must never be served to another
    V0 = P.V[0]
    for v in P.V:
        for t in range(6):
            f = _temp_filter(t * 7 % 3 == 0, V0)
            try:
                got = nb(v, 0, 1, f)
                Vx.NEIGHBOR_CACHING = False
                want = nb(v, 0, 1, f)
            except (IndexError, AttributeError):
                got = want = None
            finally:
                Vx.NEIGHBOR_CACHING = flag
            del f
            if got is not None and not (len(got) == len(want) and all(x is y for x, y in zip(got, want))):
                raise PropertyViolation("C05: neighbors() with a short-lived filter function differs from the recomputed answer")


def oracle_C12(P):
    """a list handed out by neighbors() belongs to the caller: editing it (here: right after the call that produced it, which
    with caching on may be the very call that filled the memo) must not show in the next answer"""
    Vx = P.eg["Vertex"]
    nb = P.mods["helpers"].neighbors
    flag = Vx.NEIGHBOR_CACHING
    for v in P.V + P.U:
        for d in (0, 1, 2):
            for f in P.filters2[:2]:
                try:
                    got = nb(v, d, 1, f)
                    keep = list(got)
                    got.append(v)
                    if len(got) > 1:
                        del got[0]
                    again = nb(v, d, 1, f)
                except (IndexError, AttributeError):
                    continue
                if not (len(again) == len(keep) and all(x is y for x, y in zip(again, keep))):
                    raise PropertyViolation(f"C12: editing the list returned by neighbors(v, {d}) changed the next answer")
                again.clear()
        # invalidate what this oracle memoised so that later operations still meet cold caches now and then
    if flag:
        for v in P.V + P.U:
            try:
                v._qa_neighbors_invalidate()
            except Exception:
                pass


def _temp_filter(flag, v0):
    return lambda e, w: flag or w is v0


ORACLES = {"C01": oracle_C01, "C02": oracle_C02, "C19": oracle_C19}


def oracles_for(pid):
    if pid == "C05":
        return [oracle_C05]
    if pid == "C12":
        # a caller's edit of a container it was handed must not show in later answers: with caching on, later answers are the
        # memoised ones, so they are compared with recomputed ones (oracle of C05) after every step
        return [ORACLES[p] for p in ORACLES] + [oracle_C12, oracle_C05]
    if pid in ("C04", "C09"):
        # the decision table holds with caching on as well: cached answers equal recomputed ones
        return [ORACLES[p] for p in ("C01",)] + [oracle_C05]
    return [ORACLES[p] for p in ORACLES if p == pid or pid in ("C03", "C05", "C12")]
GROUPS = {
    "C01": ("assoc", "explicit"), "C02": ("member",), "C03": ("assoc", "explicit", "member"), "C19": ("laws", "snapshot"),
    "C04": ("assoc", "explicit", "cache", "query"), "C09": ("assoc", "explicit", "cache", "query"),
    "C05": ("assoc", "explicit", "cache", "query"), "C12": ("assoc", "member", "laws", "cache", "query", "snapshot"),
    "C13": ("assoc", "explicit", "member", "render", "query"),
    "C16": ("assoc", "explicit", "member", "text"), "C17": ("singleton",), "C18": ("singleton",),
    "C06": ("assoc", "explicit", "member", "traverse"), "C07": ("assoc", "explicit", "member", "traverse"),
    "C08": ("assoc", "explicit", "member", "traverse"),
    "C11": ("assoc", "explicit", "member", "adj"), "C20": ("rand",), "C15": ("assoc", "explicit", "member", "pyvis"),
    "C14": ("assoc", "explicit", "member", "puml"),
    "C10": ("assoc", "explicit", "member", "cache", "pickle"),
}


def fresh_world(repo_root, only=None):
    mon = Monitor(repo_root, only=only).install()
    import importlib
    mods = {}
    for m in ("explicit", "adjlist", "adjmatrix", "randgraph"):
        try:
            mods[m] = importlib.import_module("edgegraph.builder." + m)
        except Exception:
            pass
    vsp = "/venv/lib/python3.12/site-packages"
    if os.path.isdir(vsp) and vsp not in sys.path:
        sys.path.append(vsp)          # pure-python third-party packages of the repository's own environment (pyvis, dill)
    for m in ("plaintext", "pyvis", "plantuml", "nrpickler"):
        try:
            mods[m] = importlib.import_module("edgegraph.output." + m)
        except Exception:
            pass
    try:
        mods["singleton"] = importlib.import_module("edgegraph.structure.singleton")
    except Exception:
        pass
    for m in ("breadthfirst", "depthfirst"):
        try:
            mods[m] = importlib.import_module("edgegraph.traversal." + m)
        except Exception:
            pass
    try:
        mods["helpers"] = importlib.import_module("edgegraph.traversal.helpers")
    except Exception:
        pass
    return mon, mods


OPCOUNT = {}


def run_history(hist, mon, mods, oracles=()):
    """replay one history from scratch; returns None or (step index, exception)"""
    mon.eg["Vertex"].NEIGHBOR_CACHING = False
    mon.eg["Vertex"]._CACHE_STATS = {}
    mon.enabled = False
    P = Pool(mon.eg, mods)
    P.mon = mon
    mon.enabled = True
    mon.roots = []
    for k, (name, *args) in enumerate(hist):
        fn = OPS[name][0]
        OPCOUNT[name] = OPCOUNT.get(name, 0) + 1
        mon.roots = P.roots()
        try:
            fn(P, *args)
        except (ContractViolation, PropertyViolation) as exc:
            return (k, exc)
        except Exception as exc:     # an undocumented exception of a well-typed call
            return (k, exc)
        mon.enabled = False
        try:
            for orc in oracles:
                orc(P)
        except PropertyViolation as exc:
            mon.enabled = True
            return (k, exc)
        mon.enabled = True
    return None


def op_reach(mon, mods, names):
    """which functions under contract does each operation reach (measured on a small prepared pool)"""
    reach = {}
    prep = [("new_edge", 0, 0, 1), ("new_edge", 3, 1, 1), ("u_add_vertex", 0, 0)]
    for n in names:
        ar = OPS[n][1]
        seen = set()
        for args in ((0,) * ar, (1,) * ar, (0, 1, 0, 1)[:ar]):
            mon.trace = set()
            try:
                run_history(prep + [(n,) + tuple(args)], mon, mods)
            finally:
                seen.update(mon.trace)
                mon.trace = None
        reach[n] = seen
    return reach


def random_history(rng, groups, length, weights=None, lo=-1, hi=3):
    names = [n for n, (_f, _a, g) in OPS.items() if g in groups]
    w = [weights.get(n, 1.0) if weights else 1.0 for n in names]
    hist = []
    used = []
    for k in range(length):
        n = rng.choices(names, weights=w)[0]
        ar = OPS[n][1]
        args = []
        for _ in range(ar):
            # heavy aliasing: reuse a number that already occurred in this history (same vertex / link / option) most of the time
            if used and rng.random() < 0.6:
                a = rng.choice(used)
            else:
                a = rng.randint(lo, hi)
            args.append(a)
            used.append(a)
        if n in WIDE_LAST and rng.random() < 0.5:
            args[-1] = rng.randint(4, 12)               # the filter argument: reach every entry of the filter tables (incl. the raising ones)
        if n in SEEDED_OPS:
            args[0] = rng.randrange(10 ** 6)          # the first argument seeds the generated input (dict / matrix / RNG state)
            args[1:] = [rng.randint(-1, 12) for _ in args[1:]]
        hist.append((n,) + tuple(args))
    return hist


SEEDED_OPS = ("adj_dict", "adj_matrix", "randgraph")
WIDE_LAST = ("query_neighbors", "find_links")


def systematic_histories(groups, reach, focus, cap=4000):
    """small-scope exhaustive part: every 2-step history `constructor ; op reaching the focus functions` (and the
    3-step ones with a second constructor in between) with arguments from a small domain"""
    import itertools
    names = [n for n, (_f, _a, g) in OPS.items() if g in groups]
    ctors = [n for n in names if n in ("new_edge", "link_from_to", "new_link_multi", "new_vertex_unis", "new_universe",
                                       "u_add_vertex", "set_laws", "new_universe_laws")]
    tgt = [n for n in names if (reach.get(n, set()) & set(focus or ()))] or names
    dom_small = (0, 1)
    dom = (-1, 0, 1, 2)

    def argsets(n, d):
        ar = OPS[n][1]
        return itertools.product(d, repeat=ar)
    out = []
    for c in ctors:
        for ca in argsets(c, dom_small if OPS[c][1] > 2 else dom):
            for t in tgt:
                dd = dom if OPS[t][1] <= 3 else (0, 1, 2)
                for ta in argsets(t, dd):
                    out.append([(c,) + ca, (t,) + ta])
                    if len(out) >= cap * 6:
                        return out
    return out


def shrink(hist, fails):
    """greedy removal of steps while the failure persists"""
    cur = list(hist)
    i = 0
    while i < len(cur):
        cand = cur[:i] + cur[i + 1:]
        if cand and fails(cand):
            cur = cand
        else:
            i += 1
    return cur


def explore(pid, budget_s=30.0, seed=0, repo_root="/repo", only=None, max_len=6, stop_on_first=True, focus=None,
            worker=0, nworkers=1):
    """random bounded exploration; returns dict(histories=..., calls_checked=..., failure=None|{...})"""
    t0 = time.time()
    mon, mods = fresh_world(repo_root, only)
    rng = random.Random(seed)
    groups = GROUPS.get(pid, ("assoc", "explicit", "member", "laws"))
    oracles = oracles_for(pid)
    n = 0
    distinct = set()
    failure = None
    weights = None
    if focus:
        names = [nm for nm, (_f, _a, g) in OPS.items() if g in groups]
        reach = op_reach(mon, mods, names)
        weights = {nm: (6.0 if reach[nm] & set(focus) else 1.0) for nm in names}
        for nm in names:          # constructors of links are needed to get anywhere
            if nm.startswith("new_edge") or nm == "link_from_to":
                weights[nm] = max(weights[nm], 4.0)
    if "adj" in groups or "rand" in groups:
        weights = dict(weights or {})
        for nm, (_f, _a, g) in OPS.items():
            if g in groups:
                weights.setdefault(nm, 1.0)
        weights.update({"adj_dict": 8.0, "adj_matrix": 8.0, "randgraph": 8.0})
    if "pickle" in groups:
        weights = dict(weights or {})
        for nm, (_f, _a, g) in OPS.items():
            if g in groups:
                weights.setdefault(nm, 1.0)
        weights.update({"pickle_roundtrip": 7.0, "pickle_deep": 0.6, "new_edge": 4.0})
    if "traverse" in groups:
        # graph shape matters here: longer histories made mostly of edge creations, then traversals / searches
        max_len = max(max_len, 10)
        weights = dict(weights or {})
        for nm, (_f, _a, g) in OPS.items():
            if g in groups:
                weights.setdefault(nm, 1.0)
        weights.update({"new_edge": 9.0, "link_from_to": 2.0, "traverse": 5.0, "search": 5.0, "u_add_vertex": 3.0, "set_tag": 1.5, "scenario": 0.0})
    hist = []
    sysq = []
    if focus:
        allsys = systematic_histories(groups, reach, focus)
        random.Random(1234).shuffle(allsys)
        sysq = allsys[worker::max(1, nworkers)][:1500]
    if "traverse" in groups:
        sysq = [[("scenario", sd)] for sd in range(seed * 100000 + worker, seed * 100000 + 40000, max(1, nworkers))][::-1]
    while time.time() - t0 < budget_s:
        if sysq and n % 2 == 0:
            hist = sysq.pop()
        else:
            hist = random_history(rng, groups, rng.randint(1, max_len), weights, hi=(12 if "singleton" in groups else 3))
        n += 1
        distinct.add(tuple(hist))
        r = run_history(hist, mon, mods, oracles)
        if r is not None:
            k, exc = r
            hist = hist[: k + 1]

            def fails(h):
                rr = run_history(h, mon, mods, oracles)
                return rr is not None and type(rr[1]) is type(exc)
            small = shrink(hist, fails)
            rr = run_history(small, mon, mods, oracles)
            failure = {"history": [list(s) for s in small], "error": f"{type(rr[1]).__name__}: {rr[1]}" if rr else str(exc),
                       "kind": type(exc).__name__,
                       "function": getattr(rr[1], "qualname", None) if rr else None}
            if stop_on_first:
                break
    return {"histories": n, "distinct": len(distinct), "calls": mon.stats["calls"], "calls_checked": mon.stats["checked"],
            "skipped_pre": mon.stats["skipped_pre"], "by_function": mon.stats["by_function"], "failure": failure,
            "seconds": round(time.time() - t0, 2), "max_len": max_len, "seed": seed, "op_counts": dict(OPCOUNT),
            "sample": [list(s) for s in (hist if n else [])]}


def write_replay(path, pid, failure, repo_root="/repo", note=""):
    body = {"property": pid, "history": failure["history"], "error": failure["error"], "note": note}
    with open(path, "w") as fh:
        fh.write('"""Replay of a failing history against the real code (pyvc bounded explorer + run-time contract monitor).\n'
                 'Run with: python3-vt <this file>   (exit 1 = the failure reproduces)"""\n')
        fh.write("import json, sys\nsys.path.insert(0, '/verif')\n")
        fh.write("CASE = json.loads(r'''" + json.dumps(body, indent=1) + "''')\n")
        fh.write("from pyvc import bounded\nsys.exit(bounded.replay(CASE))\n")


def replay(case, repo_root=None):
    driver.load_contracts()
    repo_root = repo_root or os.environ.get("PYVC_REPO", "/repo")
    mon, mods = fresh_world(repo_root)
    pid = case["property"]
    oracles = oracles_for(pid)
    hist = [tuple(s) for s in case["history"]]
    r = run_history(hist, mon, mods, oracles)
    print("history:")
    for s in hist:
        print("   ", s)
    if r is None:
        print("no failure: every monitored call satisfied its contract and the property oracle held")
        return 0
    k, exc = r
    print(f"step {k} {hist[k]} -> {type(exc).__name__}: {exc}")
    return 1
