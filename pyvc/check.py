"""`python3-vt -m pyvc check <ID> --tier quick|thorough`: decide one property on the current working tree of /repo.

exit 0  every obligation generated for the property was discharged (known findings are printed, not counted)
exit 1  at least one obligation is refuted outside the known findings: `VIOLATION property=<id> replay=<path>`
exit 2  undecided (solver unknown / time-out, construct outside the supported subset, function missing) - never a violation
exit 3  checker error (internal exception, vacuous hypotheses, zero obligations)
"""
from __future__ import annotations
import concurrent.futures as cf
import hashlib
import json
import multiprocessing as mp
import os
import re
import sys
import time
from . import driver

VERIF = os.path.dirname(os.path.dirname(os.path.abspath(__file__)))
EVIDENCE_DIR = os.path.join(VERIF, "evidence")
REPLAY_DIR = os.path.join(VERIF, "replays")
KNOWN_FILE = os.path.join(VERIF, "known_findings.json")
NPROC = int(os.environ.get("PYVC_NPROC", "14"))

ASSUMPTIONS = {
    "A1": "sequential execution; no threads, signals or finalisers",
    "A2": "no resource exhaustion (MemoryError / RecursionError do not occur)",
    "A3": "int is unbounded; float arithmetic treated as real arithmetic",
    "A4": "==, in, list.remove, set/dict membership on edgegraph objects are identity (no repo class defines __eq__/__hash__: "
          "checked syntactically each run; assumed for user subclasses); truthiness of an instance is unconstrained",
    "A5": "attribute lookup follows the class table built from the source; user subclasses satisfy the contracts of the "
          "methods they override (for the repo's own overrides this is proved)",
    "A6": "user attribute names do not start with '_' and do not shadow class attributes",
    "A7": "user callbacks do not mutate the graph; for functional properties they are deterministic functions of their arguments",
    "A8": "generators are consumed to exhaustion without interleaved mutation",
    "A9": "dict preserves insertion order; set iteration yields each element once in arbitrary order; uuid4().int is an "
          "arbitrary positive integer; list/tuple/dict built-ins behave as their Lean List counterparts (append=snoc, "
          "remove=erase, in=membership)",
    "A10": "third-party code (pyvis, dill/pickle, re, subprocess) is not verified",
    "A11": "the rewrite rules of pyvc/terms.py are instances of the lemmas in /verif/lean/ListLemmas.lean (checked by Lean "
           "4.33 + Mathlib when the thorough tier / setup runs)",
    "ALLOC": "a freshly allocated object is distinct from and unreferenced by every existing object",
}


def _task(t):
    kind, name, repo_root = t
    try:
        if kind == "func":
            return driver.verify_function(name, repo_root)
        return driver.verify_lemma(name, repo_root)
    except Exception as exc:  # pragma: no cover
        import traceback
        return {"function": name, "status": "error", "reason": str(exc), "traceback": traceback.format_exc(), "obligations": []}


def tasks_for(pid, reg):
    funcs = [q for q, c in reg.contracts.items() if pid in c.props and not c.no_body]
    lemmas = [lid for (lid, props, _f) in reg.lemmas if pid in props]
    return funcs, lemmas


def sanitize(s):
    return re.sub(r"[^A-Za-z0-9_.-]+", "_", s)[:150]


def load_known():
    if os.path.exists(KNOWN_FILE):
        with open(KNOWN_FILE) as fh:
            return json.load(fh)
    return {"known": [], "fixed": []}


def write_replay(pid, res, ob):
    d = os.path.join(REPLAY_DIR, pid)
    os.makedirs(d, exist_ok=True)
    path = os.path.join(d, sanitize(ob["id"]) + ".py")
    body = {
        "property": pid, "obligation": ob["id"], "function": res["function"], "source": res.get("file"),
        "source_sha256": res.get("sha256"), "clause": ob["meta"].get("clause"), "path": ob["meta"].get("trail"),
        "backend": ob["backend"], "solver_model": ob.get("model"),
    }
    with open(path, "w") as fh:
        fh.write('"""Failed proof obligation (pyvc). No concrete failing input was constructed for this obligation:\n'
                 'the solver model below is the verifier\'s counterexample to the verification condition.\n"""\n')
        fh.write("import json, sys\nOBLIGATION = json.loads(r'''" + json.dumps(body, indent=1) + "''')\n")
        fh.write("print('failed obligation:', OBLIGATION['obligation'])\nprint('clause:', OBLIGATION['clause'])\n"
                 "print(json.dumps(OBLIGATION['solver_model'], indent=1))\nsys.exit(1)\n")
    return path


def run_check(pid: str, tier: str, repo_root=None, seed=0):
    t0 = time.time()
    reg = driver.load_contracts()
    funcs, lemmas = tasks_for(pid, reg)
    tasks = [("func", f, repo_root) for f in funcs] + [("lemma", l, repo_root) for l in lemmas]
    results = []
    if tasks:
        ctx = mp.get_context("fork")
        with cf.ProcessPoolExecutor(max_workers=min(NPROC, len(tasks)), mp_context=ctx) as ex:
            for r in ex.map(_task, tasks, chunksize=1):
                results.append(r)
    known = load_known()
    known_ids = {k["obligation"]: k for k in known.get("known", []) if k.get("property") == pid}
    viol, undecided, errors, known_seen = [], [], [], []
    n_obl = n_dis = 0
    backends = {}
    solver_s = 0.0
    samples = []
    funcs_report = []
    for res in results:
        st = res["status"]
        if st == "undecided":
            undecided.append((res["function"], res.get("reason", "")))
        elif st == "error":
            errors.append((res["function"], res.get("reason", "")))
        nf = {"name": res["function"], "source": res.get("file"), "sha256": res.get("sha256"), "status": st,
              "obligations": len(res["obligations"]), "seconds": round(res.get("seconds", 0), 2)}
        funcs_report.append(nf)
        for ob in res["obligations"]:
            n_obl += 1
            solver_s += ob.get("seconds", 0)
            backends[ob["backend"]] = backends.get(ob["backend"], 0) + 1
            if ob["status"] in ("proved", "covered"):
                n_dis += 1
                if len(samples) < 6 and ob["kind"] not in ("cover",):
                    samples.append({"obligation": ob["id"], "kind": ob["kind"], "clause": ob["meta"].get("clause"),
                                    "backend": ob["backend"], "seconds": ob["seconds"]})
            elif ob["status"] == "refuted":
                if ob["id"] in known_ids:
                    known_seen.append(ob["id"])
                    n_dis += 0
                else:
                    viol.append((res, ob))
            elif ob["status"] == "vacuous":
                errors.append((ob["id"], "vacuous hypotheses: " + ob.get("reason", "")))
            else:
                undecided.append((ob["id"], ob.get("reason", "solver returned unknown")))
    if n_obl == 0:
        errors.append((pid, "zero obligations generated"))
    lines = []
    for kid in known_seen:
        lines.append(f"KNOWN-FINDING: property={pid} {kid} {known_ids[kid].get('what', '')}")
    replay_paths = []
    for (res, ob) in viol:
        path = write_replay(pid, res, ob)
        replay_paths.append(path)
        lines.append(f"VIOLATION property={pid} replay={path} no-failing-input-found")
    for (n, why) in undecided:
        lines.append(f"UNDECIDED property={pid} {n}: {why}")
    for (n, why) in errors:
        lines.append(f"CHECKER-ERROR property={pid} {n}: {why}")
    wall = time.time() - t0
    trusted = sorted({q for q, c in reg.contracts.items() if c.trusted and pid in c.props})
    ev = {
        "property_id": pid, "tier": tier, "seed": seed, "level": "proof",
        "coverage": {
            "obligations": n_obl, "discharged": n_dis,
            "checker_cmd": f"python3-vt -m pyvc check {pid} --tier {tier}",
            "trusted_base": [f"z3-solver {driver.solve.z3.get_version_string()} (Python API)", "cvc5 1.0.3 (fallback on unknown)",
                             "pyvc VC generator (/verif/pyvc): encoding of Python semantics, see assumptions",
                             "Lean 4.33 + Mathlib lemma base /verif/lean/ListLemmas.lean for the list rewrite rules"]
                            + [f"TRUSTED contract (body not verified): {q}" for q in trusted],
            "functions_under_contract": funcs_report,
            "backends": backends, "solver_seconds": round(solver_s, 2),
            "samples": samples,
            "undecided": [f"{n}: {w}" for n, w in undecided], "checker_errors": [f"{n}: {w}" for n, w in errors],
            "known_findings_seen": known_seen, "replays": replay_paths,
            "explanation": "every obligation is a verification condition generated from the AST of the current /repo sources "
                           "against the sidecar contracts in /verif/contracts; loops are cut by invariants, calls by contracts; no bound",
        },
        "assumptions": [f"{k}: {v}" for k, v in ASSUMPTIONS.items()],
        "wall_s": round(wall, 2), "violations": len(viol),
    }
    os.makedirs(EVIDENCE_DIR, exist_ok=True)
    with open(os.path.join(EVIDENCE_DIR, f"{pid}.json"), "w") as fh:
        json.dump(ev, fh, indent=1)
    for ln in lines:
        print(ln)
    print(f"pyvc {pid} [{tier}]: {n_dis}/{n_obl} obligations discharged over {len(results)} functions/lemmas, "
          f"{len(viol)} refuted, {len(undecided)} undecided, {len(errors)} errors, {wall:.1f}s")
    if viol:
        return 1
    if errors:
        return 3
    if undecided:
        return 2
    return 0
