"""`python3-vt -m pyvc check <ID> --tier quick|thorough`: decide one property on the current working tree of /repo.

exit 0  every obligation generated for the property was discharged (known findings are printed, not counted)
exit 1  at least one obligation is refuted outside the known findings: `VIOLATION property=<id> replay=<path>`
exit 2  undecided (solver unknown / time-out, construct outside the supported subset, function missing) - never a violation
exit 3  checker error (internal exception, vacuous hypotheses, zero obligations)
"""
from __future__ import annotations
import concurrent.futures as cf
import hashlib
import json
import multiprocessing as mp
import os
import re
import sys
import time
from . import driver

VERIF = os.path.dirname(os.path.dirname(os.path.abspath(__file__)))
EVIDENCE_DIR = os.path.join(VERIF, "evidence")
REPLAY_DIR = os.path.join(VERIF, "replays")
KNOWN_FILE = os.path.join(VERIF, "known_findings.json")
NPROC = int(os.environ.get("PYVC_NPROC", "14"))
BOUNDED_BUDGET_S = float(os.environ.get("PYVC_BOUNDED_S", "40"))
THOROUGH_BUDGET_S = float(os.environ.get("PYVC_THOROUGH_S", "150"))
TRUSTED_BUDGET_S = float(os.environ.get("PYVC_TRUSTED_S", "12"))

ASSUMPTIONS = {
    "A1": "sequential execution; no threads, signals or finalisers",
    "A2": "no resource exhaustion (MemoryError); RecursionError is modelled only for the recursive traversals / searches (it may end "
          "any of their calls abnormally, contracts/traversal.py may_exhaust_stack) and assumed absent elsewhere (recursion depth <= 3)",
    "A3": "int is unbounded; float arithmetic treated as real arithmetic",
    "A4": "==, in, list.remove, set/dict membership on edgegraph objects are identity (no repo class defines __eq__/__hash__: "
          "checked syntactically each run; assumed for user subclasses); truthiness of an instance is unconstrained",
    "A5": "attribute lookup follows the class table built from the source; user subclasses satisfy the contracts of the "
          "methods they override (for the repo's own overrides this is proved)",
    "A6": "user attribute names do not start with '_' and do not shadow class attributes",
    "A7": "user callbacks do not mutate the graph; for functional properties they are deterministic functions of their arguments; the truth "
          "value of a callback OBJECT is unconstrained, except that rfunc / sort / rvfunc / refunc / ff_result (tested by truth value in the "
          "code, 'if given' in the statements) carry the explicit precondition `None or truthy`",
    "A8": "generators are consumed to exhaustion without interleaved mutation",
    "A9": "dict preserves insertion order; set iteration yields each element once in arbitrary order; uuid4().int is an "
          "arbitrary positive integer; list/tuple/dict built-ins behave as their Lean List counterparts (append=snoc, "
          "remove=erase, in=membership)",
    "A10": "third-party code (dill/pickle, re, subprocess) is not verified and assumed not to write to edgegraph objects; "
           "pyvis.network.Network is used through an ASSUMED contract (pyvc/ops.py call_net_method: add_node appends unless the id exists; "
           "add_edge asserts both ids are nodes, skips an already joined pair when `directed` is false, else appends (from, to, arrow)), "
           "compared with the real class by the explorer operation pyvis_net; for C15 its methods are assumed not to raise otherwise",
    "LISTFACTS": "facts marked [L] in the contracts (an exists-/first-match fold over pre++[x]++suf is decided by pre++[x] once it fired; a "
                 "duplicate-free list has each element at one index; i in iota(k+1) <=> i in iota(k) or i = k) are assumed list facts, "
                 "stated in /verif/lean where proved",
    "A11": "the rewrite rules of pyvc/terms.py are instances of the lemmas in /verif/lean/ListLemmas.lean (checked by Lean "
           "4.33 + Mathlib when the thorough tier / setup runs)",
    "A12": "PlantUML renderer (C14): dir(), re (compile / match), str.format and str() of option values are not modelled - the matched "
           "attribute names, the mapping built from them, the formatted title and the string form of a value are uninterpreted functions of "
           "the vertex, the pattern / format value and the attribute heap; getattr succeeds on every name dir() lists; re.compile returns a "
           "pattern object; cls.__mro__ is non-empty and starts with cls; user_render_func / str.format return (a str); option tables cover "
           "the classes of the graph (precondition WF); ''.join of the characters of s is s",
    "A13": "nrpickler (C10): dill.Pickler.save / memoize and the file's write are not verified; save(obj) is abstracted as a token list "
           "pk_body(obj, real events so far) fed in order to the overridden write / memoize / save and touching the queue only through "
           "them (its control flow does not inspect the memo after a nested save returned: false for self-containing tuples, DESIGN.md 8 row "
           "15); queue items are record values (nothing depends on their identity: checked syntactically); the instance layout set up by "
           "__init__ (lazywrites list, write = lazywrite, realwrite = file.write) is checked syntactically, dill.Pickler.__init__ is not "
           "verified; pk_exec is the functional reading of the deterministic big-step relation Exec of lean/Scheduler.lean",
    "ALLOC": "a freshly allocated object is distinct from and unreferenced by every existing object",
}


LEVELS = {"C10": "other"}
ARITH = {"C20": "randgraph.randgraph#samplesize"}     # scalar verification conditions (pyvc/arith.py)
PROBES = {"C10": [("c10_selfref.py", "self-containing-tuple"), ("c10_selfref.py", "class-by-value-with-super")]}
EXPLANATIONS = {
    "C10": "C10 is decided in two labelled parts. PROVED (obligations / discharged below): the work-list scheduler of _NonrecursivePickler - "
           "lazywrite / lazymemoize / save against the three cases of applyTok, dump against 'the real events are the protocol header, the "
           "depth-first left-to-right execution of [save obj], STOP; nothing pending afterwards' (two nested loop invariants over pk_exec; the "
           "scheduler lemma exec_apply is checked by Lean, lean/Scheduler.lean), over an ASSUMED contract of dill.Pickler.save (a token list fed "
           "to write / memoize / save in order); the syntactic layout conditions A13; and the cache plumbing of Vertex, whose contracts need "
           "no statistics entry (usable after un-pickling into a fresh interpreter). BOUNDED, never counted as proved (bounded[] below): the round "
           "trip itself - nrpickler.dumps, pickle.loads / dill.loads, protocols 0-5, structural isomorphism incl. sharing and detachment, the copy "
           "queried and mutated with caching on after the class-level statistics were forgotten, chains of 700-1000 vertices with 80 frames of "
           "head room - on random histories over the object pool",
}


def _task(t):
    kind, name, repo_root = t[:3]
    shard = t[3] if len(t) > 3 else None
    try:
        if kind == "side":
            return driver.verify_side(name, repo_root)
        if kind == "arith":
            from . import arith
            return arith.verify(repo_root)
        if kind == "func":
            r = driver.verify_function(name, repo_root, shard=shard)
            if shard is not None:
                r["shard"] = list(shard)
            return r
        return driver.verify_lemma(name, repo_root)
    except Exception as exc:  # pragma: no cover
        import traceback
        return {"function": name, "status": "error", "reason": str(exc), "traceback": traceback.format_exc(), "obligations": []}


def tasks_for(pid, reg):
    funcs = [q for q, c in reg.contracts.items() if pid in c.props and not c.no_body]
    lemmas = [lid for (lid, props, _f) in reg.lemmas if pid in props]
    return funcs, lemmas


def _explore_task(t):
    pid, budget, seed, repo_root, focus, worker, nworkers = t
    try:
        from . import bounded
        driver.load_contracts()
        from .extract import REPO
        return bounded.explore(pid, budget_s=budget, seed=seed, repo_root=repo_root or REPO, focus=focus,
                               only=set(focus) if focus else None, worker=worker, nworkers=nworkers)
    except Exception as exc:  # pragma: no cover
        import traceback
        return {"error": str(exc), "traceback": traceback.format_exc(), "histories": 0, "calls_checked": 0, "failure": None}


def bounded_search(pid, focus, budget_s, seed, repo_root, nproc=None):
    """run the bounded explorer in parallel with different seeds; returns (aggregate dict, first failure or None)"""
    nproc = nproc or NPROC
    tasks = [(pid, budget_s, seed * 1000 + k, repo_root, focus, k, nproc) for k in range(nproc)]
    ctx = mp.get_context("fork")
    agg = {"histories": 0, "calls_checked": 0, "distinct": 0, "workers": nproc, "budget_s_each": budget_s, "errors": []}
    failure = None
    with cf.ProcessPoolExecutor(max_workers=nproc, mp_context=ctx) as ex:
        for r in ex.map(_explore_task, tasks, chunksize=1):
            agg["histories"] += r.get("histories", 0)
            agg["distinct"] += r.get("distinct", 0)
            agg["calls_checked"] += r.get("calls_checked", 0)
            for k_, v_ in (r.get("op_counts") or {}).items():
                agg.setdefault("operations_run", {})[k_] = agg.setdefault("operations_run", {}).get(k_, 0) + v_
            if r.get("error"):
                agg["errors"].append(r["error"])
            if r.get("failure") and failure is None:
                failure = r["failure"]
            if r.get("sample") and "sample" not in agg:
                agg["sample"] = r["sample"]
    return agg, failure


def sanitize(s):
    return re.sub(r"[^A-Za-z0-9_.-]+", "_", s)[:150]


def load_known():
    if os.path.exists(KNOWN_FILE):
        with open(KNOWN_FILE) as fh:
            return json.load(fh)
    return {"known": [], "fixed": []}


def write_replay(pid, res, ob, others=(), search=None):
    d = os.path.join(REPLAY_DIR, pid)
    os.makedirs(d, exist_ok=True)
    path = os.path.join(d, sanitize(ob["id"]) + ".py")
    body = {
        "property": pid, "obligation": ob["id"], "function": res["function"], "source": res.get("file"),
        "source_sha256": res.get("sha256"), "clause": ob["meta"].get("clause"), "path": ob["meta"].get("trail"),
        "backend": ob["backend"], "solver_model": ob.get("model"), "other_refuted_obligations_of_this_function": list(others),
        "bounded_search_for_a_failing_input": search,
    }
    with open(path, "w") as fh:
        fh.write('"""Failed proof obligation (pyvc). No concrete failing input was constructed for this obligation:\n'
                 'the solver model below is the verifier\'s counterexample to the verification condition.\n"""\n')
        fh.write("import json, sys\nOBLIGATION = json.loads(r'''" + json.dumps(body, indent=1) + "''')\n")
        fh.write("print('failed obligation:', OBLIGATION['obligation'])\nprint('clause:', OBLIGATION['clause'])\n"
                 "print(json.dumps(OBLIGATION['solver_model'], indent=1))\nsys.exit(1)\n")
    return path


def run_check(pid: str, tier: str, repo_root=None, seed=0):
    t0 = time.time()
    reg = driver.load_contracts()
    funcs, lemmas = tasks_for(pid, reg)
    tasks = []
    for f in funcs:
        n = getattr(reg.contracts[f], "shards", 1) or 1
        if n > 1:
            tasks.extend(("func", f, repo_root, (k, n)) for k in range(n))
        else:
            tasks.append(("func", f, repo_root))
    tasks.sort(key=lambda t: 0 if len(t) > 3 else 1)          # heavy functions first
    tasks += [("lemma", l, repo_root) for l in lemmas]
    tasks.append(("side", pid, repo_root))
    if pid in ARITH:
        tasks.append(("arith", ARITH[pid], repo_root))
    results = []
    if tasks:
        ctx = mp.get_context("fork")
        with cf.ProcessPoolExecutor(max_workers=min(NPROC, len(tasks)), mp_context=ctx) as ex:
            for r in ex.map(_task, tasks, chunksize=1):
                results.append(r)
    known = load_known()
    known_ids = {k["obligation"]: k for k in known.get("known", []) if k.get("property") == pid}
    viol, undecided, errors, known_seen = [], [], [], []
    covers = {}
    unknown_funcs = {}
    n_obl = n_dis = 0
    backends = {}
    solver_s = 0.0
    samples = []
    funcs_report = []
    for res in results:
        st = res["status"]
        if st == "undecided":
            undecided.append((res["function"], res.get("reason", "")))
        elif st == "error":
            errors.append((res["function"], res.get("reason", "")))
        nf = {"name": res["function"], "source": res.get("file"), "sha256": res.get("sha256"), "status": st,
              "obligations": len(res["obligations"]), "seconds": round(res.get("seconds", 0), 2)}
        funcs_report.append(nf)
        for ob in res["obligations"]:
            n_obl += 1
            solver_s += ob.get("seconds", 0)
            backends[ob["backend"]] = backends.get(ob["backend"], 0) + 1
            if ob["kind"] == "cover":
                n_obl -= 1          # vacuity guards are reported separately, they are not proof obligations
                covers[ob["status"]] = covers.get(ob["status"], 0) + 1
                if ob["status"] == "vacuous":
                    errors.append((ob["id"], "vacuous hypotheses: " + ob.get("reason", "")))
                continue
            if ob["status"] in ("proved", "covered"):
                n_dis += 1
                if len(samples) < 6 and ob["kind"] not in ("cover",):
                    samples.append({"obligation": ob["id"], "kind": ob["kind"], "clause": ob["meta"].get("clause"),
                                    "backend": ob["backend"], "seconds": ob["seconds"]})
            elif ob["status"] == "refuted":
                if ob["id"] in known_ids:
                    known_seen.append(ob["id"])
                    n_dis += 0
                else:
                    viol.append((res, ob))
            elif ob["status"] == "vacuous":
                errors.append((ob["id"], "vacuous hypotheses: " + ob.get("reason", "")))
            else:
                undecided.append((ob["id"], ob.get("reason", "solver returned unknown")))
                unknown_funcs.setdefault(res["function"], []).append(ob["id"])
    undecided = list(dict.fromkeys(undecided))        # shards of one function repeat its reasons
    errors = list(dict.fromkeys(errors))
    if n_obl == 0:
        errors.append((pid, "zero obligations generated"))
    lines = []
    for kid in known_seen:
        lines.append(f"KNOWN-FINDING: property={pid} {kid} {known_ids[kid].get('what', '')}")
    replay_paths = []
    bounded_report = []
    from . import bounded
    # refuted obligations: look for a concrete failing history of the real code, focused on the function concerned
    by_func = {}
    for (res, ob) in viol:
        by_func.setdefault(res["function"], []).append((res, ob))
    for fname, items in by_func.items():
        focus = [fname.split("/")[-1]] if "/" in fname else [fname]
        focus = [f_.split("#")[0] for f_ in focus]            # contract variants are checked on the same function
        if fname in ARITH.values():
            # scalar obligations come with a solver model over (count, i, draw, connectivity, ensurelink): replayed directly
            from . import arith
            done = False
            for (res, ob) in items:
                if ob.get("model"):
                    path = os.path.join(REPLAY_DIR, pid, sanitize(ob["id"]) + ".replay.py")
                    if arith.write_replay(path, ob, repo_root):
                        replay_paths.append(path)
                        lines.append(f"VIOLATION property={pid} replay={path}")
                        done = True
                        break
                    os.remove(path)
            if done:
                for (res, ob) in items:
                    write_replay(pid, res, ob)
                continue
        agg, failure = bounded_search(pid, focus, BOUNDED_BUDGET_S, seed, repo_root)
        agg["focus"] = focus
        agg["purpose"] = "search for a failing input for refuted obligations"
        bounded_report.append(agg)
        if failure is not None:
            os.makedirs(os.path.join(REPLAY_DIR, pid), exist_ok=True)
            path = os.path.join(REPLAY_DIR, pid, sanitize(fname) + ".history.py")
            bounded.write_replay(path, pid, failure, note="refuted obligations: " + ", ".join(ob["id"] for (_r, ob) in items[:8]))
            replay_paths.append(path)
            lines.append(f"VIOLATION property={pid} replay={path}")
            for (res, ob) in items:
                write_replay(pid, res, ob)
        else:
            for (res, ob) in items[:1]:
                path = write_replay(pid, res, ob, others=[o["id"] for (_r, o) in items[1:]], search=agg)
                replay_paths.append(path)
                lines.append(f"VIOLATION property={pid} replay={path} no-failing-input-found")
    # functions outside the symbolic subset: bounded stand-in (labelled, never counted as proved)
    still_undecided = []
    und_funcs = [n for (n, why) in undecided if n in {r["function"] for r in results if r["status"] == "undecided"}]
    und_funcs = sorted(set(und_funcs) | {f for f in unknown_funcs if "/" not in f})
    if und_funcs:
        agg, failure = bounded_search(pid, [f.split("/")[-1].split("#")[0] for f in und_funcs], BOUNDED_BUDGET_S, seed, repo_root)
        agg["focus"] = und_funcs
        agg["purpose"] = "bounded stand-in for functions outside the symbolic subset"
        bounded_report.append(agg)
        if failure is not None:
            os.makedirs(os.path.join(REPLAY_DIR, pid), exist_ok=True)
            path = os.path.join(REPLAY_DIR, pid, "bounded_" + sanitize(failure.get("function") or und_funcs[0]) + ".history.py")
            bounded.write_replay(path, pid, failure, note="bounded stand-in for undecided functions: " + ", ".join(und_funcs))
            replay_paths.append(path)
            lines.append(f"VIOLATION property={pid} replay={path}")
            viol.append((None, None))
        elif agg["calls_checked"] > 0 and not agg["errors"]:
            for (n, why) in undecided:
                if n in und_funcs and n not in unknown_funcs:
                    lines.append(f"BOUNDED property={pid} {n}: not decided symbolically ({why}); bounded stand-in found no "
                                 f"violation in {agg['histories']} histories / {agg['calls_checked']} monitored calls")
                else:
                    still_undecided.append((n, why))
            undecided = still_undecided
    trusted_now = sorted({q for q, c_ in reg.contracts.items() if c_.trusted and pid in c_.props})
    if trusted_now and not viol:
        # functions whose contract is trusted (body outside the symbolic subset): bounded stand-in on every run
        agg, failure = bounded_search(pid, trusted_now, TRUSTED_BUDGET_S, seed + 5, repo_root)
        agg["focus"] = trusted_now
        agg["purpose"] = "bounded stand-in for functions with a TRUSTED contract (never counted as proved)"
        bounded_report.append(agg)
        if failure is not None:
            os.makedirs(os.path.join(REPLAY_DIR, pid), exist_ok=True)
            path = os.path.join(REPLAY_DIR, pid, "trusted_" + sanitize(failure.get("function") or trusted_now[0]) + ".history.py")
            bounded.write_replay(path, pid, failure, note="bounded stand-in for trusted contracts: " + ", ".join(trusted_now))
            replay_paths.append(path)
            lines.append(f"VIOLATION property={pid} replay={path}")
            viol.append((None, None))
        else:
            lines.append(f"BOUNDED property={pid} {', '.join(trusted_now)}: trusted contract(s); bounded stand-in found no violation in "
                         f"{agg['histories']} histories")
    if tier == "thorough" and not viol:
        agg, failure = bounded_search(pid, None, THOROUGH_BUDGET_S, seed + 17, repo_root)
        agg["purpose"] = "thorough tier: contracts vs CPython cross-check on random histories (bounded)"
        bounded_report.append(agg)
        if failure is not None:
            os.makedirs(os.path.join(REPLAY_DIR, pid), exist_ok=True)
            path = os.path.join(REPLAY_DIR, pid, "thorough_" + sanitize(failure.get("function") or "history") + ".history.py")
            bounded.write_replay(path, pid, failure, note="thorough-tier run-time contract check")
            replay_paths.append(path)
            lines.append(f"VIOLATION property={pid} replay={path}")
            viol.append((None, None))
    probe_report = []
    if pid in PROBES:
        # inputs on which an ASSUMED contract is known to be false (found while stating the assumption): replayed against the real code
        import subprocess
        from .extract import REPO as _REPO
        for (script, pname) in PROBES[pid]:
            path = os.path.join(VERIF, "probes", script)
            try:
                r_ = subprocess.run([sys.executable, path, repo_root or _REPO, pname], capture_output=True, text=True, timeout=90)
                last = [l for l in r_.stdout.splitlines() if l.startswith("{")]
                res_ = json.loads(last[-1]) if last else {"probe": pname, "outcome": "no-output", "detail": (r_.stderr or "")[-300:]}
            except subprocess.TimeoutExpired:
                res_ = {"probe": pname, "outcome": "hang", "detail": "probe process did not finish within 90 s"}
            probe_report.append(res_)
            if res_["outcome"] == "ok":
                continue
            kid = f"probe:{pname}"
            if kid in known_ids and known_ids[kid].get("outcome") == res_["outcome"]:
                known_seen.append(kid)
                lines.append(f"KNOWN-FINDING: property={pid} {kid} {res_['outcome']}: {known_ids[kid].get('what', '')[:220]}")
            else:
                d_ = os.path.join(REPLAY_DIR, pid)
                os.makedirs(d_, exist_ok=True)
                rp = os.path.join(d_, f"probe_{sanitize(pname)}.py")
                with open(rp, "w") as fh:
                    fh.write(f'"""Replay of probe {pname} ({script}): outcome {res_["outcome"]} {res_.get("detail", "")!r}"""\n'
                             f"import subprocess, sys\nsys.exit(subprocess.call([sys.executable, {path!r}, {(repo_root or _REPO)!r}, {pname!r}]))\n")
                replay_paths.append(rp)
                lines.append(f"VIOLATION property={pid} replay={rp}")
                viol.append((None, None))
    undecided = list(dict.fromkeys(undecided))        # one line per function / obligation (shards repeat them)
    errors = list(dict.fromkeys(errors))
    for (n, why) in undecided:
        lines.append(f"UNDECIDED property={pid} {n}: {why}")
    for (n, why) in errors:
        lines.append(f"CHECKER-ERROR property={pid} {n}: {why}")
    wall = time.time() - t0
    trusted = sorted({q for q, c in reg.contracts.items() if c.trusted and pid in c.props})
    from . import leancheck
    if tier == "thorough":
        lean_ok, lean_info = leancheck.run(force=True)
        if not lean_ok:
            errors.append(("lean", lean_info))
    lst = leancheck.status()
    lean_line = (f"Lean lemma base /verif/lean ({', '.join(lst.get('files', []))}, sha256 {lst['sha256'][:12]}): "
                 + ("compiled without errors or sorry by " + lst.get("lean", "lean") if lst.get("ok") else
                    ("NOT compiled in this checkout: the rewrite rules are then assumed" if lst.get("ok") is None else "COMPILATION FAILED")))
    level = LEVELS.get(pid, "proof")
    expl = ("every obligation is a verification condition generated from the AST of the current /repo sources "
            "against the sidecar contracts in /verif/contracts; loops are cut by invariants, calls by contracts; no bound")
    if pid in EXPLANATIONS:
        expl = EXPLANATIONS[pid] + " | " + expl
    ev = {
        "property_id": pid, "tier": tier, "seed": seed, "level": level,
        "coverage": {
            "obligations": n_obl, "discharged": n_dis,
            "checker_cmd": f"python3-vt -m pyvc check {pid} --tier {tier}",
            "trusted_base": [f"z3-solver {driver.solve.z3.get_version_string()} (Python API)", "cvc5 1.0.3 (fallback on unknown)",
                             "pyvc VC generator (/verif/pyvc): encoding of Python semantics, see assumptions",
                             lean_line]
                            + [f"TRUSTED contract (body not verified): {q}" for q in trusted],
            "functions_under_contract": funcs_report,
            "backends": backends, "solver_seconds": round(solver_s, 2), "vacuity_guards": covers,
            "samples": samples,
            "undecided": [f"{n}: {w}" for n, w in undecided], "checker_errors": [f"{n}: {w}" for n, w in errors],
            "known_findings_seen": known_seen, "replays": replay_paths,
            "bounded": bounded_report, "probes": probe_report,
            "explanation": expl,
        },
        "assumptions": [f"{k}: {v}" for k, v in ASSUMPTIONS.items()],
        "wall_s": round(wall, 2), "violations": len(viol),
    }
    if level != "proof":
        # a level that rests partly on bounded exploration reports the exploration-style counts as well (measured by this run)
        ev["coverage"]["evaluations"] = sum(b.get("histories", 0) for b in bounded_report)
        ev["coverage"]["distinct_nontrivial"] = sum(b.get("distinct", 0) for b in bounded_report)
        ev["coverage"]["rule"] = ("bounded part: histories of public-API operations over a small object pool (pyvc/bounded.py), generated at "
                                  "random with heavy aliasing plus a small-scope systematic part; distinct = different operation sequences")
    os.makedirs(EVIDENCE_DIR, exist_ok=True)
    with open(os.path.join(EVIDENCE_DIR, f"{pid}.json"), "w") as fh:
        json.dump(ev, fh, indent=1)
    for ln in lines:
        print(ln)
    print(f"pyvc {pid} [{tier}]: {n_dis}/{n_obl} obligations discharged over {len(results)} functions/lemmas, "
          f"{len(viol)} refuted, {len(undecided)} undecided, {len(errors)} errors, {wall:.1f}s")
    if viol:
        return 1
    if errors:
        return 3
    if undecided:
        return 2
    return 0
