import os
import sys
from . import driver


def main(argv):
    if argv and argv[0] == "verify":
        verbose = "-v" in argv
        names = [a for a in argv[1:] if not a.startswith("-")]
        jobs = 1
        for a in argv:
            if a.startswith("-j"):
                jobs = int(a[2:])
        for n in names:
            if jobs > 1 and "/" not in n:
                import concurrent.futures as cf, multiprocessing as mp
                from . import check
                with cf.ProcessPoolExecutor(max_workers=jobs, mp_context=mp.get_context("fork")) as ex:
                    parts = list(ex.map(check._task, [("func", n, None, (k, jobs)) for k in range(jobs)]))
                res = parts[0]
                for pr in parts[1:]:
                    res["obligations"] += pr["obligations"]
                res["seconds"] = max(pr.get("seconds", 0) for pr in parts)
            else:
                res = driver.verify_lemma(n) if "/" in n else driver.verify_function(n)
            driver.print_result(res, verbose)
        return 0
    if argv and argv[0] == "check":
        from . import check
        pid = argv[1]
        tier = os.environ.get("VERIF_TIER", "quick")
        if "--tier" in argv:
            tier = argv[argv.index("--tier") + 1]
        seed = int(os.environ.get("VERIF_SEED", "0") or 0)
        if "--evidence-dir" in argv:
            check.EVIDENCE_DIR = argv[argv.index("--evidence-dir") + 1]
        if "--replay-dir" in argv:
            check.REPLAY_DIR = argv[argv.index("--replay-dir") + 1]
        return check.run_check(pid, tier, seed=seed)
    if argv and argv[0] == "setup":
        # self-test of the solvers; nothing to build (pure Python, stdlib + z3 from the tooling venv)
        import z3, subprocess
        s = z3.Solver(); x = z3.Int("x"); s.add(x > 1, x < 3)
        assert s.check() == z3.sat
        out = subprocess.run(["/usr/bin/cvc5", "--version"], capture_output=True, text=True).stdout.splitlines()[0]
        print("z3", z3.get_version_string(), "|", out)
        driver.load_contracts()
        print("contracts:", len(driver.REG.contracts), "loops:", len(driver.REG.loops), "lemmas:", len(driver.REG.lemmas))
        from . import leancheck
        ok, info = leancheck.run()
        print("lean lemma base:", info)
        return 0 if ok else 1
    print("usage: python -m pyvc verify <qualname>... | check <ID> [--tier quick|thorough]")
    return 2


if __name__ == "__main__":
    sys.exit(main(sys.argv[1:]))
