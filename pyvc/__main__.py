import sys
from . import driver

def main(argv):
    if argv and argv[0] == "verify":
        verbose = "-v" in argv
        names = [a for a in argv[1:] if not a.startswith("-")]
        for n in names:
            res = driver.verify_function(n)
            driver.print_result(res, verbose)
        return 0
    print("usage: python -m pyvc verify <qualname>...")
    return 2

if __name__ == "__main__":
    sys.exit(main(sys.argv[1:]))
