"""Running the verifier: per-function worker (extract -> VCs -> discharge), result aggregation."""
from __future__ import annotations
import importlib
import os
import sys
import time
import traceback
from . import terms as T
from .contracts import REG
from .extract import Repo
from .engine import Unsupported
from .ops import FullEngine
from . import solve

CONTRACT_MODULES = ["contracts.structure", "contracts.helpers", "contracts.builders", "contracts.traversal", "contracts.output", "contracts.plantuml", "contracts.pickler", "contracts.singleton", "contracts.props"]


def load_contracts():
    here = os.path.dirname(os.path.dirname(os.path.abspath(__file__)))
    if here not in sys.path:
        sys.path.insert(0, here)
    for m in CONTRACT_MODULES:
        importlib.import_module(m)
    return REG


def model_summary(model, ob, limit=60):
    if model is None:
        return None
    out = {}
    try:
        for d in model.decls()[:limit]:
            out[d.name()] = str(model[d])[:300]
    except Exception as exc:  # pragma: no cover
        out["error"] = str(exc)
    return out


def verify_function(qualname: str, repo_root=None, keep_models=False, shard=None):
    """worker: returns a JSON-able dict.  shard=(k, n): discharge only the obligations with index = k mod n"""
    t0 = time.time()
    reg = load_contracts()
    repo = Repo(repo_root)
    eng = FullEngine(repo, reg)
    res = {"function": qualname, "status": "ok", "obligations": [], "sha256": None, "file": None}
    fi = repo.functions.get(qualname)
    if fi is not None:
        res["sha256"] = fi.sha256
        res["file"] = os.path.relpath(fi.file, repo.root) + f":{fi.lineno}"
    try:
        spec = eng.verify_function(qualname)
    except Unsupported as exc:
        res["status"] = "undecided"
        res["reason"] = f"unsupported: {exc}"
        res["seconds"] = time.time() - t0
        return res
    except Exception as exc:
        # the symbolic executor could not evaluate this body (a construct whose value model is missing, e.g. id() used as
        # a dictionary key): the function is outside the verifier's reach as it stands - undecided, handed to the bounded
        # stand-in; never a violation, and reported (with the traceback) in the evidence
        res["status"] = "undecided"
        res["reason"] = "unsupported: executor failed on this body: " + "".join(traceback.format_exception_only(type(exc), exc)).strip()
        res["traceback"] = traceback.format_exc()
        res["seconds"] = time.time() - t0
        return res
    res["gen_seconds"] = round(time.time() - t0, 2)
    discharge_all(eng, res, keep_models, shard)
    res["paths"] = eng.stats["paths"]
    res["pruned"] = eng.stats["pruned"]
    res["seconds"] = time.time() - t0
    return res


def verify_lemma(lemma_id: str, repo_root=None, keep_models=False):
    t0 = time.time()
    reg = load_contracts()
    repo = Repo(repo_root)
    eng = FullEngine(repo, reg)
    res = {"function": lemma_id, "status": "ok", "obligations": [], "sha256": None, "file": None, "lemma": True}
    fn = None
    for (lid, props, f) in reg.lemmas:
        if lid == lemma_id:
            fn = f
    try:
        if fn is None:
            raise Unsupported(f"unknown lemma {lemma_id}")
        fn(eng)
    except Unsupported as exc:
        res["status"] = "undecided"
        res["reason"] = f"unsupported: {exc}"
        res["seconds"] = time.time() - t0
        return res
    except Exception as exc:
        res["status"] = "error"
        res["reason"] = "".join(traceback.format_exception_only(type(exc), exc)).strip()
        res["traceback"] = traceback.format_exc()
        res["seconds"] = time.time() - t0
        return res
    discharge_all(eng, res, keep_models)
    res["seconds"] = time.time() - t0
    return res


GROUP_TIMEOUT_MS = int(os.environ.get("PYVC_GROUP_TIMEOUT_MS", "45000"))


def discharge_all(eng, res, keep_models=False, shard=None):
    import z3
    from .engine import Oblig
    base = eng.base_facts()
    # obligations of one group share their hypotheses: try the conjunction first (one query instead of many)
    groups = {}
    order = []
    for ob in eng.obligs:
        key = ob.group if ob.group is not None else ("single", ob.oid)
        if key not in groups:
            groups[key] = []
            order.append(key)
        groups[key].append(ob)
    pre_proved = {}
    t_begin = time.time()
    for gi, key in enumerate(order):
        members = groups[key]
        if shard is not None and gi % shard[1] != shard[0]:
            for ob in members:
                pre_proved[ob.oid] = "skip"
            continue
        if len(members) > 1 and time.time() - t_begin < float(os.environ.get("PYVC_FUNC_BUDGET_S", "900")) * 0.7:
            nontriv = [ob for ob in members if not z3.is_true(ob.goal)]
            if nontriv:
                comb = Oblig(members[0].oid + "+group", members[0].func, "group", members[0].hyps, members[0].schemas,
                             z3.And(*[ob.goal for ob in nontriv]))
                try:
                    r = solve.discharge(comb, eng.ct.axioms_for, base, want_model=False, timeout_ms=GROUP_TIMEOUT_MS, quick=True)
                except Exception:
                    r = None
                if r is not None and r.status == "proved":
                    for ob in nontriv:
                        pre_proved[ob.oid] = (r.backend + " (grouped)", round(r.seconds / len(nontriv), 4), r.ninst)
    t_start = t_begin
    budget = float(os.environ.get("PYVC_FUNC_BUDGET_S", "900"))
    skipped = 0
    for idx, ob in enumerate(eng.obligs):
        if time.time() - t_start > budget and pre_proved.get(ob.oid) not in ("skip",) and ob.oid not in pre_proved:
            # the time budget of this function is used up: the rest is undecided (never a violation)
            skipped += 1
            res["obligations"].append({"id": ob.oid, "kind": ob.kind, "status": "unknown", "backend": "-", "seconds": 0.0,
                                       "reason": f"time budget of {budget:.0f}s for this function exhausted", "meta": ob.meta})
            continue
        pp = pre_proved.get(ob.oid)
        if pp == "skip":
            continue
        if pp is not None:
            res["obligations"].append({"id": ob.oid, "kind": ob.kind, "status": "proved", "backend": pp[0], "seconds": pp[1],
                                       "ninst": pp[2], "meta": ob.meta})
            continue
        try:
            r = solve.discharge(ob, eng.ct.axioms_for, base)
        except Exception as exc:
            res["obligations"].append({"id": ob.oid, "kind": ob.kind, "status": "unknown", "backend": "-",
                                       "seconds": 0.0, "reason": f"solver error: {exc}", "meta": ob.meta})
            continue
        entry = {"id": ob.oid, "kind": ob.kind, "status": r.status, "backend": r.backend, "seconds": round(r.seconds, 4),
                 "ninst": r.ninst, "meta": ob.meta}
        if r.reason:
            entry["reason"] = r.reason
        if r.status == "refuted":
            entry["model"] = model_summary(r.model, ob)
            if keep_models:
                entry["_model"] = r.model
                entry["_ob"] = ob
        res["obligations"].append(entry)
    res["paths"] = eng.stats["paths"]
    res["pruned"] = eng.stats["pruned"]


def verify_side(pid: str, repo_root=None):
    """syntactic side conditions of a property (pyvc/sidecond.py)"""
    from . import sidecond
    t0 = time.time()
    repo = Repo(repo_root)
    res = {"function": f"side-conditions/{pid}", "status": "ok", "obligations": [], "sha256": None, "file": None, "lemma": True}
    items = []
    if pid == "C12":
        items += sidecond.ownership(repo)
    if pid == "C13":
        ro = {"neighbors", "find_links", "vertices", "links", "universes", "_df_preflight_checks", "_dft_recur", "_dfs_recur",
              "ibft", "idft_recursive", "idft_iterative", "other", "uid", "_resolve_options", "_vertex_title",
              "_one_vert_to_puml", "_one_link_to_puml", "_one_vert_to_skinparam", "make_pyvis_net"}
        for q, owned in [("breadthfirst.ibft", ()), ("breadthfirst.bft", ()), ("breadthfirst.bfs", ()),
                         ("depthfirst._df_preflight_checks", ()), ("depthfirst._dft_recur", ("visited",)),
                         ("depthfirst.idft_recursive", ()), ("depthfirst.dft_recursive", ()),
                         ("depthfirst._dfs_recur", ("visited",)), ("depthfirst.dfs_recursive", ()),
                         ("depthfirst.idft_iterative", ()), ("depthfirst.dft_iterative", ()), ("depthfirst.dfs_iterative", ()),
                         ("plaintext.basic_render", ()),
                         # the PlantUML helpers write only to the caller's *options table* (compiled regex cache), never to the graph
                         ("plantuml._resolve_options", ("opts",)), ("plantuml._vertex_title", ()),
                         ("plantuml._one_vert_to_puml", ()), ("plantuml._one_link_to_puml", ()),
                         ("plantuml._one_vert_to_skinparam", ()), ("plantuml.render_to_plantuml_src", ())]:
            items += sidecond.readonly_effects(repo, q, ro, owned)
    if pid == "C10":
        items += sidecond.pickler_layout(repo)
    if pid == "C19":
        items += sidecond.no_setters(repo, "UniverseLaws", ["edge_whitelist", "mixed_links", "cycles", "multipath", "multiverse"])
    ident = sidecond.identity_model(repo)
    for (oid, ok, why, fi, line) in items:
        res["obligations"].append({"id": oid, "kind": "side", "status": "proved" if ok else "refuted", "backend": "syntactic",
                                   "seconds": 0.0, "meta": {"clause": why or "syntactic side condition holds", "trail": "",
                                                            "where": (fi.file + ":" + str(line)) if fi else ""}})
    for (oid, ok, why, fi, line) in ident:
        if not ok:
            res["status"] = "undecided"
            res["reason"] = "assumption A4 (identity model) does not hold on this tree: " + why
    res["obligations"].append({"id": f"A4/identity-model/{pid}", "kind": "side", "status": "proved" if res["status"] == "ok" else "unknown",
                               "backend": "syntactic", "seconds": 0.0, "meta": {"clause": "no repo class overrides __eq__/__hash__/__bool__/...", "trail": ""}})
    res["seconds"] = time.time() - t0
    res["paths"] = 0
    return res


def print_result(res, verbose=False):
    obs = res["obligations"]
    cnt = {}
    for o in obs:
        cnt[o["status"]] = cnt.get(o["status"], 0) + 1
    print(f"{res['function']:45s} {res['status']:9s} {cnt} paths={res.get('paths')} {res.get('seconds', 0):.2f}s"
          + (f"  [{res.get('reason')}]" if res.get("reason") else ""))
    for o in obs:
        if verbose or o["status"] not in ("proved", "covered"):
            print(f"    {o['status']:8s} {o['id']}  ({o['backend']}, {o['seconds']}s) {o['meta'].get('clause', '')} trail={o['meta'].get('trail', '')}")
            if o["status"] == "refuted" and o.get("model") and verbose:
                for k, v in list(o["model"].items())[:40]:
                    print(f"        {k} = {v}")
    if res.get("traceback"):
        print(res["traceback"])
