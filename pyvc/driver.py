"""Running the verifier: per-function worker (extract -> VCs -> discharge), result aggregation."""
from __future__ import annotations
import importlib
import os
import sys
import time
import traceback
from . import terms as T
from .contracts import REG
from .extract import Repo
from .engine import Unsupported
from .ops import FullEngine
from . import solve

CONTRACT_MODULES = ["contracts.structure", "contracts.helpers", "contracts.builders", "contracts.props"]


def load_contracts():
    here = os.path.dirname(os.path.dirname(os.path.abspath(__file__)))
    if here not in sys.path:
        sys.path.insert(0, here)
    for m in CONTRACT_MODULES:
        importlib.import_module(m)
    return REG


def model_summary(model, ob, limit=60):
    if model is None:
        return None
    out = {}
    try:
        for d in model.decls()[:limit]:
            out[d.name()] = str(model[d])[:300]
    except Exception as exc:  # pragma: no cover
        out["error"] = str(exc)
    return out


def verify_function(qualname: str, repo_root=None, keep_models=False, shard=None):
    """worker: returns a JSON-able dict.  shard=(k, n): discharge only the obligations with index = k mod n"""
    t0 = time.time()
    reg = load_contracts()
    repo = Repo(repo_root)
    eng = FullEngine(repo, reg)
    res = {"function": qualname, "status": "ok", "obligations": [], "sha256": None, "file": None}
    fi = repo.functions.get(qualname)
    if fi is not None:
        res["sha256"] = fi.sha256
        res["file"] = os.path.relpath(fi.file, repo.root) + f":{fi.lineno}"
    try:
        spec = eng.verify_function(qualname)
    except Unsupported as exc:
        res["status"] = "undecided"
        res["reason"] = f"unsupported: {exc}"
        res["seconds"] = time.time() - t0
        return res
    except Exception as exc:  # internal error of the checker: never a violation
        res["status"] = "error"
        res["reason"] = "".join(traceback.format_exception_only(type(exc), exc)).strip()
        res["traceback"] = traceback.format_exc()
        res["seconds"] = time.time() - t0
        return res
    res["gen_seconds"] = round(time.time() - t0, 2)
    discharge_all(eng, res, keep_models, shard)
    res["paths"] = eng.stats["paths"]
    res["pruned"] = eng.stats["pruned"]
    res["seconds"] = time.time() - t0
    return res


def verify_lemma(lemma_id: str, repo_root=None, keep_models=False):
    t0 = time.time()
    reg = load_contracts()
    repo = Repo(repo_root)
    eng = FullEngine(repo, reg)
    res = {"function": lemma_id, "status": "ok", "obligations": [], "sha256": None, "file": None, "lemma": True}
    fn = None
    for (lid, props, f) in reg.lemmas:
        if lid == lemma_id:
            fn = f
    try:
        if fn is None:
            raise Unsupported(f"unknown lemma {lemma_id}")
        fn(eng)
    except Unsupported as exc:
        res["status"] = "undecided"
        res["reason"] = f"unsupported: {exc}"
        res["seconds"] = time.time() - t0
        return res
    except Exception as exc:
        res["status"] = "error"
        res["reason"] = "".join(traceback.format_exception_only(type(exc), exc)).strip()
        res["traceback"] = traceback.format_exc()
        res["seconds"] = time.time() - t0
        return res
    discharge_all(eng, res, keep_models)
    res["seconds"] = time.time() - t0
    return res


def discharge_all(eng, res, keep_models=False, shard=None):
    base = eng.base_facts()
    for idx, ob in enumerate(eng.obligs):
        if shard is not None and idx % shard[1] != shard[0]:
            continue
        try:
            r = solve.discharge(ob, eng.ct.axioms_for, base)
        except Exception as exc:
            res["obligations"].append({"id": ob.oid, "kind": ob.kind, "status": "unknown", "backend": "-",
                                       "seconds": 0.0, "reason": f"solver error: {exc}", "meta": ob.meta})
            continue
        entry = {"id": ob.oid, "kind": ob.kind, "status": r.status, "backend": r.backend, "seconds": round(r.seconds, 4),
                 "ninst": r.ninst, "meta": ob.meta}
        if r.reason:
            entry["reason"] = r.reason
        if r.status == "refuted":
            entry["model"] = model_summary(r.model, ob)
            if keep_models:
                entry["_model"] = r.model
                entry["_ob"] = ob
        res["obligations"].append(entry)
    res["paths"] = eng.stats["paths"]
    res["pruned"] = eng.stats["pruned"]


def print_result(res, verbose=False):
    obs = res["obligations"]
    cnt = {}
    for o in obs:
        cnt[o["status"]] = cnt.get(o["status"], 0) + 1
    print(f"{res['function']:45s} {res['status']:9s} {cnt} paths={res.get('paths')} {res.get('seconds', 0):.2f}s"
          + (f"  [{res.get('reason')}]" if res.get("reason") else ""))
    for o in obs:
        if verbose or o["status"] not in ("proved", "covered"):
            print(f"    {o['status']:8s} {o['id']}  ({o['backend']}, {o['seconds']}s) {o['meta'].get('clause', '')} trail={o['meta'].get('trail', '')}")
            if o["status"] == "refuted" and o.get("model") and verbose:
                for k, v in list(o["model"].items())[:40]:
                    print(f"        {k} = {v}")
    if res.get("traceback"):
        print(res["traceback"])
