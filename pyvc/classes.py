"""Class constants and the (open) subclass relation."""
from __future__ import annotations
import z3
from . import terms as T

# classes of the repository that the contracts talk about
STRUCT = ["BaseObject", "Vertex", "Link", "TwoEndedLink", "DirectedEdge", "UnDirectedEdge", "Universe", "UniverseLaws"]
DISJOINT = [("Vertex", "Link"), ("Vertex", "UniverseLaws"), ("Link", "UniverseLaws"), ("DirectedEdge", "UnDirectedEdge")]


class ClassTable:
    def __init__(self, repo):
        self.repo = repo
        self.const = {}
        for name in STRUCT:
            self.const[name] = z3.Const(f"class:{name}", T.Cls)
        self.NoneType = z3.Const("class:NoneType", T.Cls)
        self.Other = z3.Const("class:<non-edgegraph>", T.Cls)   # callbacks, user values, containers

    def c(self, name):
        if name not in self.const:
            self.const[name] = z3.Const(f"class:{name}", T.Cls)
        return self.const[name]

    def is_a(self, ref, name):
        return T.sub(T.cls_of(ref), self.c(name))

    def known(self, term):
        for n, k in self.const.items():
            if k.eq(term):
                return n
        return None

    def table(self, a: str, b: str) -> bool:
        return self.repo.is_subclass(a, b) if a in self.repo.classes else (a == b)

    def ground_facts(self):
        if getattr(self, "_gf", None) is not None and self._gf_n == len(self.const):
            return self._gf
        out = [z3.Distinct(*self.const.values(), self.NoneType, self.Other)]
        out.append(T.cls_of(T.NONE) == self.NoneType)
        out.append(T.cls_of(T.QA_INVALID) == self.Other)
        out.append(z3.Distinct(T.QA_INVALID, T.NONE, T.PY_TRUE, T.PY_FALSE))
        out.append(T.cls_of(T.PY_TRUE) == self.Other)
        out.append(T.cls_of(T.PY_FALSE) == self.Other)
        # the subclass relation on the known class constants is the repository's class table
        names = list(self.const)
        for a in names:
            for b in names:
                out.append(T.sub(self.const[a], self.const[b]) == z3.BoolVal(self.table(a, b)))
        for k in (self.NoneType, self.Other):
            for b in names:
                out.append(z3.Not(T.sub(k, self.const[b])))
        self._gf, self._gf_n = out, len(self.const)
        return out

    def axioms_for(self, c):
        """instances of the class-hierarchy axioms for a class term c that is not a known constant (open world below
        every repository class); exact-class facts (cls(x) == K) need none: congruence + ground_facts decide them"""
        cache = self.__dict__.setdefault("_axcache", {})
        hit = cache.get(c.get_id())
        if hit is not None:
            return hit[1]
        out = []
        if self.known(c) is None and not c.eq(self.NoneType) and not c.eq(self.Other):
            names = [n for n in self.const if n in self.repo.classes]
            for n in names:
                K = self.const[n]
                for b in self.repo.classes[n].bases:
                    if b in self.const:
                        out.append(z3.Implies(T.sub(c, K), T.sub(c, self.const[b])))
            for a, b in DISJOINT:
                out.append(z3.Not(z3.And(T.sub(c, self.const[a]), T.sub(c, self.const[b]))))
        cache[c.get_id()] = (c, out)
        return out
