"""Class constants and the (open) subclass relation."""
from __future__ import annotations
import z3
from . import terms as T

# classes of the repository that the contracts talk about
STRUCT = ["BaseObject", "Vertex", "Link", "TwoEndedLink", "DirectedEdge", "UnDirectedEdge", "Universe", "UniverseLaws"]
DISJOINT = [("Vertex", "Link"), ("Vertex", "UniverseLaws"), ("Link", "UniverseLaws"), ("DirectedEdge", "UnDirectedEdge")]


class ClassTable:
    def __init__(self, repo):
        self.repo = repo
        self.const = {}
        for name in STRUCT:
            self.const[name] = z3.Const(f"class:{name}", T.Cls)
        self.NoneType = z3.Const("class:NoneType", T.Cls)
        self.Other = z3.Const("class:<non-edgegraph>", T.Cls)   # callbacks, user values, containers

    def c(self, name):
        if name not in self.const:
            self.const[name] = z3.Const(f"class:{name}", T.Cls)
        return self.const[name]

    def is_a(self, ref, name):
        return T.sub(T.cls_of(ref), self.c(name))

    def known(self, term):
        for n, k in self.const.items():
            if k.eq(term):
                return n
        return None

    def table(self, a: str, b: str) -> bool:
        return self.repo.is_subclass(a, b) if a in self.repo.classes else (a == b)

    def ground_facts(self):
        out = [z3.Distinct(*self.const.values(), self.NoneType, self.Other)]
        out.append(T.cls_of(T.NONE) == self.NoneType)
        out.append(T.cls_of(T.QA_INVALID) == self.Other)
        out.append(T.QA_INVALID != T.NONE)
        return out

    def axioms_for(self, c):
        """instances of the class-hierarchy axioms for the class term c"""
        out = [T.sub(c, c)]
        kn = self.known(c)
        names = [n for n in self.const if n in self.repo.classes]
        if kn is not None or c.eq(self.NoneType) or c.eq(self.Other):
            for n in names:
                out.append(T.sub(c, self.const[n]) == z3.BoolVal(self.table(kn, n) if kn else False))
            return out
        for n in names:
            K = self.const[n]
            for b in self.repo.classes[n].bases:
                if b in self.const:
                    out.append(z3.Implies(T.sub(c, K), T.sub(c, self.const[b])))       # transitivity through the table
            # exact-class tests: c == K decides every sub(c, .)
            for n2 in names:
                out.append(z3.Implies(c == K, T.sub(c, self.const[n2]) == z3.BoolVal(self.table(n, n2))))
        for a, b in DISJOINT:
            out.append(z3.Not(z3.And(T.sub(c, self.const[a]), T.sub(c, self.const[b]))))
        for k in (self.NoneType, self.Other):
            for n in names:
                out.append(z3.Implies(c == k, z3.Not(T.sub(c, self.const[n]))))
        return out
