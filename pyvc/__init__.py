"""pyvc: contract-based verification-condition generator for the edgegraph sources (see /verif/DESIGN.md)."""
