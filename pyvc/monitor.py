"""Run-time interpretation of the *same* contracts against the real code (bounded stand-in and replay engine).

A call of a function under contract is checked like this: snapshot the concrete heap (every edgegraph object reachable
from the roots), turn it into ground facts about the uninterpreted heap functions of a `State("pre")`, instantiate the
contract (the very same Python spec function used for the proofs) on constants standing for the real arguments, run the
real function, snapshot again and ask z3 whether the observed post-state / result / exception satisfies the outcome
whose condition holds.  There is no second specification.  What this covers is bounded by the histories explored; it is
labelled `bounded` in the evidence and never counted as proved.
"""
from __future__ import annotations
import importlib
import itertools
import sys
import types
import z3
from . import terms as T
from .terms import Ref, Int, Bool, Str, NONE
from .state import State, FIELD_SORTS
from .values import *
from .contracts import REG, Contract, Spec, SpecCtx, Schema, Param
from .classes import ClassTable
from .extract import Repo

SEQ_ATTRS = ("_links", "_vertices", "_universes")
SCALAR_ATTRS = ("_laws", "_applies_to", "_edge_whitelist", "_mixed_links", "_cycles", "_multipath", "_multiverse")
MEMO = "_Vertex__qa_nb_cache"


class ContractViolation(Exception):
    def __init__(self, qualname, what, detail=""):
        super().__init__(f"{qualname}: {what} {detail}")
        self.qualname, self.what, self.detail = qualname, what, detail


class World:
    """mapping between concrete Python objects and Ref constants"""

    def __init__(self, eg, ct: ClassTable):
        for k in (NONE, T.QA_INVALID, T.PY_TRUE, T.PY_FALSE):
            T.CONCRETE[k.get_id()] = k
        self.eg = eg                      # dict of edgegraph classes/modules
        self.ct = ct
        self.by_id = {}
        self.objs = []                    # (obj, const)
        self.class_consts = {}

    def ref(self, obj):
        if obj is None:
            return NONE
        if obj is True:
            return T.PY_TRUE
        if obj is False:
            return T.PY_FALSE
        if obj is self.eg["Vertex"]._QA_NB_INVALID:
            return T.QA_INVALID
        k = id(obj)
        if k not in self.by_id:
            c = z3.Const(f"o{len(self.objs)}:{type(obj).__name__}", Ref)
            T.CONCRETE[c.get_id()] = c
            self.by_id[k] = c
            self.objs.append((obj, c))
        return self.by_id[k]

    def known(self, obj):
        return obj is None or id(obj) in self.by_id

    def seq(self, items):
        return T.seq_of(*[self.ref(x) for x in items])

    def cls_const(self, cls):
        name = cls.__name__
        if name in self.ct.const and self.eg.get(name) is cls:
            return self.ct.const[name]
        if cls not in self.class_consts:
            self.class_consts[cls] = z3.Const(f"class:{cls.__module__}.{cls.__qualname__}", T.Cls)
        return self.class_consts[cls]

    def is_eg(self, obj):
        return isinstance(obj, self.eg["BaseObject"])


def reachable(world: World, roots):
    """edgegraph objects reachable from the roots through the private fields (and memo values)"""
    seen = {}
    stack = list(roots)
    while stack:
        o = stack.pop()
        if o is None or id(o) in seen or not world.is_eg(o):
            continue
        seen[id(o)] = o
        d = o.__dict__
        for a in SEQ_ATTRS:
            stack.extend(x for x in d.get(a, ()) if x is not None)
        for a in ("_laws", "_applies_to"):
            if d.get(a) is not None:
                stack.append(d[a])
        for lst in d.get(MEMO, {}).values():
            stack.extend(lst)
    return list(seen.values())


class Snapshot:
    def __init__(self, world: World, roots, extra_lists=()):
        self.world = world
        self.objs = reachable(world, roots)
        self.fields = {}      # (fieldname, addr tuple of python keys) -> python value (lists copied)
        self.memo = {}        # id(v) -> {key: list object}
        self.lists = {}       # id(list) -> (list obj, copy)
        self.dyn = {}         # id(o) -> {name: value}
        self.caching = bool(world.eg["Vertex"].NEIGHBOR_CACHING)
        self.stats = set(world.eg["Vertex"]._CACHE_STATS.keys())
        for o in self.objs:
            d = o.__dict__
            for a in SEQ_ATTRS:
                if a in d:
                    self.fields[(a, id(o))] = list(d[a])
            for a in SCALAR_ATTRS:
                if a in d:
                    self.fields[(a, id(o))] = d[a]
            if "_uid" in d:
                self.fields[("_uid", id(o))] = d["_uid"]
            if MEMO in d:
                self.memo[id(o)] = dict(d[MEMO])
                for lst in d[MEMO].values():
                    self.lists[id(lst)] = (lst, list(lst))
            self.dyn[id(o)] = {k: v for k, v in d.items() if not k.startswith("_") or k.startswith("__make_pyvis")}
        for lst in extra_lists:
            if isinstance(lst, list):
                self.lists[id(lst)] = (lst, list(lst))
        self.by_id = {id(o): o for o in self.objs}


def memo_key_terms(world, key):
    d, u, f = key
    return z3.IntVal(int(d)), z3.IntVal(int(u)), world.ref(f)


def state_facts(world: World, snap: Snapshot, st: State, memo_keys, dyn_names, uids, all_objs, fresh_self=None):
    """make the heap functions of `st` take the snapshot's values at every known object (explicit writes of literals,
    so that the smart constructors of pyvc.terms evaluate structurally); returns residual ground facts"""
    fs = []
    for o in all_objs:
        r = world.ref(o)
        if id(o) not in snap.by_id:
            if o is fresh_self:
                for a in SEQ_ATTRS:
                    st.set_base(a, r, T.EMPTY())
            continue
        for a in SEQ_ATTRS:
            v = snap.fields.get((a, id(o)))
            if v is not None:
                st.set_base(a, r, world.seq(v))
            elif o is fresh_self:
                st.set_base(a, r, T.EMPTY())
        for a in SCALAR_ATTRS:
            if (a, id(o)) in snap.fields:
                st.set_base(a, r, world.ref(snap.fields[(a, id(o))]))
        if ("_uid", id(o)) in snap.fields and isinstance(snap.fields[("_uid", id(o))], int):
            st.set_base("_uid", r, z3.IntVal(snap.fields[("_uid", id(o))]))
        mm = snap.memo.get(id(o), {})
        for key in memo_keys:
            d, u, f = memo_key_terms(world, key)
            if key in mm:
                st.set_base("memo_has", (r, d, u, f), z3.BoolVal(True))
                st.set_base("memo_val", (r, d, u, f), world.ref(mm[key]))
            else:
                st.set_base("memo_has", (r, d, u, f), z3.BoolVal(False))
        dd = snap.dyn.get(id(o), {})
        for n in dyn_names:
            if n in dd:
                st.set_base("dyn_has", (r, z3.StringVal(n)), z3.BoolVal(True))
                st.set_base("dyn_val", (r, z3.StringVal(n)), box(world, dd[n]))
            else:
                st.set_base("dyn_has", (r, z3.StringVal(n)), z3.BoolVal(False))
    for (lst, content) in snap.lists.values():
        st.set_base("elems", world.ref(lst), world.seq(content))
    st.defaults = {"memo_has": z3.BoolVal(False), "dyn_has": z3.BoolVal(False), "stats_has": z3.BoolVal(False)}
    st.set_base("CACHING", (), z3.BoolVal(snap.caching))
    for u in uids:
        st.set_base("stats_has", (z3.IntVal(u),), z3.BoolVal(u in snap.stats))
    return fs


def box(world, v):
    from .ops import int_box, str_box
    if isinstance(v, bool) or v is None:
        return world.ref(v)
    if isinstance(v, int):
        return int_box(z3.IntVal(v))
    if isinstance(v, str):
        return str_box(z3.StringVal(v))
    return world.ref(v)


def class_facts(world: World):
    ct = world.ct
    fs = list(ct.ground_facts())
    names = [n for n in ct.const if n in world.eg and isinstance(world.eg[n], type)]
    consts = []
    for (o, c) in world.objs:
        if isinstance(o, (list, set, dict, tuple)) or not world.is_eg(o):
            fs.append(T.cls_of(c) == ct.Other)
        else:
            fs.append(T.cls_of(c) == world.cls_const(type(o)))
        consts.append(c)
    for cls, k in world.class_consts.items():
        for n in names:
            fs.append(T.sub(k, ct.const[n]) == z3.BoolVal(issubclass(cls, world.eg[n])))
        fs.append(T.sub(k, k))
    if len(consts) > 1:
        fs.append(z3.Distinct(*consts, NONE, T.QA_INVALID, T.PY_TRUE, T.PY_FALSE))
    allk = list(world.class_consts.values())
    if allk:
        fs.append(z3.Distinct(*allk, *ct.const.values(), ct.NoneType, ct.Other))
    return fs


class Monitor:
    """wraps the functions under contract of the imported edgegraph package"""

    def __init__(self, repo_root="/repo", reg=REG, only=None, roots=None):
        self.repo = Repo(repo_root)
        self.reg = reg
        self.ct = ClassTable(self.repo)
        self.only = only
        self.roots = roots if roots is not None else []
        self.stats = {"calls": 0, "checked": 0, "skipped_pre": 0, "violations": 0, "by_function": {}}
        self.depth = 0
        self.enabled = True
        self.violations = []
        self.patched = []
        self.eg = None
        self.raise_on_violation = True
        self.trace = None

    # -- patching -----------------------------------------------------------------------------------------------
    def install(self):
        if self.repo.root not in sys.path:
            sys.path.insert(0, self.repo.root)
        vsp = "/venv/lib/python3.12/site-packages"
        import os
        if os.path.isdir(vsp) and vsp not in sys.path:
            sys.path.append(vsp)      # pure-python third-party packages of the repository's own environment (pyvis, dill)
        for m in list(sys.modules):
            if m == "edgegraph" or m.startswith("edgegraph."):
                del sys.modules[m]
        st = importlib.import_module("edgegraph.structure")
        self.eg = {n: getattr(st, n) for n in ("BaseObject", "Vertex", "Link", "TwoEndedLink", "DirectedEdge", "UnDirectedEdge", "Universe")}
        self.eg["UniverseLaws"] = importlib.import_module("edgegraph.structure.universe").UniverseLaws
        for q, c in self.reg.contracts.items():
            if self.only is not None and q not in self.only:
                continue
            fi = self.repo.functions.get(q)
            if fi is None or "#" in q:
                continue
            if q == "BaseObject.__getitem__":
                continue        # attribute lookup through the class (properties, class attributes) is an uninterpreted function of
                                # the contract: neither its outcome conditions nor its result can be judged at run time
            if q.startswith(("singleton.", "TrueSingleton.", "_SemiSingleton.")):
                continue        # registries keyed by argument tuples: compared with a dictionary reference model by the explorer
            if q.startswith(("breadthfirst.", "depthfirst.")) and not q.endswith("_df_preflight_checks"):
                continue        # their contracts speak about existential ghosts (machine step counts): not evaluable at run time;
                                # the explorer compares these functions with the canonical machines directly
            try:
                mod = importlib.import_module(fi.module)
            except ImportError:
                continue
            if fi.cls:
                cls = getattr(mod, fi.cls, None)
                if cls is None:
                    continue
                name = fi.node.name
                if fi.kind == "getter":
                    prop = cls.__dict__[name]
                    newp = property(self.wrap(q, c, prop.fget), prop.fset, prop.fdel, prop.__doc__)
                    setattr(cls, name, newp)
                elif fi.kind == "setter":
                    prop = cls.__dict__[name]
                    newp = property(prop.fget, self.wrap(q, c, prop.fset), prop.fdel, prop.__doc__)
                    setattr(cls, name, newp)
                elif fi.kind == "method":
                    setattr(cls, name, self.wrap(q, c, cls.__dict__[name]))
            else:
                setattr(mod, fi.node.name, self.wrap(q, c, getattr(mod, fi.node.name)))
        return self

    def wrap(self, qualname, c: Contract, fn):
        mon = self
        import inspect
        sig = inspect.signature(fn)

        def wrapper(*args, **kwargs):
            if mon.trace is not None:
                mon.trace.add(qualname)
                return fn(*args, **kwargs)
            if not mon.enabled:
                return fn(*args, **kwargs)
            if c.oracle_op:
                mon.stats["checked"] += 1          # checked by the calling explorer operation's oracle
                return fn(*args, **kwargs)
            return mon.checked_call(qualname, c, fn, sig, args, kwargs)
        wrapper.__name__ = getattr(fn, "__name__", "wrapped")
        wrapper.__wrapped__ = fn
        return wrapper

    # -- one monitored call -------------------------------------------------------------------------------------------
    def checked_call(self, qualname, c: Contract, fn, sig, args, kwargs):
        self.stats["calls"] += 1
        try:
            ba = sig.bind(*args, **kwargs)
        except TypeError:
            return fn(*args, **kwargs)
        ba.apply_defaults()
        world = World(self.eg, self.ct)
        # materialise iterable arguments (a one-shot iterator stays one-shot for the real call)
        conc = dict(ba.arguments)
        varname = None
        for pname, prm_ in sig.parameters.items():
            if prm_.kind == prm_.VAR_POSITIONAL:
                varname = pname
        call_args = dict(conc)
        spec_args = {}
        ok = True
        extra_lists = []
        pnames = [p.name for p in c.params]
        if varname is not None:
            extra = list(conc.pop(varname))
            rest = [n for n in pnames if n not in conc]
            for n, v in zip(rest, extra):
                conc[n] = v
        for prm in c.params:
            if prm.name not in conc:
                ok = False
                break
            v = conc[prm.name]
            if prm.ty.startswith("iter") and v is not None:
                try:
                    items = list(v)
                except TypeError:
                    ok = False
                    break
                if not isinstance(v, (list, tuple, set, frozenset, dict)):
                    call_args[prm.name] = iter(items)          # keep one-shot behaviour
                conc[prm.name] = items if v is not None else None
                if isinstance(v, set):
                    conc[prm.name] = list(v)
        if not ok:
            return fn(*args, **kwargs)
        roots = list(self.roots)
        for v in conc.values():
            if isinstance(v, (list, tuple)):
                roots.extend(x for x in v if x is not None)
            else:
                roots.append(v)
        pre = Snapshot(world, roots)
        # the real call (nested monitored calls are checked on their own)
        self.depth += 1
        exc = None
        result = None
        try:
            if varname is not None:
                result = fn(*args, **kwargs)
            else:
                result = fn(**{k: call_args[k] for k in ba.arguments})
        except Exception as e:      # noqa
            exc = e
        finally:
            self.depth -= 1
        if isinstance(exc, ContractViolation):
            raise exc
        roots2 = list(roots)
        if result is not None:
            if isinstance(result, (list, tuple, set)):
                roots2.extend(x for x in result if x is not None and world.is_eg(x))
                extra_lists.append(result)
            else:
                roots2.append(result)
        roots2.extend(pre.objs)
        post = Snapshot(world, roots2, extra_lists)
        verdict = self.evaluate(qualname, c, world, conc, pre, post, result, exc)
        self.stats["by_function"][qualname] = self.stats["by_function"].get(qualname, 0) + (1 if verdict else 0)
        if exc is not None:
            raise exc
        return result

    def to_value(self, world: World, prm: Param, v):
        ty = prm.ty
        if ty == "int":
            return VInt(z3.IntVal(0 if v is None else int(v)))
        if ty == "bool":
            return VBool(z3.BoolVal(bool(v)))
        if ty == "str":
            return VStr(z3.StringVal(v))
        if ty == "attrs":
            return VAttrs(world.ref(v))
        if ty.startswith("iter"):
            if v is None:
                return VIter(T.EMPTY(), None, z3.BoolVal(True))
            it = VIter(world.seq(v), None, z3.BoolVal(False))
            return it
        if ty.startswith("cls<="):
            return VCls(world.cls_const(v), None, ty[5:])
        if ty.startswith("cb:"):
            return VCallback(world.ref(v), ty[3:])
        if ty.startswith("list:"):
            return VList(world.ref(v), None)
        if ty == "any":
            return VRef(world.ref(v), None, "opaque")
        return VRef(world.ref(v), ty.rstrip("?"), "obj")

    def attrs_facts(self, world, a, names):
        """ground definition of the ad_* functions for a concrete attributes dictionary"""
        fs = []
        r = world.ref(a)
        fs.append(T.ad_isdict(r) == z3.BoolVal(isinstance(a, dict)))
        if isinstance(a, dict):
            items = list(a.items())
            fs.append(T.ad_len(r) == len(items))
            for i, (k, v) in enumerate(items):
                if isinstance(k, str):
                    fs.append(T.ad_key(r, z3.IntVal(i)) == z3.StringVal(k))
                fs.append(T.ad_val(r, z3.IntVal(i)) == box(world, v))
            for n in names:
                has, val = False, None
                nm = z3.StringVal(n)
                fs.append(z3.Not(T.ad_has_n(r, z3.IntVal(0), nm)))
                for i, (k, v) in enumerate(items):
                    if k == n:
                        has, val = True, v
                    fs.append(T.ad_has_n(r, z3.IntVal(i + 1), nm) == z3.BoolVal(has))
                    if has:
                        fs.append(T.ad_val_n(r, z3.IntVal(i + 1), nm) == box(world, val))
        return fs

    def evaluate(self, qualname, c, world: World, conc, pre: Snapshot, post: Snapshot, result, exc):
        # universes of keys
        all_objs = list({id(o): o for o in pre.objs + post.objs}.values())
        for o in all_objs:
            world.ref(o)
        memo_keys = set()
        for s in (pre, post):
            for mm in s.memo.values():
                memo_keys.update(mm.keys())
        dyn_names = set()
        for s in (pre, post):
            for dd in s.dyn.values():
                dyn_names.update(dd.keys())
        for v in conc.values():
            if isinstance(v, dict):
                dyn_names.update(k for k in v if isinstance(k, str))
        uids = {s.fields[k] for s in (pre, post) for k in s.fields if k[0] == "_uid" and isinstance(s.fields[k], int)}
        S = State("pre")
        args = {}
        try:
            for prm in c.params:
                args[prm.name] = self.to_value(world, prm, conc[prm.name])
        except Exception:
            self.stats["skipped_pre"] += 1
            return False
        for (lst, _cp) in list(pre.lists.values()) + list(post.lists.values()):
            world.ref(lst)
        if isinstance(result, (list, set)):
            world.ref(result)
        fresh_self = conc.get("self") if qualname.endswith(".__init__") else None
        facts = state_facts(world, pre, S, memo_keys, dyn_names, uids, all_objs, fresh_self)
        for v in conc.values():
            if isinstance(v, dict) or (v is not None and any(p.ty == "attrs" and conc.get(p.name) is v for p in c.params)):
                facts += self.attrs_facts(world, v, dyn_names)
        ctx = SpecCtx(S.copy(), args, lambda cn, name: T.fresh("spec_" + name, Ref), self.repo, "monitor")
        ctx.ct = self.ct
        ctx.engine = self
        try:
            c.fn(ctx)
        except Exception as e:
            raise
        spec = ctx.spec
        facts += class_facts(world)
        facts += spec.defs
        U = [cst for (_o, cst) in world.objs] + [NONE]
        solver = z3.Solver()
        solver.set("timeout", 20000)
        solver.add(*facts)

        cb_seen = set()
        rev = {cst.get_id(): obj for (obj, cst) in world.objs}

        def cb_facts(f):
            """truth values of the user callbacks at the concrete arguments mentioned by f (A7: pure, deterministic)"""
            out = []
            for t in T.subterms([f]):
                if z3.is_app(t) and t.num_args() == 1 and t.decl().name() == "truthy":
                    a0 = z3.simplify(t.arg(0))
                    key = ("truthy", a0.get_id())
                    if key not in cb_seen and a0.get_id() in rev:
                        cb_seen.add(key)
                        was = self.enabled
                        self.enabled = False
                        try:
                            out.append(T.truthy(a0) == z3.BoolVal(bool(rev[a0.get_id()])))      # bool(obj) of a concrete object
                        except Exception:
                            pass
                        finally:
                            self.enabled = was
                    continue
                if not z3.is_app(t) or t.num_args() < 2:
                    continue
                nm = t.decl().name()
                if nm not in ("cb1", "cb2", "cb1_raises", "cb2_raises", "cbv1"):
                    continue
                key = (nm.replace("_raises", ""),) + tuple(a.get_id() for a in t.children())
                if key in cb_seen:
                    continue
                argsz = [z3.simplify(a) for a in t.children()]
                if not all(a.get_id() in rev or a.eq(NONE) for a in argsz):
                    continue
                cb_seen.add(key)
                fn_ = rev.get(argsz[0].get_id())
                if fn_ is None or not callable(fn_):
                    continue
                pyargs = [rev.get(a.get_id()) for a in argsz[1:]]
                was = self.enabled
                self.enabled = False
                try:
                    val = fn_(*pyargs)
                    raised = False
                except Exception:
                    val, raised = None, True
                finally:
                    self.enabled = was
                if len(pyargs) == 1:
                    out.append(T.cb1_raises(*argsz) == z3.BoolVal(raised))
                    if not raised:
                        out.append(T.cb1(*argsz) == z3.BoolVal(bool(val)))
                        out.append(T.cbv1(*argsz) == box(world, val))
                else:
                    out.append(T.cb2_raises(*argsz) == z3.BoolVal(raised))
                    if not raised:
                        out.append(T.cb2(*argsz) == z3.BoolVal(bool(val)))
            return out

        if spec.defs:
            solver.add(*cb_facts(z3.And(*spec.defs)))

        def holds(f):
            extra = cb_facts(f)
            if extra:
                solver.add(*extra)
            solver.push()
            solver.add(z3.Not(f))
            r = solver.check()
            solver.pop()
            return r == z3.unsat

        OBJ = [cst for (_o, cst) in world.objs]

        def inst(sch: Schema, snap_for_trigger=None):
            if sch.trigger and sch.trigger != ("product",):
                tuples = []
                if len(sch.sorts) >= 4 and sch.sorts[1].eq(Int):
                    base = [(world.ref(v),) + memo_key_terms(world, k) for v in all_objs for k in memo_keys]
                    rest = len(sch.sorts) - 4
                    tuples = [b + r_ for b in base for r_ in itertools.product(OBJ, repeat=rest)]
                elif len(sch.sorts) == 2 and sch.sorts[1].eq(Str):
                    tuples = [(world.ref(v), z3.StringVal(n)) for v in all_objs for n in dyn_names]
                elif len(sch.sorts) == 1 and sch.sorts[0].eq(Int):
                    tuples = [(z3.IntVal(u),) for u in uids]
                elif len(sch.sorts) == 1 and sch.sorts[0].eq(Ref):
                    snap = snap_for_trigger or post
                    tuples = [(world.ref(v),) for v in all_objs if any((fn_, id(v)) in snap.fields for fn_ in sch.trigger)]
                return [sch.fn(*t) for t in tuples]
            return [sch.fn(*t) for t in itertools.product(U, repeat=len(sch.sorts))]

        # preconditions: outside the contract's domain nothing is claimed
        for (_lbl, r) in spec.requires:
            if not holds(r):
                self.stats["skipped_pre"] += 1
                return False
        def in_domain():
            # quantified preconditions (global invariants) are only evaluated when a check fails: outside the
            # contract's domain nothing is claimed
            allinst = []
            for sch in spec.assume_schemas:
                allinst.extend(f for f in inst(sch, pre) if not z3.is_true(f))
            return (not allinst) or holds(z3.And(*allinst))
        self._in_domain = in_domain
        self.stats["checked"] += 1
        applicable = [o for o in spec.outcomes if holds(o.cond)]
        if len(applicable) == 0 and any(not holds(z3.Not(o.cond)) for o in spec.outcomes):
            # some outcome condition is neither provable nor refutable from the concrete facts (it mentions an uninterpreted
            # class-level predicate such as "the class provides this attribute"): the call cannot be judged at run time
            self.stats["checked"] -= 1
            self.stats["skipped_pre"] += 1
            return False
        if len(applicable) != 1:
            return self.fail(qualname, f"{len(applicable)} outcomes apply (contract conditions must partition)", conc)
        o = applicable[0]
        any_exit = (o.exc == "*")
        if not any_exit and (o.exc is None) != (exc is None):
            return self.fail(qualname, f"contract outcome '{o.label or o.exc or 'normal'}' expected "
                             f"{'an exception ' + str(o.exc) if o.exc else 'normal return'}, observed "
                             f"{type(exc).__name__ if exc else 'normal return'}", conc)
        if o.exc is not None and not any_exit:
            from .engine import exc_matches
            oexc = (o.exc,) if isinstance(o.exc, str) else tuple(o.exc)
            if "UserExc" in oexc and getattr(exc, "_pyvc_user", False):
                pass
            elif not any(exc_matches(k.__name__, e_) for k in type(exc).__mro__ for e_ in oexc):
                return self.fail(qualname, f"expected {o.exc}, observed {type(exc).__name__}", conc)
        # fresh objects of the spec <-> objects that appeared
        subst = []
        new_objs = [x for x in post.objs if id(x) not in pre.by_id]
        used = set()
        for (sr, scls) in o.fresh:
            target = None
            if o.result is not None and not isinstance(o.result, VOpaque):
                rr = o.result.term if hasattr(o.result, "term") else getattr(o.result, "ref", None)
                if rr is not None and rr.eq(sr) and result is not None:
                    target = world.ref(result)
            if target is None:
                for x in new_objs:
                    if id(x) not in used and not (isinstance(scls, str) and scls == "<container>"):
                        target = world.ref(x)
                        used.add(id(x))
                        break
            if target is None and isinstance(scls, str) and scls == "<container>":
                for (lst, _cp) in post.lists.values():
                    if id(lst) not in pre.lists and id(lst) not in used and lst is not result:
                        target = world.ref(lst)
                        used.add(id(lst))
                        break
                if target is None:
                    target = T.fresh("unobservable_container", Ref)     # garbage: nothing observable refers to it
            if target is None:
                return self.fail(qualname, "the contract promises a fresh object, none appeared", conc)
            subst.append((sr, target))

        def S_(t):
            return z3.substitute(t, *subst) if subst else t
        # result
        if any_exit:
            pass
        elif o.exc is None and o.result is not None and not isinstance(o.result, VOpaque):
            exp = o.result
            if isinstance(exp, VRef):
                good = holds(S_(exp.term) == world.ref(result))
            elif isinstance(exp, VInt):
                good = isinstance(result, int) and holds(S_(exp.term) == z3.IntVal(result))
            elif isinstance(exp, VBool):
                good = holds(S_(exp.term) == z3.BoolVal(bool(result)))
            elif isinstance(exp, VSeq):
                good = isinstance(result, (tuple, list)) and holds(S_(exp.term) == world.seq(result))
            elif isinstance(exp, (VList, VSet, VDict)):
                good = holds(S_(exp.ref) == world.ref(result))
            else:
                good = True
            if not good:
                return self.fail(qualname, "result differs from the contract", conc, f"observed {result!r}")
            if isinstance(exp, VSet) and isinstance(result, (set, frozenset)):
                # the contents of a returned set: membership of every known object as the contract's post-state says
                rr = world.ref(result)
                for obj in all_objs:
                    want = S_(o.post.read("setmem", rr, world.ref(obj)))
                    if not holds(want == z3.BoolVal(any(obj is y for y in result))):
                        return self.fail(qualname, f"membership of {describe(obj)} in the returned set differs from the contract", conc,
                                         f"observed {any(obj is y for y in result)}")
        elif o.exc is None and o.result is None and result is not None:
            return self.fail(qualname, "contract says the call returns None", conc, f"observed {result!r}")
        # post-state
        P = State("post")
        pf = state_facts(world, post, P, memo_keys, dyn_names, uids, all_objs)
        solver.add(*pf)
        loose = {l.fieldname for l in o.loose}
        new_ids = {id(x) for x in new_objs}
        for obj in all_objs:
            r = world.ref(obj)
            for a in SEQ_ATTRS + SCALAR_ATTRS:
                if a in loose or (a, id(obj)) not in post.fields:
                    continue
                if id(obj) not in pre.by_id and not any(t.eq(r) for (_s, t) in subst) and a not in ("_vertices", "_links", "_universes"):
                    continue
                if (a, id(obj)) not in pre.fields and id(obj) in pre.by_id:
                    continue
                if o.exc is not None and qualname.endswith("__init__") and obj is conc.get("self"):
                    continue
                if not holds(S_(o.post.read(a, r)) == P.read(a, r)):
                    return self.fail(qualname, f"post-state of {a} at {describe(obj)} differs from the contract", conc,
                                     f"expected {z3.simplify(S_(o.post.read(a, r)))} observed {P.read(a, r)}")
            if "dyn_has" not in loose and not (o.exc is not None and qualname.endswith("__init__") and obj is conc.get("self")):
                for n in dyn_names:
                    nm = z3.StringVal(n)
                    if not holds(S_(o.post.read("dyn_has", r, nm)) == P.read("dyn_has", r, nm)):
                        return self.fail(qualname, f"attribute set of {describe(obj)} differs from the contract ({n})", conc)
                    if n in post.dyn.get(id(obj), {}) and not holds(S_(o.post.read("dyn_val", r, nm)) == P.read("dyn_val", r, nm)):
                        return self.fail(qualname, f"attribute {n} of {describe(obj)} differs from the contract", conc)
            if "memo_has" not in loose:
                for key in memo_keys:
                    d, u, f = memo_key_terms(world, key)
                    if not holds(S_(o.post.read("memo_has", r, d, u, f)) == P.read("memo_has", r, d, u, f)):
                        return self.fail(qualname, f"neighbor memo of {describe(obj)} differs from the contract", conc)
        for (lst, _content) in post.lists.values():
            r = world.ref(lst)
            if "elems" in loose:
                continue
            if id(lst) in pre.lists or any(t.eq(r) for (_s, t) in subst):
                if not holds(S_(o.post.read("elems", r)) == P.read("elems", r)):
                    return self.fail(qualname, "contents of a list object differ from the contract", conc,
                                     f"expected {z3.simplify(S_(o.post.read('elems', r)))} observed {P.read('elems', r)}")
        for l in o.loose:
            fname_ = l.fieldname
            for sch in l.constraint(lambda *a, fname_=fname_: P.read(fname_, *a), lambda *a, fname_=fname_: S.read(fname_, *a), P):
                for f in inst(sch):
                    if not holds(S_(f)):
                        return self.fail(qualname, f"constraint {sch.name} on {l.fieldname} violated", conc, str(z3.simplify(S_(f)))[:300])
        if not spec.ghosts:        # facts over existential ghosts cannot be evaluated concretely
            for fct in o.facts:
                if not holds(S_(fct)):
                    return self.fail(qualname, "result fact violated", conc)
            for sch in o.fact_schemas:
                for f in inst(sch):
                    if not holds(S_(f)):
                        return self.fail(qualname, f"result fact {sch.name} violated", conc)
        return True

    def fail(self, qualname, what, conc, detail=""):
        dom = getattr(self, "_in_domain", None)
        self._in_domain = None
        if dom is not None and not dom():
            self.stats["skipped_pre"] += 1
            self.stats["checked"] -= 1
            return False
        self.stats["violations"] += 1
        v = ContractViolation(qualname, what, detail)
        self.violations.append(v)
        if self.raise_on_violation:
            raise v
        return False


def describe(o):
    return f"<{type(o).__name__}#{id(o) % 10000}>"
