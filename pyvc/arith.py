"""Scalar verification conditions for `randgraph` (C20): the sample-size arithmetic, discharged with z3 for every count, index,
random draw, connectivity and flag - no bound.

`randgraph` as a whole is outside the heap executor (pyvc/engine.py): a comprehension that allocates, the `random` module, floats.
What decides "returns without raising", "exactly `count` vertices" and "every vertex is the first end of a link" is, however, a
scalar computation in the body of one `for i in range(count)` loop followed by `random.sample(verts, k)` and one call of
`load_adj_dict` (whose contract is proved, C11).  This module re-reads the real function from the working tree on every run, walks
every path of that loop body with symbolic integers / reals, and emits

    division/<line>                    the divisor of a true division is not zero
    randint-range/<line>               random.randint(a, b) is called with a <= b            (ValueError otherwise)
    sample-size-nonnegative/<line>     0 <= k in random.sample(pop, k)                       (ValueError otherwise)
    sample-size-within-population      k <= len(pop)                                          (ValueError otherwise)
    first-end-guarantee                ensurelink truthy  =>  k >= 1  (with load_adj_dict's contract: a link whose v1 is verts[i])
    every-index-gets-its-entry         every feasible path through the body stores adj[verts[i]] exactly once (no skipped vertex:
                                       load_adj_dict makes a member of every key, so |members| = count needs all of them)
    vertex-count/<line>                verts = [Vertex(attributes={"i": i}) for i in range(n)] with n = count
    shape/materialised-with-...        syntactic: the function returns load_adj_dict(<the dictionary the loop filled>, linktype=edge)
                                       (any other shape of these two statements: undecided, not refuted)

Semantics assumed (reported): float arithmetic is real arithmetic (A3); `int(x)` truncates toward zero; `random.randint(a, b)` returns
an arbitrary integer in [a, b]; `random.sample(pop, k)` returns k distinct elements of pop for 0 <= k <= len(pop) and raises otherwise;
`connectivity` is None or a real in [0, 1]; `count >= 1` (the domain of the property statement).
A construct outside this scalar subset makes the function *undecided* here (bounded stand-in, as before), never a violation.
"""
from __future__ import annotations
import ast
import os
import time
import z3
from .extract import Repo, function_body

QN = "randgraph.randgraph"
NAME = QN + "#samplesize"


class Outside(Exception):
    pass


class _Path:
    def __init__(self, pc=None, env=None, stored=0, draws=None):
        self.pc = list(pc or [])
        self.env = dict(env or {})
        self.stored = stored
        self.draws = list(draws or [])

    def fork(self, cond):
        a = _Path(self.pc + [cond], self.env, self.stored, self.draws)
        b = _Path(self.pc + [z3.Not(cond)], self.env, self.stored, self.draws)
        return a, b


class SampleSizeVC:
    def __init__(self, fi):
        self.fi = fi
        self.obls = []          # (id, hyps, goal, clause, line)
        self.n = 0
        self.count = z3.Int("count")
        self.i = z3.Int("i")
        self.conn_in = z3.Real("connectivity")
        self.conn_none = z3.Bool("connectivity_is_None")
        self.ens = z3.Bool("ensurelink_truthy")
        self.pre = [self.count >= 1, z3.Or(self.conn_none, z3.And(self.conn_in >= 0, self.conn_in <= 1))]
        self.lens = {}          # list name -> symbolic length
        self.dict_name = None
        self.side = []          # (id, ok, clause, line)

    # ---- expressions ------------------------------------------------------------------------------------------------
    def oblige(self, oid, p, goal, clause, line):
        self.obls.append((f"{oid}/{line}/path{len(self.obls)}", list(self.pre) + list(p.pc), goal, clause, line))

    def num(self, e, p):
        if isinstance(e, ast.Constant) and isinstance(e.value, bool):
            raise Outside("boolean in arithmetic")
        if isinstance(e, ast.Constant) and isinstance(e.value, int):
            return z3.IntVal(e.value)
        if isinstance(e, ast.Constant) and isinstance(e.value, float):
            return z3.RealVal(repr(e.value))
        if isinstance(e, ast.Name):
            if e.id in p.env and p.env[e.id] is not None:
                return p.env[e.id]
            raise Outside(f"name {e.id} is not a scalar here")
        if isinstance(e, ast.UnaryOp) and isinstance(e.op, ast.USub):
            return -self.num(e.operand, p)
        if isinstance(e, ast.BinOp):
            a, b = self.num(e.left, p), self.num(e.right, p)
            if isinstance(e.op, ast.Add):
                return a + b
            if isinstance(e.op, ast.Sub):
                return a - b
            if isinstance(e.op, ast.Mult):
                return a * b
            if isinstance(e.op, ast.Div):
                self.oblige("division", p, b != 0, f"the divisor of `{ast.unparse(e)}` is not zero", e.lineno)
                p.pc.append(b != 0)
                return z3.ToReal(a) / z3.ToReal(b) if (a.is_int() or b.is_int()) else a / b
            raise Outside(f"operator {type(e.op).__name__}")
        if isinstance(e, ast.Call):
            fn = ast.unparse(e.func)
            if e.keywords:
                raise Outside(f"keyword arguments in {fn}")
            if fn in ("max", "min") and len(e.args) == 2:
                a, b = self.num(e.args[0], p), self.num(e.args[1], p)
                if a.is_int() != b.is_int():
                    a, b = z3.ToReal(a) if a.is_int() else a, z3.ToReal(b) if b.is_int() else b
                return z3.If(a >= b, a, b) if fn == "max" else z3.If(a <= b, a, b)
            if fn == "int" and len(e.args) == 1:
                a = self.num(e.args[0], p)
                if a.is_int():
                    return a
                return z3.If(a >= 0, z3.ToInt(a), -z3.ToInt(-a))        # truncation toward zero
            if fn == "len" and len(e.args) == 1 and isinstance(e.args[0], ast.Name) and e.args[0].id in self.lens:
                return self.lens[e.args[0].id]
            if fn == "random.randint" and len(e.args) == 2:
                a, b = self.num(e.args[0], p), self.num(e.args[1], p)
                if not (a.is_int() and b.is_int()):
                    raise Outside("randint of non-integers")
                self.oblige("randint-range", p, a <= b, f"`{ast.unparse(e)}`: empty range raises ValueError", e.lineno)
                self.n += 1
                r = z3.Int(f"draw{self.n}")
                p.pc += [a <= b, a <= r, r <= b]
                p.draws.append(r)
                return r
            raise Outside(f"call of {fn}")
        raise Outside(f"expression {ast.unparse(e)}")

    def cond(self, e, p):
        if isinstance(e, ast.Name) and e.id == "ensurelink":
            return self.ens
        if isinstance(e, ast.UnaryOp) and isinstance(e.op, ast.Not):
            return z3.Not(self.cond(e.operand, p))
        if isinstance(e, ast.BoolOp):
            # both operands are evaluated for their obligations only when they are pure scalar tests (no draw inside)
            parts = [self.cond(v, p) for v in e.values]
            return z3.And(*parts) if isinstance(e.op, ast.And) else z3.Or(*parts)
        if isinstance(e, ast.Compare) and len(e.ops) == 1:
            l, r = e.left, e.comparators[0]
            if isinstance(l, ast.Name) and l.id == "connectivity" and isinstance(r, ast.Constant) and r.value is None \
                    and p.env.get("connectivity") is self.conn_in:
                if isinstance(e.ops[0], ast.Is):
                    return self.conn_none
                if isinstance(e.ops[0], ast.IsNot):
                    return z3.Not(self.conn_none)
            a, b = self.num(l, p), self.num(r, p)
            if a.is_int() != b.is_int():
                a, b = z3.ToReal(a) if a.is_int() else a, z3.ToReal(b) if b.is_int() else b
            op = e.ops[0]
            table = {ast.Eq: a == b, ast.NotEq: a != b, ast.Lt: a < b, ast.LtE: a <= b, ast.Gt: a > b, ast.GtE: a >= b}
            for k, v in table.items():
                if isinstance(op, k):
                    return v
        raise Outside(f"condition {ast.unparse(e)}")

    # ---- statements -------------------------------------------------------------------------------------------------
    def block(self, body, paths, in_loop):
        """returns the paths that fall through; paths that `continue` are collected in self.done"""
        for st in body:
            nxt = []
            for p in paths:
                nxt.extend(self.stmt(st, p, in_loop))
            paths = nxt
        return paths

    def stmt(self, st, p, in_loop):
        if isinstance(st, ast.Pass) or (isinstance(st, ast.Expr) and isinstance(st.value, ast.Constant)):
            return [p]
        if isinstance(st, ast.If):
            c = self.cond(st.test, p)
            a, b = p.fork(c)
            return self.block(st.body, [a], in_loop) + self.block(st.orelse, [b], in_loop)
        if isinstance(st, ast.Continue) and in_loop:
            self.done.append(p)
            return []
        if isinstance(st, ast.Assign) and len(st.targets) == 1:
            tgt = st.targets[0]
            if isinstance(tgt, ast.Name):
                if in_loop and tgt.id in ("verts", self.dict_name, "count", "i"):
                    raise Outside(f"`{tgt.id}` re-bound inside the loop")
                p.env[tgt.id] = self.num(st.value, p)
                return [p]
            if in_loop and self.is_entry_store(tgt):
                self.sample(st.value, p)
                p.stored += 1
                return [p]
        raise Outside(f"statement `{ast.unparse(st).splitlines()[0]}` (line {st.lineno})")

    def is_entry_store(self, tgt):
        return (isinstance(tgt, ast.Subscript) and isinstance(tgt.value, ast.Name) and tgt.value.id == self.dict_name
                and ast.unparse(tgt.slice) == "verts[i]")

    def sample(self, e, p):
        if not (isinstance(e, ast.Call) and ast.unparse(e.func) == "random.sample" and len(e.args) == 2 and not e.keywords
                and isinstance(e.args[0], ast.Name) and e.args[0].id in self.lens):
            raise Outside(f"entry value `{ast.unparse(e)}` is not random.sample(<list>, k)")
        k = self.num(e.args[1], p)
        if not k.is_int():
            raise Outside("sample size is not an int")
        n = self.lens[e.args[0].id]
        self.oblige("sample-size-nonnegative", p, k >= 0, "random.sample(pop, k) needs k >= 0", e.lineno)
        self.oblige("sample-size-within-population", p, k <= n, "random.sample(pop, k) needs k <= len(pop)", e.lineno)
        self.oblige("first-end-guarantee", p, z3.Implies(self.ens, k >= 1),
                    "with ensurelink every vertex gets at least one adjacency (load_adj_dict then makes it the v1 of a link)", e.lineno)
        p.pc += [k >= 0, k <= n]

    # ---- the function -----------------------------------------------------------------------------------------------
    def run(self):
        body = function_body(self.fi)
        params = [a.arg for a in self.fi.node.args.args]
        for need in ("count", "edge", "connectivity", "ensurelink"):
            if need not in params:
                raise Outside(f"parameter `{need}` missing")
        p0 = _Path(env={"count": self.count, "connectivity": self.conn_in})
        paths = [p0]
        loop_seen = False
        returned = False
        for st in body:
            if returned:
                raise Outside("statement after return")
            if isinstance(st, ast.Assign) and len(st.targets) == 1 and isinstance(st.targets[0], ast.Name) \
                    and isinstance(st.value, ast.ListComp) and not loop_seen:
                self.comprehension(st.targets[0].id, st.value, paths)
                continue
            if isinstance(st, ast.Assign) and len(st.targets) == 1 and isinstance(st.targets[0], ast.Name) \
                    and isinstance(st.value, ast.Dict) and not st.value.keys and not loop_seen:
                self.dict_name = st.targets[0].id
                continue
            if isinstance(st, ast.For) and not loop_seen:
                loop_seen = True
                paths = self.loop(st, paths)
                continue
            if isinstance(st, ast.Return):
                returned = True
                self.final_call(st)
                continue
            if loop_seen:
                raise Outside(f"statement `{ast.unparse(st).splitlines()[0]}` after the loop")
            paths = self.block([st], paths, False)
        if not loop_seen or not returned:
            raise Outside("no loop / no return")

    def comprehension(self, name, lc, paths):
        g = lc.generators[0] if len(lc.generators) == 1 else None
        if not (g and not g.ifs and isinstance(g.target, ast.Name) and isinstance(g.iter, ast.Call)
                and ast.unparse(g.iter.func) == "range" and len(g.iter.args) == 1):
            raise Outside("list comprehension shape")
        n = self.num(g.iter.args[0], paths[0])
        self.lens[name] = z3.If(n >= 0, n, 0)
        if name == "verts":
            want = f"Vertex(attributes={{'i': {g.target.id}}})"
            if ast.unparse(lc.elt) != want:
                raise Outside(f"`verts` is not a comprehension of {want}")
            self.obls.append((f"vertex-count/{lc.lineno}", list(self.pre) + list(paths[0].pc), self.lens[name] == self.count,
                              f"`verts` is [{want} for {g.target.id} in range(n)] with n = count: `count` fresh vertices, the one at "
                              "index i carrying i", lc.lineno))

    def loop(self, st, paths):
        if not (isinstance(st.target, ast.Name) and st.target.id == "i" and ast.unparse(st.iter) == "range(count)" and not st.orelse):
            raise Outside("loop header is not `for i in range(count)`")
        if self.dict_name is None or "verts" not in self.lens:
            raise Outside("`verts` / the adjacency dictionary are not set up before the loop")
        out = []
        for p in paths:
            # arbitrary iteration: 0 <= i < count; scalars assigned in earlier iterations are unknown (only loop-invariant
            # names - those never assigned in the body - keep their value)
            assigned = {n.id for n in ast.walk(st) if isinstance(n, ast.Name) and isinstance(n.ctx, ast.Store)}
            q = _Path(p.pc + [self.i >= 0, self.i < self.count], p.env)
            for a in assigned:
                q.env[a] = None
            q.env["i"] = self.i
            self.done = []
            fall = self.block(st.body, [q], True)
            for r in fall + self.done:
                self.obls.append((f"every-index-gets-its-entry/{st.lineno}/{len(self.obls)}", list(self.pre) + list(r.pc), z3.BoolVal(r.stored == 1),
                                  f"this path through the loop body stores adj[verts[i]] {r.stored} time(s); exactly once is needed for "
                                  "`count` members", st.lineno))
            out.append(p)
        return out

    def final_call(self, st):
        e = st.value
        if not (isinstance(e, ast.Call) and ast.unparse(e.func).endswith("load_adj_dict") and 1 <= len(e.args) <= 2
                and isinstance(e.args[0], ast.Name) and e.args[0].id == self.dict_name and len(e.args) + len(e.keywords) <= 2
                and all(k.arg == "linktype" for k in e.keywords)):
            raise Outside("the function does not return load_adj_dict(<the dictionary the loop filled>, <link type>)")
        lt = e.args[1] if len(e.args) == 2 else (e.keywords[0].value if e.keywords else None)
        ok = isinstance(lt, ast.Name) and lt.id == "edge"
        self.side.append(("shape/materialised-with-the-requested-link-type", ok, "the function returns load_adj_dict(adj, linktype=edge): "
                          "the proved contract of load_adj_dict (C11) then gives members, link class and ends; found link type: "
                          + (ast.unparse(lt) if lt is not None else "<default>"), st.lineno))


def _model(m):
    out = {}
    for d in m.decls():
        v = m[d]
        out[d.name()] = str(v)
    return out


def verify(repo_root=None, timeout_ms=30000):
    t0 = time.time()
    repo = Repo(repo_root)
    fi = repo.functions.get(QN)
    res = {"function": NAME, "status": "ok", "obligations": [], "sha256": fi.sha256 if fi else None,
           "file": os.path.relpath(fi.file, repo.root) if fi else None, "paths": 0}
    if fi is None:
        res.update(status="undecided", reason="function not found")
        return res
    vc = SampleSizeVC(fi)
    try:
        vc.run()
    except Outside as exc:
        res.update(status="undecided", reason=f"outside the scalar subset of pyvc/arith.py: {exc}", seconds=time.time() - t0)
        return res
    for (oid, hyps, goal, clause, line) in vc.obls:
        s = z3.Solver()
        s.set("timeout", timeout_ms)
        s.add(*hyps)
        s.add(z3.Not(goal))
        t1 = time.time()
        r = s.check()
        ob = {"id": f"{NAME}/{oid}", "kind": "arith", "backend": "z3", "seconds": round(time.time() - t1, 3),
              "meta": {"clause": clause, "trail": f"line {line}", "where": f"{res['file']}:{line}"}}
        if r == z3.unsat:
            ob["status"] = "proved"
        elif r == z3.sat:
            ob["status"] = "refuted"
            ob["model"] = _model(s.model())
        else:
            ob["status"] = "unknown"
            ob["reason"] = "z3: " + s.reason_unknown()
        res["obligations"].append(ob)
    for (oid, ok, clause, line) in vc.side:
        res["obligations"].append({"id": f"{NAME}/{oid}", "kind": "side", "status": "proved" if ok else "refuted", "backend": "syntactic",
                                   "seconds": 0.0, "meta": {"clause": clause, "trail": f"line {line}", "where": f"{res['file']}:{line}"}})
    # vacuity guard: the preconditions and the arbitrary iteration are satisfiable
    s = z3.Solver()
    s.add(*vc.pre, vc.i >= 0, vc.i < vc.count)
    res["obligations"].append({"id": f"{NAME}/cover", "kind": "cover", "backend": "z3", "seconds": 0.0,
                               "status": "covered" if s.check() == z3.sat else "vacuous", "meta": {"clause": "preconditions satisfiable", "trail": ""}})
    if not [o for o in res["obligations"] if o["kind"] == "arith"]:
        res.update(status="undecided", reason="no arithmetic obligation generated")
    res["seconds"] = time.time() - t0
    return res


REPLAY = '''"""Replay of a refuted sample-size obligation of randgraph (pyvc/arith.py) against the real code.
obligation: {oid}
clause:     {clause}
solver model: {model}
The i-th call of random.randint is forced to the value of the model; everything else is the real code."""
import sys
sys.path.insert(0, {repo!r})
import random
from edgegraph.builder import randgraph as rg
from edgegraph.structure import DirectedEdge
COUNT, I, DRAW, CONN, ENS = {count}, {i}, {draw}, {conn}, {ens}
calls = [0]
real = random.randint
def forced(a, b):
    n = calls[0]; calls[0] += 1
    return DRAW if (n == I and DRAW is not None and a <= DRAW <= b) else real(a, b)
random.seed(1)
random.randint = forced
try:
    u = rg.randgraph(count=COUNT, edge=DirectedEdge, connectivity=CONN, ensurelink=ENS)
except Exception as exc:
    print(f"C20 violated: randgraph(count={{COUNT}}, connectivity={{CONN}}, ensurelink={{ENS}}) raised {{type(exc).__name__}}: {{exc}}")
    sys.exit(1)
finally:
    random.randint = real
vs = list(u.vertices)
if len(vs) != COUNT or sorted(v.i for v in vs) != list(range(COUNT)):
    print(f"C20 violated: {{len(vs)}} vertices for count={{COUNT}}")
    sys.exit(1)
if ENS:
    for v in vs:
        if not any(l.v1 is v for l in v.links):
            print(f"C20 violated: vertex i={{v.i}} is the first end of no link although ensurelink is set")
            sys.exit(1)
print("not reproduced")
sys.exit(0)
'''


def write_replay(path, ob, repo_root):
    """replay file for a refuted obligation; returns True when running it against the real code reproduces a violation"""
    import subprocess
    import sys
    from fractions import Fraction
    from .extract import REPO
    m = ob.get("model") or {}

    def num(s, default=None):
        if s is None:
            return default
        try:
            return int(s)
        except ValueError:
            try:
                return float(Fraction(s.replace("?", "")))
            except (ValueError, ZeroDivisionError):
                return default
    draws = [v for k, v in sorted(m.items()) if k.startswith("draw")]
    conn = None if m.get("connectivity_is_None") == "True" else num(m.get("connectivity"), 0.0)
    if not m:
        return False
    src = REPLAY.format(oid=ob["id"], clause=ob["meta"].get("clause"), model=m, repo=repo_root or REPO, count=num(m.get("count"), 1),
                        i=num(m.get("i"), 0), draw=num(draws[0]) if draws else None, conn=conn, ens=m.get("ensurelink_truthy") != "False")
    os.makedirs(os.path.dirname(path), exist_ok=True)
    with open(path, "w") as fh:
        fh.write(src)
    try:
        r = subprocess.run([sys.executable, path], capture_output=True, text=True, timeout=120)
    except subprocess.TimeoutExpired:
        return False
    return r.returncode == 1
