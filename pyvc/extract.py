"""Extraction of the functions under contract from the *current working tree* of the repository.

Nothing is copied by hand: every run parses /repo/edgegraph/**/*.py with `ast`, builds the class table and hands
the FunctionDef nodes to the symbolic executor.  Dropped by the extraction: docstrings, comments/pragmas and
type annotations (they have no run-time meaning for the functions concerned) and `if TYPE_CHECKING:` imports.
"""
from __future__ import annotations
import ast
import hashlib
import os
from dataclasses import dataclass, field

REPO = os.environ.get("PYVC_REPO", "/repo")
PKG = "edgegraph"


@dataclass
class FuncInfo:
    qualname: str            # e.g. 'Vertex.add_to_link', 'TwoEndedLink.v1', 'TwoEndedLink.v1.setter', 'helpers.neighbors'
    module: str              # dotted module
    cls: str | None
    node: ast.FunctionDef
    kind: str                # 'function' | 'method' | 'getter' | 'setter' | 'classmethod' | 'staticmethod'
    file: str
    sha256: str
    lineno: int


@dataclass
class ClassInfo:
    name: str
    module: str
    bases: list[str]
    node: ast.ClassDef
    methods: dict[str, FuncInfo] = field(default_factory=dict)
    getters: dict[str, FuncInfo] = field(default_factory=dict)
    setters: dict[str, FuncInfo] = field(default_factory=dict)
    class_attrs: dict[str, ast.expr] = field(default_factory=dict)
    metaclass: str | None = None


@dataclass
class ModuleInfo:
    name: str
    file: str
    tree: ast.Module
    names: dict[str, tuple] = field(default_factory=dict)   # local name -> ('module', dotted) | ('class', name) | ('func', qualname) | ('const', ast) | ('ext', dotted)
    functions: dict[str, FuncInfo] = field(default_factory=dict)
    classes: dict[str, ClassInfo] = field(default_factory=dict)


def _strip_doc(body):
    if body and isinstance(body[0], ast.Expr) and isinstance(body[0].value, ast.Constant) and isinstance(body[0].value.value, str):
        return body[1:] or [ast.Pass()]
    return body


def _hash_func(node: ast.FunctionDef) -> str:
    clone = ast.parse(ast.unparse(node)).body[0]
    for n in ast.walk(clone):
        if isinstance(n, (ast.FunctionDef, ast.ClassDef)):
            n.body = _strip_doc(n.body)
    return hashlib.sha256(ast.unparse(clone).encode()).hexdigest()


class Repo:
    def __init__(self, root: str | None = None):
        self.root = root or REPO
        self.modules: dict[str, ModuleInfo] = {}
        self.classes: dict[str, ClassInfo] = {}
        self.functions: dict[str, FuncInfo] = {}
        self._load()

    # ------------------------------------------------------------------
    def _load(self):
        base = os.path.join(self.root, PKG)
        for dirpath, _dirs, files in sorted(os.walk(base)):
            for fn in sorted(files):
                if not fn.endswith(".py"):
                    continue
                path = os.path.join(dirpath, fn)
                rel = os.path.relpath(path, self.root)[:-3].replace(os.sep, ".")
                if rel.endswith(".__init__"):
                    rel = rel[: -len(".__init__")]
                with open(path, encoding="utf-8") as fh:
                    src = fh.read()
                tree = ast.parse(src, filename=path)
                self.modules[rel] = ModuleInfo(rel, path, tree)
        for m in self.modules.values():
            self._scan_module(m)
        # resolve 'from pkg import X' re-exports through __init__ modules
        for m in self.modules.values():
            for k, v in list(m.names.items()):
                if v[0] == "import_from":
                    m.names[k] = self._resolve_import(v[1], v[2])

    def _resolve_import(self, mod, name, depth=0):
        dotted = f"{mod}.{name}"
        if dotted in self.modules:
            return ("module", dotted)
        mi = self.modules.get(mod)
        if mi is None:
            return ("ext", dotted)
        if name in mi.classes:
            return ("class", name)
        if name in mi.functions:
            return ("func", mi.functions[name].qualname)
        tgt = mi.names.get(name)
        if tgt is not None:
            if tgt[0] == "import_from" and depth < 5:
                return self._resolve_import(tgt[1], tgt[2], depth + 1)
            return tgt
        return ("ext", dotted)

    def _scan_module(self, m: ModuleInfo):
        short = m.name.split(".")[-1]
        for st in m.tree.body:
            self._scan_stmt(m, short, st)

    def _scan_stmt(self, m, short, st):
        if isinstance(st, ast.Import):
            for a in st.names:
                m.names[a.asname or a.name.split(".")[0]] = ("module", a.name) if a.name.startswith(PKG) else ("ext", a.name)
        elif isinstance(st, ast.ImportFrom):
            mod = st.module or ""
            if st.level:
                parts = m.name.split(".")
                # module files: level 1 = own package
                is_pkg = m.file.endswith("__init__.py")
                basep = parts if is_pkg else parts[:-1]
                if st.level > 1:
                    basep = basep[: -(st.level - 1)]
                mod = ".".join(basep + ([mod] if mod else []))
            for a in st.names:
                if mod.startswith(PKG):
                    m.names[a.asname or a.name] = ("import_from", mod, a.name)
                else:
                    m.names[a.asname or a.name] = ("ext", f"{mod}.{a.name}")
        elif isinstance(st, ast.FunctionDef):
            fi = self._mkfunc(m, None, st, f"{short}.{st.name}", "function")
            m.functions[st.name] = fi
            m.names[st.name] = ("func", fi.qualname)
            # functions / classes defined inside a function body (closures, locally built metaclasses)
            for inner in ast.walk(st):
                if inner is st:
                    continue
                if isinstance(inner, ast.FunctionDef) and self._parent_is(st, inner, ast.FunctionDef):
                    self._mkfunc(m, None, inner, f"{short}.{st.name}.<locals>.{inner.name}", "function")
                elif isinstance(inner, ast.ClassDef):
                    self._scan_class(m, inner, nested_in=f"{short}.{st.name}")
        elif isinstance(st, ast.ClassDef):
            self._scan_class(m, st)
        elif isinstance(st, (ast.Assign, ast.AnnAssign)):
            tgts = st.targets if isinstance(st, ast.Assign) else [st.target]
            if st.value is not None:
                for t in tgts:
                    if isinstance(t, ast.Name):
                        m.names[t.id] = ("const", st.value)
        elif isinstance(st, ast.If):
            # `if TYPE_CHECKING:` blocks are dropped; other top-level ifs/try are scanned for imports only
            test = st.test
            if isinstance(test, ast.Name) and test.id == "TYPE_CHECKING":
                return
            for s in st.body + st.orelse:
                self._scan_stmt(m, short, s)
        elif isinstance(st, ast.Try):
            for s in st.body:
                self._scan_stmt(m, short, s)

    def _parent_is(self, root, node, kind):
        """node is directly in the body of an if/def of `root` (not a method of a nested class)"""
        for par in ast.walk(root):
            if isinstance(par, ast.ClassDef) and node in par.body:
                return False
        return True

    def _mkfunc(self, m, cls, node, qualname, kind):
        fi = FuncInfo(qualname, m.name, cls, node, kind, m.file, _hash_func(node), node.lineno)
        self.functions[qualname] = fi
        return fi

    def _scan_class(self, m, node: ast.ClassDef, nested_in=None):
        bases = []
        for b in node.bases:
            if isinstance(b, ast.Name):
                bases.append(b.id)
            elif isinstance(b, ast.Attribute):
                bases.append(b.attr)
            else:
                bases.append(ast.unparse(b))
        ci = ClassInfo(node.name, m.name, bases, node)
        for kw in node.keywords:
            if kw.arg == "metaclass":
                ci.metaclass = ast.unparse(kw.value)
        for st in node.body:
            if isinstance(st, ast.FunctionDef):
                decos = [ast.unparse(d) for d in st.decorator_list]
                if "property" in decos:
                    ci.getters[st.name] = self._mkfunc(m, node.name, st, f"{node.name}.{st.name}", "getter")
                elif any(d.endswith(".setter") for d in decos):
                    ci.setters[st.name] = self._mkfunc(m, node.name, st, f"{node.name}.{st.name}.setter", "setter")
                elif "classmethod" in decos:
                    ci.methods[st.name] = self._mkfunc(m, node.name, st, f"{node.name}.{st.name}", "classmethod")
                elif "staticmethod" in decos:
                    ci.methods[st.name] = self._mkfunc(m, node.name, st, f"{node.name}.{st.name}", "staticmethod")
                else:
                    ci.methods[st.name] = self._mkfunc(m, node.name, st, f"{node.name}.{st.name}", "method")
            elif isinstance(st, (ast.Assign, ast.AnnAssign)):
                tgts = st.targets if isinstance(st, ast.Assign) else [st.target]
                if st.value is not None:
                    for t in tgts:
                        if isinstance(t, ast.Name):
                            ci.class_attrs[t.id] = st.value
        if nested_in is None:
            m.classes[node.name] = ci
            m.names[node.name] = ("class", node.name)
        ci.nested_in = nested_in
        self.classes[node.name] = ci

    # ------------------------------------------------------------------
    def mro(self, cname: str) -> list[str]:
        """Linearisation for the single-inheritance class tree of the repo (multiple bases: depth-first left-to-right)."""
        out = []

        def walk(c):
            if c in out:
                return
            out.append(c)
            ci = self.classes.get(c)
            if ci:
                for b in ci.bases:
                    walk(b)
        walk(cname)
        return out

    def is_subclass(self, a: str, b: str) -> bool:
        return b in self.mro(a)

    def find_member(self, cname: str, attr: str, after: str | None = None):
        """Return (kind, FuncInfo|ast, owner class) of `attr` looked up on class `cname`.  With `after`, start the lookup
        after class `after` in the MRO (super())."""
        mro = self.mro(cname)
        if after is not None:
            mro = mro[mro.index(after) + 1:]
        for c in mro:
            ci = self.classes.get(c)
            if ci is None:
                continue
            if attr in ci.getters:
                return ("property", ci, c)
            if attr in ci.methods:
                return ("method", ci.methods[attr], c)
            if attr in ci.class_attrs:
                return ("classattr", ci.class_attrs[attr], c)
        return None

    def subclasses(self, cname: str) -> list[str]:
        return [c for c in self.classes if self.is_subclass(c, cname)]

    def module_of_func(self, fi: FuncInfo) -> ModuleInfo:
        return self.modules[fi.module]


def function_body(fi: FuncInfo):
    return _strip_doc(fi.node.body)
