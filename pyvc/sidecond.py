"""Syntactic side conditions checked on the whole repository tree on every run (DESIGN.md 3.1 step 2, 5.3).

Each is a named obligation; a failure is reported like a refuted proof obligation (the replay mutates the leaked
container through the public API where a generic demonstration exists).
"""
from __future__ import annotations
import ast
from .extract import Repo

OWNED = ("_links", "_vertices", "_universes")
FORBIDDEN_DUNDERS = ("__eq__", "__ne__", "__hash__", "__bool__", "__len__", "__contains__", "__getattr__", "__getattribute__",
                     "__setattr__", "__getstate__", "__setstate__", "__reduce__", "__reduce_ex__", "__copy__", "__deepcopy__")
FRESH_CALLS = ("list", "tuple", "sorted", "dict", "set")


def _is_fresh_expr(e) -> bool:
    if isinstance(e, (ast.List, ast.ListComp, ast.Tuple)):
        return True
    if isinstance(e, ast.Call) and isinstance(e.func, ast.Name) and e.func.id in FRESH_CALLS:
        return True
    if isinstance(e, ast.IfExp):
        return _is_fresh_expr(e.body) and _is_fresh_expr(e.orelse)
    return False


def ownership(repo: Repo):
    """every occurrence of an owned private container is an in-place mutation, a membership test, an iteration, len(),
    indexing, the argument of tuple()/list()/set()/dict.fromkeys()/[*..], or an assignment from a fresh container
    expression; it is never returned, stored elsewhere or passed on.  -> list of (obligation id, ok, detail)"""
    out = []
    for qn, fi in sorted(repo.functions.items()):
        parents = {}
        for node in ast.walk(fi.node):
            for ch in ast.iter_child_nodes(node):
                parents[id(ch)] = node
        count = 0
        for node in ast.walk(fi.node):
            if not (isinstance(node, ast.Attribute) and node.attr in OWNED):
                continue
            count += 1
            par = parents.get(id(node))
            ok, why = False, ""
            if isinstance(node.ctx, ast.Store):
                # X.f = <fresh>
                if isinstance(par, (ast.Assign, ast.AnnAssign)) and par.value is not None and _is_fresh_expr(par.value):
                    ok = True
                else:
                    why = "assigned from a non-fresh expression"
            elif isinstance(par, ast.Attribute) and par.value is node:
                gp = parents.get(id(par))
                if par.attr in ("append", "remove") and isinstance(gp, ast.Call) and gp.func is par:
                    ok = True
                else:
                    why = f"method/attribute .{par.attr}"
            elif isinstance(par, ast.Compare) and node in par.comparators and all(isinstance(o, (ast.In, ast.NotIn)) for o in par.ops):
                ok = True
            elif isinstance(par, (ast.For, ast.comprehension)) and par.iter is node:
                ok = True
            elif isinstance(par, ast.Subscript) and par.value is node:
                ok = True
            elif isinstance(par, ast.Call) and node in par.args:
                f = par.func
                if isinstance(f, ast.Name) and f.id in ("len", "tuple", "list", "set", "sorted"):
                    ok = True
                elif isinstance(f, ast.Attribute) and f.attr == "fromkeys":
                    ok = True
                else:
                    why = "passed to a call"
            elif isinstance(par, ast.Starred):
                ok = True
            elif isinstance(par, ast.Return):
                why = "returned"
            else:
                why = f"used in {type(par).__name__}"
            oid = f"C12/ownership/{node.attr}@{qn}#{count}"
            out.append((oid, ok, why if not ok else "", fi, node.lineno))
    return out


def identity_model(repo: Repo):
    """A4/A5: no class of the repository overrides equality, hashing, truthiness or attribute access"""
    out = []
    for cname, ci in sorted(repo.classes.items()):
        if ci.module.endswith("nrpickler") or ci.module.endswith("singleton"):
            continue
        for m in ci.methods:
            if m in FORBIDDEN_DUNDERS:
                out.append((f"A4/identity-model/{cname}.{m}", False, f"class {cname} defines {m}", ci.methods[m], ci.methods[m].lineno))
    out.append(("A4/identity-model/no-overrides", not out, "", None, 0))
    return out


def no_setters(repo: Repo, cname: str, names):
    """C19: the rule attributes of a law set cannot be changed: the properties have no setter"""
    out = []
    ci = repo.classes.get(cname)
    for n in names:
        ok = ci is not None and n in ci.getters and n not in ci.setters
        out.append((f"C19/read-only/{cname}.{n}", ok, "" if ok else "property has a setter or is missing", None, 0))
    return out
