"""Syntactic side conditions checked on the whole repository tree on every run (DESIGN.md 3.1 step 2, 5.3).

Each is a named obligation; a failure is reported like a refuted proof obligation (the replay mutates the leaked
container through the public API where a generic demonstration exists).
"""
from __future__ import annotations
import ast
from .extract import Repo

OWNED = ("_links", "_vertices", "_universes")
FORBIDDEN_DUNDERS = ("__eq__", "__ne__", "__hash__", "__bool__", "__len__", "__contains__", "__getattr__", "__getattribute__",
                     "__setattr__", "__getstate__", "__setstate__", "__reduce__", "__reduce_ex__", "__copy__", "__deepcopy__")
FRESH_CALLS = ("list", "tuple", "sorted", "dict", "set")


def _is_fresh_expr(e) -> bool:
    if isinstance(e, (ast.List, ast.ListComp, ast.Tuple)):
        return True
    if isinstance(e, ast.Call) and isinstance(e.func, ast.Name) and e.func.id in FRESH_CALLS:
        return True
    if isinstance(e, ast.IfExp):
        return _is_fresh_expr(e.body) and _is_fresh_expr(e.orelse)
    return False


def ownership(repo: Repo):
    """every occurrence of an owned private container is an in-place mutation, a membership test, an iteration, len(),
    indexing, the argument of tuple()/list()/set()/dict.fromkeys()/[*..], or an assignment from a fresh container
    expression; it is never returned, stored elsewhere or passed on.  -> list of (obligation id, ok, detail)"""
    out = []
    for qn, fi in sorted(repo.functions.items()):
        parents = {}
        for node in ast.walk(fi.node):
            for ch in ast.iter_child_nodes(node):
                parents[id(ch)] = node
        count = 0
        for node in ast.walk(fi.node):
            if not (isinstance(node, ast.Attribute) and node.attr in OWNED):
                continue
            count += 1
            par = parents.get(id(node))
            ok, why = False, ""
            if isinstance(node.ctx, ast.Store):
                # X.f = <fresh>
                if isinstance(par, (ast.Assign, ast.AnnAssign)) and par.value is not None and _is_fresh_expr(par.value):
                    ok = True
                else:
                    why = "assigned from a non-fresh expression"
            elif isinstance(par, ast.Attribute) and par.value is node:
                gp = parents.get(id(par))
                if par.attr in ("append", "remove") and isinstance(gp, ast.Call) and gp.func is par:
                    ok = True
                else:
                    why = f"method/attribute .{par.attr}"
            elif isinstance(par, ast.Compare) and node in par.comparators and all(isinstance(o, (ast.In, ast.NotIn)) for o in par.ops):
                ok = True
            elif isinstance(par, (ast.For, ast.comprehension)) and par.iter is node:
                ok = True
            elif isinstance(par, ast.Subscript) and par.value is node:
                ok = True
            elif isinstance(par, ast.Call) and node in par.args:
                f = par.func
                if isinstance(f, ast.Name) and f.id in ("len", "tuple", "list", "set", "sorted"):
                    ok = True
                elif isinstance(f, ast.Attribute) and f.attr == "fromkeys":
                    ok = True
                else:
                    why = "passed to a call"
            elif isinstance(par, ast.Starred):
                ok = True
            elif isinstance(par, ast.Return):
                why = "returned"
            else:
                why = f"used in {type(par).__name__}"
            oid = f"C12/ownership/{node.attr}@{qn}#{count}"
            out.append((oid, ok, why if not ok else "", fi, node.lineno))
    return out


def identity_model(repo: Repo):
    """A4/A5: no class of the repository overrides equality, hashing, truthiness or attribute access"""
    out = []
    for cname, ci in sorted(repo.classes.items()):
        if ci.module.endswith("nrpickler") or ci.module.endswith("singleton"):
            continue
        for m in ci.methods:
            if m in FORBIDDEN_DUNDERS:
                out.append((f"A4/identity-model/{cname}.{m}", False, f"class {cname} defines {m}", ci.methods[m], ci.methods[m].lineno))
    out.append(("A4/identity-model/no-overrides", not out, "", None, 0))
    return out


def no_setters(repo: Repo, cname: str, names):
    """C19: the rule attributes of a law set cannot be changed: the properties have no setter"""
    out = []
    ci = repo.classes.get(cname)
    for n in names:
        ok = ci is not None and n in ci.getters and n not in ci.setters
        out.append((f"C19/read-only/{cname}.{n}", ok, "" if ok else "property has a setter or is missing", None, 0))
    return out


# ---------------------------------------------------------------------------------------------- effect analysis (C13)
LOCAL_CTORS = ("set", "list", "dict", "tuple", "sorted")
LOCAL_METHODS = ("append", "add", "pop", "popleft", "extend", "update", "insert", "clear")
PURE_BUILTINS = ("len", "hasattr", "getattr", "isinstance", "issubclass", "type", "list", "tuple", "set", "dict", "sorted",
                 "repr", "hex", "id", "str", "int", "max", "min", "range", "enumerate", "bool", "iter", "next", "dir")


def readonly_effects(repo: Repo, qualname: str, readonly_callees, owned_params=()):
    """Frame condition `modifies nothing observable`, checked on the AST of one function:
      - no attribute is assigned or deleted;
      - item assignment / in-place methods only on containers the function allocated itself (names bound to a fresh
        container expression) or on parameters declared as caller-private work containers (`owned_params`);
      - every call is a user callback (a parameter), a pure built-in, a method of such a local container, a constructor of a
        local container, or a function/method/property whose contract is read-only (`readonly_callees`: names).
    -> list of (obligation id, ok, detail)"""
    fi = repo.functions.get(qualname)
    out = []
    if fi is None:
        return [(f"C13/effects/{qualname}", False, "function missing", None, 0)]
    params = {a.arg for a in fi.node.args.args + fi.node.args.kwonlyargs + fi.node.args.posonlyargs}
    local_containers = set(owned_params)
    for node in ast.walk(fi.node):
        if isinstance(node, (ast.Assign, ast.AnnAssign)) and getattr(node, "value", None) is not None:
            tg = node.targets if isinstance(node, ast.Assign) else [node.target]
            v = node.value
            fresh = isinstance(v, (ast.List, ast.Dict, ast.Set, ast.ListComp, ast.Tuple)) or (
                isinstance(v, ast.Call) and ((isinstance(v.func, ast.Name) and v.func.id in LOCAL_CTORS)
                                              or (isinstance(v.func, ast.Attribute) and v.func.attr == "deque")))
            if fresh:
                for t in tg:
                    if isinstance(t, ast.Name):
                        local_containers.add(t.id)
    n = 0

    def bad(node, why):
        nonlocal n
        n += 1
        out.append((f"C13/effects/{qualname}#{n}", False, f"line {node.lineno}: {why}", fi, node.lineno))
    for node in ast.walk(fi.node):
        if isinstance(node, (ast.Assign, ast.AugAssign, ast.AnnAssign)):
            tg = node.targets if isinstance(node, ast.Assign) else [node.target]
            for t in tg:
                for sub in ast.walk(t):
                    if isinstance(sub, ast.Attribute) and isinstance(sub.ctx, ast.Store):
                        bad(node, f"assignment to attribute .{sub.attr}")
                    if isinstance(sub, ast.Subscript) and isinstance(sub.ctx, ast.Store):
                        if not (isinstance(sub.value, ast.Name) and sub.value.id in local_containers):
                            bad(node, "item assignment on a container that is not local")
        elif isinstance(node, ast.Delete):
            for t in node.targets:
                if isinstance(t, ast.Attribute):
                    bad(node, f"del of attribute .{t.attr}")
                if isinstance(t, ast.Subscript) and not (isinstance(t.value, ast.Name) and t.value.id in local_containers):
                    bad(node, "del of an item of a container that is not local")
        elif isinstance(node, ast.Call):
            f = node.func
            if isinstance(f, ast.Name):
                if f.id in params or f.id in PURE_BUILTINS or f.id in readonly_callees or f.id in EXC_NAMES:
                    continue
                bad(node, f"call of {f.id}, which is not known to be read-only")
            elif isinstance(f, ast.Attribute):
                if isinstance(f.value, ast.Name) and f.value.id in local_containers and f.attr in LOCAL_METHODS + ("items", "values", "keys", "join", "get"):
                    continue
                if f.attr in readonly_callees or f.attr in ("deque", "join", "format", "items", "values", "keys", "match", "compile"):
                    continue
                if f.attr in LOCAL_METHODS:
                    bad(node, f"in-place method .{f.attr} on something that is not a local container")
                else:
                    bad(node, f"call of .{f.attr}, which is not known to be read-only")
            elif isinstance(f, ast.Subscript):
                continue            # a user callback taken from an options table (A7)
            else:
                bad(node, "call of a computed callee")
    if not out:
        out.append((f"C13/effects/{qualname}", True, "", fi, fi.lineno))
    return out


EXC_NAMES = ("ValueError", "TypeError", "NotImplementedError", "AttributeError", "KeyError", "IndexError", "Exception")


def pickler_layout(repo: Repo):
    """A13 (C10): the instance layout and the value model of queue items that the scheduler contracts rely on.
      - _NonrecursivePickler.__init__ binds `lazywrites` to a new list, `realwrite` to the file's write and `write` to the bound
        lazywrite; no other method of the class assigns `write` / `realwrite`, defines `realsave` / `realmemoize` differently, or
        calls realsave / realmemoize / realwrite except dump (and the three entry points for realwrite / realmemoize);
      - `_LazySave(...)` / `_LazyMemo(...)` occur only as the argument of `.append(...)` (items are records: nothing compares them by
        identity or keeps one elsewhere); the two classes define nothing but __init__ (self.obj = obj) and __repr__."""
    out = []
    ci = repo.classes.get("_NonrecursivePickler")

    def ob(name, ok, why="", fi=None, line=0):
        out.append((f"A13/{name}", bool(ok), why, fi, line))
    if ci is None:
        ob("class-present", False, "class _NonrecursivePickler is missing")
        return out
    init = ci.methods.get("__init__")
    want = {"lazywrites": "[]", "realwrite": "file.write", "write": "self.lazywrite"}
    got = {}
    if init is not None:
        for n in ast.walk(init.node):
            if isinstance(n, ast.Assign) and len(n.targets) == 1 and isinstance(n.targets[0], ast.Attribute) \
                    and isinstance(n.targets[0].value, ast.Name) and n.targets[0].value.id == "self":
                got[n.targets[0].attr] = ast.unparse(n.value)
    for k, v in want.items():
        ob(f"init-binds-{k}", got.get(k) == v, f"__init__ must bind self.{k} = {v} (found {got.get(k)!r})", init, init.lineno if init else 0)
    for mname, fi in sorted(ci.methods.items()):
        for n in ast.walk(fi.node):
            if isinstance(n, (ast.Assign, ast.AugAssign)):
                tg = n.targets if isinstance(n, ast.Assign) else [n.target]
                for t in tg:
                    if isinstance(t, ast.Attribute) and t.attr in ("write", "realwrite", "realsave", "realmemoize", "save", "memoize") and mname != "__init__":
                        ob(f"no-rebinding/{mname}.{t.attr}", False, f"{mname} rebinds self.{t.attr}", fi, n.lineno)
            if isinstance(n, ast.Call) and isinstance(n.func, ast.Attribute) and n.func.attr in ("realsave", "realmemoize", "realwrite"):
                allowed = {"realsave": ("dump",), "realmemoize": ("dump", "lazymemoize"), "realwrite": ("dump", "lazywrite")}[n.func.attr]
                ob(f"real-calls/{mname}.{n.func.attr}@{n.lineno - fi.lineno}", mname in allowed,
                   f"{n.func.attr} may only be called from {allowed}: a call from {mname} would run dill's recursive save outside the drain loop", fi, n.lineno)
    for attr, val in (("realsave", "dill.Pickler.save"), ("realmemoize", "dill.Pickler.memoize"), ("memoize", "lazymemoize")):
        node = ci.class_attrs.get(attr)
        ob(f"alias-{attr}", node is not None and ast.unparse(node) == val, f"class attribute {attr} must be {val}")
    mod = repo.modules.get(ci.module)
    parents = {}
    for node in ast.walk(mod.tree):
        for ch in ast.iter_child_nodes(node):
            parents[id(ch)] = node
    k = 0
    for node in ast.walk(mod.tree):
        if isinstance(node, ast.Call) and isinstance(node.func, ast.Name) and node.func.id in ("_LazySave", "_LazyMemo"):
            par = parents.get(id(node))
            good = isinstance(par, ast.Call) and isinstance(par.func, ast.Attribute) and par.func.attr == "append" and node in par.args
            ob(f"items-only-appended/{k}", good, f"{node.func.id}(...) at line {node.lineno} is not the argument of .append(...)", None, node.lineno)
            k += 1
    # every byte stream comes from the verified scheduler: the module-level wrappers build a _NonrecursivePickler and call its dump()
    # once; nothing in the module hands the object to another pickler (pickle / dill dumps, dump, Pickler(...))
    for node in ast.walk(mod.tree):
        if isinstance(node, ast.Call) and isinstance(node.func, ast.Attribute) and isinstance(node.func.value, ast.Name) \
                and node.func.value.id in ("pickle", "dill", "_pickle", "cPickle") and node.func.attr in ("dumps", "dump", "Pickler", "_Pickler"):
            ob(f"no-other-pickler/{node.func.value.id}.{node.func.attr}@{node.lineno}", False,
               f"{node.func.value.id}.{node.func.attr}(...) at line {node.lineno}: the object would be serialised outside _NonrecursivePickler", None, node.lineno)
    for wname in ("dumps", "dump"):
        fi = mod.functions.get(wname)
        if fi is None:
            ob(f"wrapper-present/{wname}", False, f"module function {wname} is missing")
            continue
        ctor = [n for n in ast.walk(fi.node) if isinstance(n, ast.Call) and isinstance(n.func, ast.Name) and n.func.id == "_NonrecursivePickler"]
        dcall = [n for n in ast.walk(fi.node) if isinstance(n, ast.Call) and isinstance(n.func, ast.Attribute) and n.func.attr == "dump"]
        branches = [n for n in ast.walk(fi.node) if isinstance(n, (ast.If, ast.Try, ast.While, ast.For, ast.IfExp))]
        ob(f"wrapper-shape/{wname}", len(ctor) == 1 and len(dcall) == 1 and not branches and len(dcall[0].args) == 1
           and isinstance(dcall[0].args[0], ast.Name) and dcall[0].args[0].id == "obj",
           f"{wname} must build one _NonrecursivePickler and call its dump(obj) exactly once, unconditionally", fi, fi.lineno)
    for cn in ("_LazySave", "_LazyMemo"):
        c2 = repo.classes.get(cn)
        okc = c2 is not None and set(c2.methods) <= {"__init__", "__repr__"} and not c2.getters and \
            (c2.methods.get("__init__") is not None and ast.unparse(c2.methods["__init__"].node.body[-1]) == "self.obj = obj")
        ob(f"record-class/{cn}", okc, f"{cn} must be a plain record (only __init__: self.obj = obj, and __repr__)")
    return out
