"""Syntactic side conditions checked on the whole repository tree on every run (DESIGN.md 3.1 step 2, 5.3).

Each is a named obligation; a failure is reported like a refuted proof obligation (the replay mutates the leaked
container through the public API where a generic demonstration exists).
"""
from __future__ import annotations
import ast
from .extract import Repo

OWNED = ("_links", "_vertices", "_universes")
FORBIDDEN_DUNDERS = ("__eq__", "__ne__", "__hash__", "__bool__", "__len__", "__contains__", "__getattr__", "__getattribute__",
                     "__setattr__", "__getstate__", "__setstate__", "__reduce__", "__reduce_ex__", "__copy__", "__deepcopy__")
FRESH_CALLS = ("list", "tuple", "sorted", "dict", "set")


def _is_fresh_expr(e) -> bool:
    if isinstance(e, (ast.List, ast.ListComp, ast.Tuple)):
        return True
    if isinstance(e, ast.Call) and isinstance(e.func, ast.Name) and e.func.id in FRESH_CALLS:
        return True
    if isinstance(e, ast.IfExp):
        return _is_fresh_expr(e.body) and _is_fresh_expr(e.orelse)
    return False


def ownership(repo: Repo):
    """every occurrence of an owned private container is an in-place mutation, a membership test, an iteration, len(),
    indexing, the argument of tuple()/list()/set()/dict.fromkeys()/[*..], or an assignment from a fresh container
    expression; it is never returned, stored elsewhere or passed on.  -> list of (obligation id, ok, detail)"""
    out = []
    for qn, fi in sorted(repo.functions.items()):
        parents = {}
        for node in ast.walk(fi.node):
            for ch in ast.iter_child_nodes(node):
                parents[id(ch)] = node
        count = 0
        for node in ast.walk(fi.node):
            if not (isinstance(node, ast.Attribute) and node.attr in OWNED):
                continue
            count += 1
            par = parents.get(id(node))
            ok, why = False, ""
            if isinstance(node.ctx, ast.Store):
                # X.f = <fresh>
                if isinstance(par, (ast.Assign, ast.AnnAssign)) and par.value is not None and _is_fresh_expr(par.value):
                    ok = True
                else:
                    why = "assigned from a non-fresh expression"
            elif isinstance(par, ast.Attribute) and par.value is node:
                gp = parents.get(id(par))
                if par.attr in ("append", "remove") and isinstance(gp, ast.Call) and gp.func is par:
                    ok = True
                else:
                    why = f"method/attribute .{par.attr}"
            elif isinstance(par, ast.Compare) and node in par.comparators and all(isinstance(o, (ast.In, ast.NotIn)) for o in par.ops):
                ok = True
            elif isinstance(par, (ast.For, ast.comprehension)) and par.iter is node:
                ok = True
            elif isinstance(par, ast.Subscript) and par.value is node:
                ok = True
            elif isinstance(par, ast.Call) and node in par.args:
                f = par.func
                if isinstance(f, ast.Name) and f.id in ("len", "tuple", "list", "set", "sorted"):
                    ok = True
                elif isinstance(f, ast.Attribute) and f.attr == "fromkeys":
                    ok = True
                else:
                    why = "passed to a call"
            elif isinstance(par, ast.Starred):
                ok = True
            elif isinstance(par, ast.Return):
                why = "returned"
            else:
                why = f"used in {type(par).__name__}"
            oid = f"C12/ownership/{node.attr}@{qn}#{count}"
            out.append((oid, ok, why if not ok else "", fi, node.lineno))
    return out


def identity_model(repo: Repo):
    """A4/A5: no class of the repository overrides equality, hashing, truthiness or attribute access"""
    out = []
    for cname, ci in sorted(repo.classes.items()):
        if ci.module.endswith("nrpickler") or ci.module.endswith("singleton"):
            continue
        for m in ci.methods:
            if m in FORBIDDEN_DUNDERS:
                out.append((f"A4/identity-model/{cname}.{m}", False, f"class {cname} defines {m}", ci.methods[m], ci.methods[m].lineno))
    out.append(("A4/identity-model/no-overrides", not out, "", None, 0))
    return out


def no_setters(repo: Repo, cname: str, names):
    """C19: the rule attributes of a law set cannot be changed: the properties have no setter"""
    out = []
    ci = repo.classes.get(cname)
    for n in names:
        ok = ci is not None and n in ci.getters and n not in ci.setters
        out.append((f"C19/read-only/{cname}.{n}", ok, "" if ok else "property has a setter or is missing", None, 0))
    return out


# ---------------------------------------------------------------------------------------------- effect analysis (C13)
LOCAL_CTORS = ("set", "list", "dict", "tuple", "sorted")
LOCAL_METHODS = ("append", "add", "pop", "popleft", "extend", "update", "insert", "clear")
PURE_BUILTINS = ("len", "hasattr", "getattr", "isinstance", "issubclass", "type", "list", "tuple", "set", "dict", "sorted",
                 "repr", "hex", "id", "str", "int", "max", "min", "range", "enumerate", "bool", "iter", "next", "dir")


def readonly_effects(repo: Repo, qualname: str, readonly_callees, owned_params=()):
    """Frame condition `modifies nothing observable`, checked on the AST of one function:
      - no attribute is assigned or deleted;
      - item assignment / in-place methods only on containers the function allocated itself (names bound to a fresh
        container expression) or on parameters declared as caller-private work containers (`owned_params`);
      - every call is a user callback (a parameter), a pure built-in, a method of such a local container, a constructor of a
        local container, or a function/method/property whose contract is read-only (`readonly_callees`: names).
    -> list of (obligation id, ok, detail)"""
    fi = repo.functions.get(qualname)
    out = []
    if fi is None:
        return [(f"C13/effects/{qualname}", False, "function missing", None, 0)]
    params = {a.arg for a in fi.node.args.args + fi.node.args.kwonlyargs + fi.node.args.posonlyargs}
    local_containers = set(owned_params)
    for node in ast.walk(fi.node):
        if isinstance(node, (ast.Assign, ast.AnnAssign)) and getattr(node, "value", None) is not None:
            tg = node.targets if isinstance(node, ast.Assign) else [node.target]
            v = node.value
            fresh = isinstance(v, (ast.List, ast.Dict, ast.Set, ast.ListComp, ast.Tuple)) or (
                isinstance(v, ast.Call) and ((isinstance(v.func, ast.Name) and v.func.id in LOCAL_CTORS)
                                              or (isinstance(v.func, ast.Attribute) and v.func.attr == "deque")))
            if fresh:
                for t in tg:
                    if isinstance(t, ast.Name):
                        local_containers.add(t.id)
    n = 0

    def bad(node, why):
        nonlocal n
        n += 1
        out.append((f"C13/effects/{qualname}#{n}", False, f"line {node.lineno}: {why}", fi, node.lineno))
    for node in ast.walk(fi.node):
        if isinstance(node, (ast.Assign, ast.AugAssign, ast.AnnAssign)):
            tg = node.targets if isinstance(node, ast.Assign) else [node.target]
            for t in tg:
                for sub in ast.walk(t):
                    if isinstance(sub, ast.Attribute) and isinstance(sub.ctx, ast.Store):
                        bad(node, f"assignment to attribute .{sub.attr}")
                    if isinstance(sub, ast.Subscript) and isinstance(sub.ctx, ast.Store):
                        if not (isinstance(sub.value, ast.Name) and sub.value.id in local_containers):
                            bad(node, "item assignment on a container that is not local")
        elif isinstance(node, ast.Delete):
            for t in node.targets:
                if isinstance(t, ast.Attribute):
                    bad(node, f"del of attribute .{t.attr}")
                if isinstance(t, ast.Subscript) and not (isinstance(t.value, ast.Name) and t.value.id in local_containers):
                    bad(node, "del of an item of a container that is not local")
        elif isinstance(node, ast.Call):
            f = node.func
            if isinstance(f, ast.Name):
                if f.id in params or f.id in PURE_BUILTINS or f.id in readonly_callees or f.id in EXC_NAMES:
                    continue
                bad(node, f"call of {f.id}, which is not known to be read-only")
            elif isinstance(f, ast.Attribute):
                if isinstance(f.value, ast.Name) and f.value.id in local_containers and f.attr in LOCAL_METHODS + ("items", "values", "keys", "join", "get"):
                    continue
                if f.attr in readonly_callees or f.attr in ("deque", "join", "format", "items", "values", "keys", "match", "compile"):
                    continue
                if f.attr in LOCAL_METHODS:
                    bad(node, f"in-place method .{f.attr} on something that is not a local container")
                else:
                    bad(node, f"call of .{f.attr}, which is not known to be read-only")
            elif isinstance(f, ast.Subscript):
                continue            # a user callback taken from an options table (A7)
            else:
                bad(node, "call of a computed callee")
    if not out:
        out.append((f"C13/effects/{qualname}", True, "", fi, fi.lineno))
    return out


EXC_NAMES = ("ValueError", "TypeError", "NotImplementedError", "AttributeError", "KeyError", "IndexError", "Exception")
