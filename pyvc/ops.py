"""Expression evaluation, attribute/item access, calls (contracts, built-ins) for the pyvc executor."""
from __future__ import annotations
import ast
import z3
from . import terms as T
from .terms import Ref, RSeq, Int, Bool, Str, Cls, NONE
from .state import State, FIELD_SORTS
from .values import *
from .contracts import Contract, Spec, SpecCtx, Outcome, Schema, Loose, Param
from .engine import Engine, Path, Unsupported, exc_matches, EXC_PARENTS

SEQ_FIELDS = {"_links": "Link", "_vertices": "Vertex", "_universes": "Universe"}
SCALAR_REF_FIELDS = {"_laws": "UniverseLaws", "_applies_to": "Universe", "_edge_whitelist": None, "_mixed_links": None,
                     "_cycles": None, "_multipath": None, "_multiverse": None}
MEMO_ATTR = "_Vertex__qa_nb_cache"
py_eq = z3.Function("py_eq", Ref, Ref, Bool)       # `==` on opaque user values (A4: only a function of its arguments)
int_box = z3.Function("int_box", Int, Ref)         # an int seen as an opaque attribute value
str_box = T.str_box


def bind(results, fn):
    out = []
    for (p, v) in results:
        if isinstance(v, VRaise):
            out.append((p, v))
        else:
            out.extend(fn(p, v))
    return out


class FullEngine(Engine):

    # ------------------------------------------------------------------ conditions / truthiness
    def truth(self, v: V, p: Path):
        if isinstance(v, VBool):
            return v.term
        if isinstance(v, VInt):
            return v.term != 0
        if isinstance(v, VCallback):
            # `if cb:` / `cb and ...`: None is falsy; the truth value of a callable object is unconstrained (a callable may define
            # __bool__ / __len__), so code that confuses "not given" with "falsy" is told apart from code that tests `is None`
            return z3.And(v.term != NONE, T.truthy(v.term))
        if isinstance(v, VRef):
            if v.term.eq(NONE):
                return z3.BoolVal(False)
            if v.role == "callable":
                return v.term != NONE
            return z3.And(v.term != NONE, T.truthy(v.term))   # A4: unconstrained per object
        if isinstance(v, VSeq):
            return T.Len(v.term) > 0
        if isinstance(v, VOwned):
            return T.Len(p.st.read(v.fieldname, v.owner)) > 0
        if isinstance(v, VList):
            return T.Len(p.st.elems(v.ref)) > 0
        if isinstance(v, VStr):
            return z3.Length(v.term) > 0
        if isinstance(v, VCls):
            return v.term != T.NONECLS          # an optional class argument: None is falsy, every class is truthy
        if isinstance(v, (VFunc, VBuiltin, VModule, VMeta)):
            return z3.BoolVal(True)
        if isinstance(v, VConst):
            return z3.BoolVal(bool(v.value))
        if isinstance(v, VPyTuple):
            return z3.BoolVal(len(v.items) > 0)
        if isinstance(v, VOpaque) and not v.what.startswith("ext:"):
            return T.fresh("opaque_truth", z3.BoolSort())       # a value we do not model (a counter, a message): either way
        if isinstance(v, VIter):
            raise Unsupported("truth value of an arbitrary iterable")
        if isinstance(v, VSet):
            raise Unsupported("truth value of a set")
        raise Unsupported("truth of " + type(v).__name__)

    def eval_cond(self, e, p: Path):
        """-> list of (path, Bool term | VRaise)"""
        if isinstance(e, ast.BoolOp):
            # short-circuit; operands may have effects (calls), so fork
            is_and = isinstance(e.op, ast.And)
            results = []
            pend = [(p, 0)]
            while pend:
                q, i = pend.pop()
                for (r, c) in self.eval_cond(e.values[i], q):
                    if isinstance(c, VRaise):
                        results.append((r, c))
                        continue
                    if i == len(e.values) - 1:
                        results.append((r, c))
                        continue
                    pure = self.is_pure(e.values[i + 1:])
                    if pure:
                        # no effects ahead: build one formula
                        rest = []
                        ok = True
                        for sub in e.values[i + 1:]:
                            rr = self.eval_cond(sub, r)
                            if len(rr) != 1 or isinstance(rr[0][1], VRaise):
                                ok = False
                                break
                            rest.append(rr[0][1])
                        if ok:
                            results.append((r, T.conj(c, *rest) if is_and else T.disj(c, *rest)))
                            continue
                    for (r2, side) in self.fork(r, c, f"bool@{e.lineno}"):
                        if side != is_and:
                            results.append((r2, z3.BoolVal(side)))
                        else:
                            pend.append((r2, i + 1))
            return results
        if isinstance(e, ast.UnaryOp) and isinstance(e.op, ast.Not):
            return [(q, c if isinstance(c, VRaise) else T.neg(c)) for (q, c) in self.eval_cond(e.operand, p)]
        out = []
        for (q, v) in self.eval(e, p):
            out.append((q, v if isinstance(v, VRaise) else self.truth(v, q)))
        return out

    def is_pure(self, exprs) -> bool:
        """syntactic: no calls except whitelisted pure builtins, no attribute access that may run code"""
        for e in exprs:
            for n in ast.walk(e):
                if isinstance(n, ast.Call):
                    if isinstance(n.func, ast.Name) and n.func.id in ("isinstance", "issubclass", "type", "len"):
                        continue
                    return False
                if isinstance(n, (ast.Attribute, ast.Subscript, ast.Yield, ast.YieldFrom, ast.Await)):
                    return False
        return True

    # ------------------------------------------------------------------ expressions
    def eval(self, e, p: Path):
        m = getattr(self, "ev_" + type(e).__name__, None)
        if m is None:
            raise Unsupported(f"expression {type(e).__name__} at line {getattr(e, 'lineno', '?')}")
        return m(e, p)

    def ev_Constant(self, e, p):
        v = e.value
        if v is None:
            return [(p, NONE_V)]
        if isinstance(v, bool):
            return [(p, VBool(z3.BoolVal(v)))]
        if isinstance(v, int):
            return [(p, VInt(z3.IntVal(v)))]
        if isinstance(v, str):
            return [(p, VStr(z3.StringVal(v)))]
        raise Unsupported(f"constant {v!r}")

    def ev_Name(self, e, p):
        n = e.id
        if n in p.env:
            return [(p, p.env[n])]
        mod = self.repo.modules[self.cur.module]
        if n in mod.names:
            return [(p, self.module_member(mod, n))]
        if n in ("len", "isinstance", "issubclass", "type", "list", "tuple", "set", "dict", "hasattr", "getattr",
                 "setattr", "delattr", "repr", "hex", "id", "str", "int", "max", "min", "range", "enumerate", "sorted",
                 "super", "hash", "object", "bool", "dir", "chr"):
            return [(p, VBuiltin(n))]
        if n in EXC_PARENTS:
            return [(p, VConst(("excclass", n)))]
        if n == "hashfunc" and self.cur is not None and self.cur.qualname == "_SemiSingleton.__call__" and isinstance(p.env.get("cls"), VCls):
            # closure variable of semi_singleton_metaclass: the key function this metaclass was built with (= the value of
            # its class attribute _SemiSingleton__semisingleton_hashfunc, assigned from the same variable in the class body)
            return [(p, VCallback(T.hf_of(T.meta_of(p.env["cls"].term)), "hf"))]
        raise Unsupported(f"name {n}")

    def module_member(self, mod, n):
        kind = mod.names[n]
        if kind[0] == "class":
            return VCls(self.ct.c(kind[1]), kind[1])
        if kind[0] == "func":
            return VFunc(kind[1])
        if kind[0] == "module":
            return VModule(kind[1])
        if kind[0] == "const":
            node = kind[1]
            if isinstance(node, ast.Constant):
                return self.ev_Constant(node, None)[0][1]
            if isinstance(node, ast.JoinedStr):
                return VStr(z3.String(f"const:{mod.name}.{n}"))      # a module-level string built once at import time
            return VConst(("modconst", mod.name, n))
        if kind[0] == "ext":
            return VModule("ext:" + kind[1])
        raise Unsupported(f"module member {n}: {kind[0]}")

    def ev_Tuple(self, e, p):
        res = [(p, [])]
        for el in e.elts:
            nxt = []
            for (q, items) in res:
                if isinstance(items, VRaise):
                    nxt.append((q, items))
                    continue
                for (r, v) in self.eval(el, q):
                    nxt.append((r, v if isinstance(v, VRaise) else items + [v]))
            res = nxt
        return [(q, it if isinstance(it, VRaise) else VPyTuple(it)) for (q, it) in res]

    def ev_List(self, e, p):
        # [*dict.fromkeys(X)]  -> order-preserving de-duplication
        if len(e.elts) == 1 and isinstance(e.elts[0], ast.Starred):
            inner = e.elts[0].value
            if (isinstance(inner, ast.Call) and isinstance(inner.func, ast.Attribute) and inner.func.attr == "fromkeys"
                    and isinstance(inner.func.value, ast.Name) and inner.func.value.id == "dict" and len(inner.args) == 1):
                def k(q, v):
                    s, ecn = self.iter_seq(q, v)
                    return [(q, VSeq(T.Dedup(s), ecn, "list"))]
                return bind(self.eval(inner.args[0], p), k)
            raise Unsupported("starred list display")
        if not e.elts:
            return [(p, self.new_list(p, T.EMPTY()))]       # a list object with identity (it may escape)
        res = [(p, [])]
        for el in e.elts:
            nxt = []
            for (q, items) in res:
                if isinstance(items, VRaise):
                    nxt.append((q, items))
                    continue
                for (r, v) in self.eval(el, q):
                    nxt.append((r, v if isinstance(v, VRaise) else items + [v]))
            res = nxt
        out = []
        for (q, items) in res:
            if isinstance(items, VRaise):
                out.append((q, items))
            elif all(isinstance(i, (VRef, VCallback)) for i in items):
                cn = None
                cns = {getattr(i, "cname", None) for i in items}
                if len(cns) == 1:
                    cn = cns.pop()
                out.append((q, self.new_list(q, T.seq_of(*[i.term for i in items]), cn)))
            elif all(isinstance(i, VStr) for i in items):
                sq = z3.Unit(items[0].term) if len(items) == 1 else z3.Concat(*[z3.Unit(i.term) for i in items])
                out.append((q, self.new_strlist(q, sq)))
            elif all(isinstance(i, VInt) for i in items):
                out.append((q, VOpaque("intlist")))
            else:
                out.append((q, VPyTuple(items)))
        return out

    def ev_Dict(self, e, p):
        if not e.keys:
            return [(p, self.new_dict(p))]
        res = [(p, [])]
        for k, v in zip(e.keys, e.values):
            nxt = []
            for (q, items) in res:
                if isinstance(items, VRaise):
                    nxt.append((q, items))
                    continue
                for (r, kv) in self.eval(k, q):
                    if isinstance(kv, VRaise):
                        nxt.append((r, kv))
                        continue
                    for (r2, vv) in self.eval(v, r):
                        nxt.append((r2, vv if isinstance(vv, VRaise) else items + [(kv, vv)]))
            res = nxt
        return [(q, it if isinstance(it, VRaise) else VConst(("pydict", it))) for (q, it) in res]

    def ev_IfExp(self, e, p):
        out = []
        for (q, c) in self.eval_cond(e.test, p):
            if isinstance(c, VRaise):
                out.append((q, c))
                continue
            for (r, side) in self.fork(q, c, f"ifexp@{e.lineno}"):
                out.extend(self.eval(e.body if side else e.orelse, r))
        return out

    def ev_JoinedStr(self, e, p):
        """f-string: exact when every piece is a constant or a string-valued expression without format spec; otherwise an
        opaque value (messages of exceptions, labels)"""
        res = [(p, [])]
        for part in e.values:
            nxt = []
            for (q, acc) in res:
                if acc is None or isinstance(acc, VRaise):
                    nxt.append((q, acc))
                    continue
                if isinstance(part, ast.Constant):
                    nxt.append((q, acc + [z3.StringVal(part.value)]))
                elif isinstance(part, ast.FormattedValue) and part.format_spec is None and part.conversion == -1 and self.is_pure([part.value]):
                    try:
                        rs = self.eval(part.value, q)
                    except Unsupported:
                        nxt.append((q, None))
                        continue
                    for (r, v) in rs:
                        if isinstance(v, VStr):
                            nxt.append((r, acc + [v.term]))
                        elif isinstance(v, VInt):
                            nxt.append((r, acc + [z3.IntToStr(v.term)]))
                        elif isinstance(v, VRef) and v.role == "opaque" and getattr(self.cur, "module", "").endswith("plantuml"):
                            nxt.append((r, acc + [T.py_str(v.term)]))
                        else:
                            nxt.append((r, None))
                elif isinstance(part, ast.FormattedValue) and part.format_spec is None and part.conversion == -1:
                    # an expression that may fork (subscripts, attribute reads): exact where its value has a string form
                    try:
                        rs = self.eval(part.value, q)
                    except Unsupported:
                        nxt.append((q, None))
                        continue
                    for (r, v) in rs:
                        if isinstance(v, VRaise):
                            nxt.append((r, v))
                        elif isinstance(v, VStr):
                            nxt.append((r, acc + [v.term]))
                        elif isinstance(v, VInt):
                            nxt.append((r, acc + [z3.IntToStr(v.term)]))
                        elif isinstance(v, VRef) and v.role == "opaque":
                            nxt.append((r, acc + [T.py_str(v.term)]))      # format(value, ""): the str() of an opaque value
                        else:
                            nxt.append((r, None))
                else:
                    nxt.append((q, None))
            res = nxt
        out = []
        for (q, acc) in res:
            if isinstance(acc, VRaise):
                out.append((q, acc))
            elif acc is None:
                out.append((q, VOpaque("fstring")))
            elif not acc:
                out.append((q, VStr(z3.StringVal(""))))
            else:
                out.append((q, VStr(acc[0] if len(acc) == 1 else z3.Concat(*acc))))
        return out

    def ev_UnaryOp(self, e, p):
        if isinstance(e.op, ast.Not):
            return [(q, c if isinstance(c, VRaise) else VBool(c)) for (q, c) in self.eval_cond(e, p)]
        if isinstance(e.op, ast.USub):
            return bind(self.eval(e.operand, p), lambda q, v: [(q, VInt(-v.term))] if isinstance(v, VInt) else self._unsup("unary minus"))
        raise Unsupported("unary op")

    def _unsup(self, what):
        raise Unsupported(what)

    def ev_BoolOp(self, e, p):
        # value context: `a or b` / `a and b` yield one of the operands
        is_and = isinstance(e.op, ast.And)
        out = []
        pend = [(p, 0)]
        while pend:
            q, i = pend.pop()
            for (r, v) in self.eval(e.values[i], q):
                if isinstance(v, VRaise) or i == len(e.values) - 1:
                    out.append((r, v))
                    continue
                for (r2, side) in self.fork(r, self.truth(v, r), f"boolv@{e.lineno}"):
                    if side != is_and:
                        out.append((r2, v))
                    else:
                        pend.append((r2, i + 1))
        return out

    def ev_BinOp(self, e, p):
        def k1(q, a):
            return bind(self.eval(e.right, q), lambda r, b: self.binop(e.op, a, b, r))
        return bind(self.eval(e.left, p), k1)

    def binop(self, op, a, b, p, aug=False):
        if isinstance(a, VInt) and isinstance(b, VInt):
            if isinstance(op, ast.Add):
                return [(p, VInt(a.term + b.term))]
            if isinstance(op, ast.Sub):
                return [(p, VInt(a.term - b.term))]
            if isinstance(op, ast.Mult):
                return [(p, VInt(a.term * b.term))]
        if isinstance(a, VSet) and isinstance(b, VSet) and isinstance(op, ast.BitOr) and aug:
            bref, aref = b.ref, a.ref
            st0 = p.st.copy()
            p.st.write_where("setmem", lambda ad, aref=aref, bref=bref, st0=st0: (
                T.conj(T.eq(ad[0], aref), st0.read("setmem", bref, ad[1])), z3.BoolVal(True)))
            return [(p, None)]
        if isinstance(a, VStr) and isinstance(b, VStr) and isinstance(op, ast.Add):
            return [(p, VStr(z3.Concat(a.term, b.term)))]
        if isinstance(a, VList) and a.elem_cname in (None, "<str>") and isinstance(b, VStr) and isinstance(op, ast.Add) and aug:
            # list += "text": the list is extended by the characters of the string
            p.st.write("selems", a.ref, z3.Concat(p.st.read("selems", a.ref), T.chars(b.term)))
            return [(p, None)]
        if isinstance(a, VSet) and isinstance(b, VStrSet) and isinstance(op, ast.BitOr) and aug:
            return [(p, None)]          # a set of strings whose contents are not modelled
        if isinstance(a, (VOpaque, VStr)) or isinstance(b, (VOpaque, VStr)):
            return [(p, VOpaque("concat"))]
        raise Unsupported(f"binary {type(op).__name__} on {type(a).__name__}, {type(b).__name__}")

    def ev_Compare(self, e, p):
        if len(e.ops) != 1:
            raise Unsupported("chained comparison")
        op = e.ops[0]

        def k1(q, a):
            return bind(self.eval(e.comparators[0], q), lambda r, b: [(r, VBool(self.compare(op, a, b, r)))])
        return bind(self.eval(e.left, p), k1)

    def key_ref(self, v):
        """a value used as dictionary key: references, classes (as values) and 2-tuples of those"""
        if isinstance(v, VCls):
            return T.cls_ref(v.term)
        if isinstance(v, VPyTuple) and len(v.items) == 2:
            a, b = self.key_ref(v.items[0]), self.key_ref(v.items[1])
            if a is not None and b is not None:
                return T.mkpair(a, b)
        return self.ref_of(v)

    def ref_of(self, v):
        if isinstance(v, VMeta):
            return v.term
        if isinstance(v, (VRef, VCallback, VAttrs, VAdj, VOptTable, VOpts)):
            return v.term
        if isinstance(v, (VList, VSet, VDict, VNet)):
            return v.ref
        return None

    def compare(self, op, a, b, p):
        if isinstance(op, (ast.Is, ast.IsNot, ast.Eq, ast.NotEq)):
            negate = isinstance(op, (ast.IsNot, ast.NotEq))
            ident = isinstance(op, (ast.Is, ast.IsNot))
            ra, rb = self.ref_of(a), self.ref_of(b)
            if isinstance(a, VIter) and is_none_const(b) and a.is_none is not None:
                c = a.is_none
            elif ra is not None and rb is not None:
                opaque = (isinstance(a, VRef) and a.role == "opaque") or (isinstance(b, VRef) and b.role == "opaque")
                if ident or not opaque:
                    c = T.eq(ra, rb)                       # identity (A4 for ==)
                else:
                    c = py_eq(ra, rb)
            elif isinstance(a, VRef) and isinstance(b, VCls):
                c = T.eq(a.term, T.cls_ref(b.term))          # a class seen as a value (component of a registry key)
            elif isinstance(a, VCls) and isinstance(b, VRef):
                c = T.eq(T.cls_ref(a.term), b.term)
            elif isinstance(a, VInt) and isinstance(b, VInt):
                c = T.eq(a.term, b.term)
            elif isinstance(a, VBool) and isinstance(b, VBool):
                c = T.eq(a.term, b.term)
            elif isinstance(a, VCls) and isinstance(b, VCls):
                c = T.eq(a.term, b.term)
            elif isinstance(a, VStr) and isinstance(b, VStr):
                c = T.eq(a.term, b.term)
            elif isinstance(a, VSeq) and isinstance(b, VSeq) and not ident:
                c = T.eq(a.term, b.term)
            elif isinstance(a, VRef) and a.role == "opaque" and isinstance(b, VStr) and not ident:
                c = py_eq(a.term, str_box(b.term))
            elif isinstance(a, VStr) and isinstance(b, VRef) and b.role == "opaque" and not ident:
                c = py_eq(str_box(a.term), b.term)
            elif isinstance(a, VInt) and isinstance(b, VRef) and b.role == "opaque" and not ident:
                c = py_eq(int_box(a.term), b.term)
            elif isinstance(a, VRef) and a.role == "opaque" and isinstance(b, VInt) and not ident:
                c = py_eq(a.term, int_box(b.term))
            else:
                raise Unsupported(f"comparison of {type(a).__name__} with {type(b).__name__}")
            return T.neg(c) if negate else c
        if isinstance(op, ast.GtE) and isinstance(a, VRef) and a.role == "opaque" and isinstance(b, VInt):
            return T.py_ge(a.term, b.term)
        if isinstance(op, (ast.Lt, ast.LtE, ast.Gt, ast.GtE)):
            if isinstance(a, VInt) and isinstance(b, VInt):
                return {ast.Lt: a.term < b.term, ast.LtE: a.term <= b.term, ast.Gt: a.term > b.term, ast.GtE: a.term >= b.term}[type(op)]
            raise Unsupported("ordering comparison")
        if isinstance(op, (ast.In, ast.NotIn)):
            c = self.contains(b, a, p)
            return T.neg(c) if isinstance(op, ast.NotIn) else c
        raise Unsupported("compare op")

    def contains(self, cont, x, p):
        xr = self.ref_of(x)
        if isinstance(cont, VSeq) and xr is not None:
            return T.Mem(cont.term, xr)
        if isinstance(cont, VOwned) and xr is not None:
            return T.Mem(p.st.read(cont.fieldname, cont.owner), xr)
        if isinstance(cont, VList) and xr is not None:
            return T.Mem(p.st.elems(cont.ref), xr)
        if isinstance(cont, VSet) and xr is not None:
            return p.st.read("setmem", cont.ref, xr)
        if isinstance(cont, VDict) and xr is not None:
            return T.Mem(p.st.read("dkeys", cont.ref), xr)
        if isinstance(cont, VOptTable):
            if isinstance(x, VCls):
                return p.st.read("opt_has", cont.term, x.term)
            if isinstance(x, VStr) and z3.is_string_value(x.term) and x.term.as_string() == "skinparams":
                return T.opt_has_skin(cont.term)
            raise Unsupported("`in` on an option table with this kind of key")
        if isinstance(cont, VOpts) and isinstance(x, VStr):
            return p.st.read("od_has", cont.term, x.term)
        if isinstance(cont, VConst) and isinstance(cont.value, tuple) and cont.value[0] == "memo":
            owner = cont.value[1]
            d, u, f = self.memo_key(x)
            return p.st.memo_has(owner, d, u, f)
        if isinstance(cont, VConst) and cont.value == ("tmap",) and isinstance(x, VCls):
            return p.st.read("tmap_has", x.term)
        if isinstance(cont, VConst) and isinstance(cont.value, tuple) and cont.value[0] == "smap":
            k = self.key_ref(x)
            if k is not None:
                return p.st.read("smap_has", cont.value[1], k)
        raise Unsupported(f"`in` on {type(cont).__name__}")

    def memo_key(self, key):
        if isinstance(key, VPyTuple) and len(key.items) == 3:
            d, u, f = key.items
            if isinstance(d, VInt) and isinstance(u, VInt) and isinstance(f, (VCallback, VRef)):
                return d.term, u.term, f.term
        raise Unsupported("neighbor-cache key of unexpected shape")

    # ------------------------------------------------------------------ attributes
    def ev_Attribute(self, e, p):
        attr = self.mangle(e.attr)
        # super().x
        if isinstance(e.value, ast.Call) and isinstance(e.value.func, ast.Name) and e.value.func.id == "super" and not e.value.args:
            selfv = p.env.get("self")
            return self.load_attr(selfv, attr, p, via_super=self.cur.cls)
        return bind(self.eval(e.value, p), lambda q, recv: self.load_attr(recv, attr, q))

    def resolve_class_member(self, cname, attr, via_super=None):
        """-> (kind, payload, owner) looked up statically in the repo class table, or None"""
        if cname is None or cname not in self.repo.classes:
            return None
        return self.repo.find_member(cname, attr, after=via_super)

    def load_attr(self, recv: V, attr: str, p: Path, via_super=None):
        if isinstance(recv, VModule):
            if recv.dotted.startswith("ext:"):
                return [(p, VModule(recv.dotted + "." + attr))]
            mod = self.repo.modules.get(recv.dotted)
            if mod is None or attr not in mod.names:
                raise Unsupported(f"{recv.dotted}.{attr}")
            return [(p, self.module_member(mod, attr))]
        if isinstance(recv, VCls):
            return self.load_class_attr(recv, attr, p)
        if isinstance(recv, VMeta):
            if attr == "_SemiSingleton__semisingleton_instance_map":
                return [(p, VConst(("smap", recv.term)))]
            if attr == "_SemiSingleton__semisingleton_hashfunc":
                return [(p, VCallback(T.hf_of(recv.term), "hf"))]
            raise Unsupported(f"metaclass attribute {attr}")
        if isinstance(recv, (VList, VSet, VDict, VOwned, VSeq, VGlobalDict, VStr, VOpaque, VAttrs, VAdj, VNet, VOptTable, VOpts, VStrSet)):
            return [(p, VBound(recv, attr))]
        if isinstance(recv, VRef) and recv.role == "opaque" and attr == "items" and getattr(self.cur, "module", "").endswith("plantuml"):
            return [(p, VBound(VAttrs(recv.term), "items"))]      # an option value used as a dictionary
        if isinstance(recv, VConst) and isinstance(recv.value, tuple) and recv.value[0] in ("memo", "dyndict", "pydict", "smap"):
            return [(p, VBound(recv, attr))]
        if isinstance(recv, VConst) and recv.value == ("uuid4",) and attr == "int":
            u = T.fresh("uuid", Int)         # A9: uuid4().int is an arbitrary positive integer
            p.assume(u > 0)
            return [(p, VInt(u))]
        if isinstance(recv, VCallback):
            raise Unsupported("attribute of callback")
        if not isinstance(recv, VRef):
            raise Unsupported(f"attribute {attr} of {type(recv).__name__}")
        out = []
        # None receiver
        paths = [p]
        if not z3.is_false(T.eq(recv.term, NONE)) and not recv.term.eq(NONE):
            paths = []
            for (q, side) in self.fork(p, recv.term == NONE, f"None.{attr}"):
                if side:
                    out.append((q, VRaise("AttributeError", f"None.{attr}")))
                else:
                    paths.append(q)
        elif recv.term.eq(NONE):
            return [(p, VRaise("AttributeError", f"None.{attr}"))]
        for q in paths:
            out.extend(self._load_attr_obj(recv, attr, q, via_super))
        return out

    def _member_owner(self, recv: VRef, attr, via_super=None):
        """static resolution of a class-level member; returns (member, need_downcast_class or None)"""
        cn = recv.cname
        mem = self.resolve_class_member(cn, attr, via_super)
        if mem is not None:
            return mem, None
        if via_super:
            return None, None
        # defined on a subclass of the static class (or static class unknown): unique owner chain required
        cands = []
        for c, ci in self.repo.classes.items():
            if attr in ci.getters or attr in ci.methods:
                if cn is None or self.repo.is_subclass(c, cn):
                    cands.append(c)
        if not cands:
            return None, None
        tops = [c for c in cands if not any(o != c and self.repo.is_subclass(c, o) for o in cands)]
        if len(tops) != 1:
            raise Unsupported(f"attribute {attr} is ambiguous for static class {cn}: {tops}")
        return self.repo.find_member(tops[0], attr), tops[0]

    PICKLER = "_NonrecursivePickler"

    def _load_attr_obj(self, recv: VRef, attr, p: Path, via_super=None):
        if recv.cname == self.PICKLER:
            # instance layout established by _NonrecursivePickler.__init__ (side condition A13): `lazywrites` is a list object,
            # `write` is the bound method lazywrite, `realwrite` the file's write; realsave / realmemoize are dill's methods
            if attr == "lazywrites":
                return [(p, VList(p.st.read("dyn_val", recv.term, z3.StringVal("lazywrites")), None))]
            if attr == "write":
                return [(p, VBound(recv, "lazywrite"))]
            if attr in ("realwrite", "realsave", "realmemoize"):
                return [(p, VBound(recv, attr))]
        if attr == "obj" and recv.role == "opaque" and getattr(self.cur, "module", "").endswith("nrpickler"):
            return [(p, VRef(T.item_obj(recv.term), None, "opaque"))]       # payload of a queue item (a record value, A13)
        mem, down = self._member_owner(recv, attr, via_super)
        if mem is not None:
            out = []
            paths = [p]
            if down is not None:
                paths = []
                for (q, side) in self.fork(p, self.ct.is_a(recv.term, down), f"is{down}"):
                    if side:
                        paths.append(q)
                    else:
                        out.append((q, VRaise("AttributeError", f"{attr} needs {down}")))
            kind, payload, owner = mem
            for q in paths:
                r2 = VRef(recv.term, down or recv.cname, recv.role) if down else recv
                if kind == "property":
                    qn = self.contract_name_for(owner, attr)
                    out.extend(self.call_contract(qn, {"self": r2}, q))
                elif kind == "method":
                    out.append((q, VBound(r2, attr, via_super)))
                elif kind == "classattr":
                    out.append((q, self.class_attr_value(owner, attr, q)))
            return out
        if attr in SEQ_FIELDS:
            return [(p, VOwned(attr, recv.term, SEQ_FIELDS[attr]))]
        if attr == "_uid":
            return [(p, VInt(p.st.uid(recv.term)))]
        if attr in SCALAR_REF_FIELDS:
            cn = SCALAR_REF_FIELDS[attr]
            return [(p, VRef(p.st.read(attr, recv.term), cn, "obj" if cn else "opaque"))]
        if attr == MEMO_ATTR:
            return [(p, VConst(("memo", recv.term)))]
        if attr == "__dict__":
            return [(p, VConst(("dyndict", recv.term)))]
        if attr.startswith("_") and not attr.startswith("__make_pyvis"):
            raise Unsupported(f"unknown private attribute {attr}")
        # dynamic instance attribute
        name = z3.StringVal(attr)
        out = []
        for (q, side) in self.fork(p, p.st.read("dyn_has", recv.term, name), f"has.{attr}"):
            if side:
                out.append((q, VRef(q.st.read("dyn_val", recv.term, name), None, "opaque")))
            else:
                out.append((q, VRaise("AttributeError", attr)))
        return out

    def class_attr_value(self, owner, attr, p: Path):
        if owner == "Vertex" and attr == "NEIGHBOR_CACHING":
            return VBool(p.st.caching())
        if owner == "Vertex" and attr == "_QA_NB_INVALID":
            return VRef(T.QA_INVALID, None, "opaque")
        if owner == "Vertex" and attr == "_CACHE_STATS":
            return VGlobalDict("stats")
        raise Unsupported(f"class attribute {owner}.{attr}")

    def load_class_attr(self, recv: VCls, attr, p):
        if attr == "_TrueSingleton__singleton_instances":
            return [(p, VConst(("tmap",)))]
        if attr == "_SemiSingleton__semisingleton_instance_map":
            return [(p, VConst(("smap", T.meta_of(recv.term))))]
        if attr == "_SemiSingleton__semisingleton_hashfunc":
            return [(p, VCallback(T.hf_of(T.meta_of(recv.term)), "hf"))]
        if recv.pyname and recv.pyname in self.repo.classes:
            mem = self.repo.find_member(recv.pyname, attr)
            if mem and mem[0] == "classattr":
                return [(p, self.class_attr_value(mem[2], attr, p))]
            if mem and mem[0] == "method":
                return [(p, VFunc(f"{mem[2]}.{attr}"))]
        if attr == "__name__":
            return [(p, VStr(T.cls_name(recv.term)))]
        if attr == "__mro__":
            return [(p, VMro(recv.term))]
        raise Unsupported(f"class attribute {attr}")

    def contract_name_for(self, owner, attr, setter=False):
        qn = f"{owner}.{attr}" + (".setter" if setter else "")
        return qn

    def store_attr(self, recv: V, attr: str, v: V, p: Path):
        if isinstance(recv, VCls) and attr == "_TrueSingleton__singleton_instances" and isinstance(v, VDict):
            p.st.write_where("tmap_has", lambda a: (z3.BoolVal(True), z3.BoolVal(False)))      # rebinding the registry to {}
            return [(p, None)]
        if isinstance(recv, (VCls, VMeta)) and attr == "_SemiSingleton__semisingleton_instance_map" and isinstance(v, VDict):
            M = T.meta_of(recv.term) if isinstance(recv, VCls) else recv.term
            p.st.write_where("smap_has", lambda a, M=M: (T.eq(a[0], M), z3.BoolVal(False)))
            return [(p, None)]
        if isinstance(recv, VCls):
            if recv.pyname == "Vertex" and attr == "NEIGHBOR_CACHING" and isinstance(v, VBool):
                p.st.write("CACHING", (), v.term)
                return [(p, None)]
            raise Unsupported(f"store to class attribute {attr}")
        if isinstance(recv, VNet):
            if attr == "directed" and isinstance(v, VBool):
                p.st.write("net_directed", recv.ref, v.term)
                return [(p, None)]
            raise Unsupported(f"store to attribute {attr} of a pyvis network")
        if isinstance(recv, VOpaque) and recv.what.startswith("ext:"):
            return [(p, None)]          # attribute of a third-party object (A10)
        if not isinstance(recv, VRef):
            raise Unsupported(f"store attribute on {type(recv).__name__}")
        out = []
        paths = [p]
        if not recv.term.eq(NONE):
            paths = []
            for (q, side) in self.fork(p, recv.term == NONE, f"None.{attr}="):
                if side:
                    out.append((q, VRaise("AttributeError", f"None.{attr}")))
                else:
                    paths.append(q)
        else:
            return [(p, VRaise("AttributeError"))]
        for q in paths:
            out.extend(self._store_attr_obj(recv, attr, v, q))
        return out

    def _store_attr_obj(self, recv: VRef, attr, v, p: Path):
        # property with setter?
        cn = recv.cname
        owner = None
        if cn is not None:
            for c in self.repo.mro(cn):
                ci = self.repo.classes.get(c)
                if ci and (attr in ci.setters or attr in ci.getters):
                    owner = c
                    has_setter = attr in ci.setters
                    break
        else:
            cands = [c for c, ci in self.repo.classes.items() if attr in ci.getters]
            if cands:
                raise Unsupported(f"store to property {attr} on object of unknown class")
        if owner is not None:
            if not has_setter:
                # a getter-only property in this class; a base class may define the setter
                base_setter = None
                for c in self.repo.mro(cn):
                    ci = self.repo.classes.get(c)
                    if ci and attr in ci.setters:
                        base_setter = c
                        break
                if base_setter is None:
                    return [(p, VRaise("AttributeError", f"read-only property {attr}"))]
                owner = base_setter
            return self.call_contract(f"{owner}.{attr}.setter", {"self": recv, "new": v}, p, positional_rest=True)
        if attr in SEQ_FIELDS:
            if isinstance(v, VSeq):
                p.st.write(attr, recv.term, v.term)
            elif isinstance(v, VList):
                p.st.write(attr, recv.term, p.st.elems(v.ref))
            else:
                raise Unsupported(f"assignment of {type(v).__name__} to {attr}")
            return [(p, None)]
        if attr == "_uid":
            if isinstance(v, VInt):
                p.st.write("_uid", recv.term, v.term)
                return [(p, None)]
            raise Unsupported("_uid value")
        if attr in SCALAR_REF_FIELDS:
            r = self.ref_of(v)
            if r is None:
                if isinstance(v, VBool):
                    r = T.ite(v.term, T.PY_TRUE, T.PY_FALSE)
                else:
                    raise Unsupported(f"store {type(v).__name__} to {attr}")
            p.st.write(attr, recv.term, r)
            return [(p, None)]
        if attr == MEMO_ATTR:
            # only `= {}` is supported
            if isinstance(v, VDict):
                rr = recv.term
                p.st.write_where("memo_has", lambda a, rr=rr: (T.eq(a[0], rr), z3.BoolVal(False)))
                return [(p, None)]
            raise Unsupported("memo assignment")
        if attr.startswith("_") and not attr.startswith("__make_pyvis"):
            raise Unsupported(f"store to unknown private attribute {attr}")
        return self.set_dyn(recv.term, z3.StringVal(attr), v, p)

    def set_dyn(self, obj, name, v, p):
        r = self.ref_of(v)
        if r is None:
            if isinstance(v, VInt):
                r = int_box(v.term)
                p.assume(T.int_unbox(r) == v.term)
            elif isinstance(v, VStr):
                r = str_box(v.term)
            else:
                raise Unsupported(f"dynamic attribute value {type(v).__name__}")
        p.st.write("dyn_has", (obj, name), z3.BoolVal(True))
        p.st.write("dyn_val", (obj, name), r)
        return [(p, None)]

    def del_attr(self, recv, attr, p):
        if not isinstance(recv, VRef):
            raise Unsupported("del attribute")
        name = z3.StringVal(attr)
        out = []
        for (q, side) in self.fork(p, p.st.read("dyn_has", recv.term, name), f"delhas.{attr}"):
            if side:
                q.st.write("dyn_has", (recv.term, name), z3.BoolVal(False))
                out.append((q, None))
            else:
                out.append((q, ("raise", VRaise("AttributeError", attr))))
        return out

    # ------------------------------------------------------------------ subscripts
    def ev_Subscript(self, e, p):
        if isinstance(e.slice, ast.Slice):
            return self.ev_slice(e, p)

        def k1(q, recv):
            return bind(self.eval(e.slice, q), lambda r, idx: self.load_item(recv, idx, r))
        return bind(self.eval(e.value, p), k1)

    def ev_slice(self, e, p):
        """seq[lo:hi] with non-negative bounds (no step): a new list / tuple"""
        sl = e.slice
        if sl.step is not None:
            raise Unsupported("slice with a step")

        def bound(node, q, default):
            if node is None:
                return [(q, default)]
            return [(r, v.term if isinstance(v, VInt) else None) for (r, v) in self.eval(node, q) if not isinstance(v, VRaise)]
        out = []
        for (q, recv) in self.eval(e.value, p):
            if isinstance(recv, VRaise):
                out.append((q, recv))
                continue
            if isinstance(recv, VStr):
                for (r, lo) in bound(sl.lower, q, z3.IntVal(0)):
                    for (r2, hi) in bound(sl.upper, r, z3.Length(recv.term)):
                        n = z3.Length(recv.term)

                        def clamps(b, n=n):
                            b1 = T.ite(b < 0, b + n, b)
                            return T.ite(b1 < 0, z3.IntVal(0), T.ite(b1 > n, n, b1))
                        lo2, hi2 = clamps(lo), clamps(hi)
                        out.append((r2, VStr(z3.SubString(recv.term, lo2, T.ite(hi2 > lo2, hi2 - lo2, z3.IntVal(0))))))
                continue
            seq, ecn = self.iter_seq(q, recv) if isinstance(recv, (VList, VSeq, VOwned)) else (None, None)
            if seq is None:
                raise Unsupported("slice of " + type(recv).__name__)
            for (r, lo) in bound(sl.lower, q, z3.IntVal(0)):
                for (r2, hi) in bound(sl.upper, r, T.Len(seq)):
                    if lo is None or hi is None:
                        raise Unsupported("slice bound")
                    n = T.Len(seq)

                    def clamp(b):       # Python's slice bound normalisation
                        b1 = T.ite(b < 0, b + n, b)
                        return T.ite(b1 < 0, z3.IntVal(0), T.ite(b1 > n, n, b1))
                    lo2, hi2 = clamp(lo), clamp(hi)
                    part = z3.SubSeq(seq, lo2, T.ite(hi2 > lo2, hi2 - lo2, z3.IntVal(0)))
                    if isinstance(recv, VList):
                        out.append((r2, self.new_list(r2, part, ecn)))
                    else:
                        out.append((r2, VSeq(part, ecn, "tuple")))
        return out

    def load_item(self, recv, idx, p: Path):
        seq = None
        ecn = None
        if isinstance(recv, VSeq):
            seq, ecn = recv.term, recv.elem_cname
        elif isinstance(recv, VOwned):
            seq, ecn = p.st.read(recv.fieldname, recv.owner), recv.elem_cname
        elif isinstance(recv, VList):
            seq, ecn = p.st.elems(recv.ref), recv.elem_cname
        if seq is not None:
            if not isinstance(idx, VInt):
                raise Unsupported("index type")
            i = idx.term
            out = []
            if z3.is_int_value(i) and i.as_long() >= 0:
                n = i.as_long()
                for (q, side) in self.fork(p, T.Len(seq) > n, f"idx{n}"):
                    if side:
                        out.append((q, VRef(T.Nth(seq, n), ecn, "obj" if ecn else "opaque")))
                    else:
                        out.append((q, VRaise("IndexError")))
                return out
            inr = z3.And(i >= 0, i < T.Len(seq))
            for (q, side) in self.fork(p, inr, "idx"):
                if side:
                    out.append((q, VRef(T.Nth(seq, i), ecn, "obj" if ecn else "opaque")))
                else:
                    # negative indices are not modelled
                    out.append((q, VRaise("IndexError")))
            return out
        if isinstance(recv, VPyTuple) and isinstance(idx, VInt):
            i = idx.term
            if z3.is_int_value(i):
                return [(p, recv.items[i.as_long()])]
            # symbolic index into a small tuple of references
            if all(isinstance(x, VRef) for x in recv.items):
                t = recv.items[-1].term
                for k in range(len(recv.items) - 2, -1, -1):
                    t = T.ite(i == k, recv.items[k].term, t)
                out = []
                for (q, side) in self.fork(p, z3.And(i >= 0, i < len(recv.items)), "tupidx"):
                    if side:
                        out.append((q, VRef(t, recv.items[0].cname, recv.items[0].role)))
                    else:
                        out.append((q, VRaise("IndexError")))
                return out
        if isinstance(recv, VGlobalDict) and recv.name == "stats" and isinstance(idx, VInt):
            out = []
            for (q, side) in self.fork(p, p.st.read("stats_has", idx.term), "stats"):
                out.append((q, VOpaque("counters")) if side else (q, VRaise("KeyError")))
            return out
        if isinstance(recv, VOpaque):
            return [(p, VOpaque("item"))]
        if isinstance(recv, VConst) and isinstance(recv.value, tuple) and recv.value[0] == "memo":
            owner = recv.value[1]
            d, u, f = self.memo_key(idx)
            out = []
            for (q, side) in self.fork(p, p.st.memo_has(owner, d, u, f), "memo"):
                if side:
                    out.append((q, VList(q.st.memo_val(owner, d, u, f), "Vertex")))
                else:
                    out.append((q, VRaise("KeyError")))
            return out
        if isinstance(recv, VConst) and recv.value == ("tmap",) and isinstance(idx, VCls):
            out = []
            for (q, side) in self.fork(p, p.st.read("tmap_has", idx.term), "tmap"):
                out.append((q, VRef(q.st.read("tmap_val", idx.term), None, "opaque")) if side else (q, VRaise("KeyError")))
            return out
        if isinstance(recv, VConst) and isinstance(recv.value, tuple) and recv.value[0] == "smap":
            k = self.key_ref(idx)
            if k is None:
                raise Unsupported("registry key")
            M = recv.value[1]
            out = []
            for (q, side) in self.fork(p, p.st.read("smap_has", M, k), "smap"):
                out.append((q, VRef(q.st.read("smap_val", M, k), None, "opaque")) if side else (q, VRaise("KeyError")))
            return out
        if isinstance(recv, VRef) and recv.role == "opaque" and isinstance(idx, VInt) and z3.is_int_value(idx.term) \
                and idx.term.as_long() in (0, 1) and getattr(self.cur, "module", "").endswith("singleton"):
            return [(p, VRef((T.pfst if idx.term.as_long() == 0 else T.psnd)(recv.term), None, "opaque"))]     # registry keys are pairs
        if isinstance(recv, VOptTable):
            if isinstance(idx, VCls):
                out = []
                for (q, side) in self.fork(p, p.st.read("opt_has", recv.term, idx.term), "optkey"):
                    out.append((q, VOpts(q.st.read("opt_get", recv.term, idx.term))) if side else (q, VRaise("KeyError")))
                return out
            if isinstance(idx, VStr) and z3.is_string_value(idx.term) and idx.term.as_string() == "skinparams":
                out = []
                for (q, side) in self.fork(p, T.opt_has_skin(recv.term), "skinkey"):
                    out.append((q, VAttrs(T.opt_skin(recv.term))) if side else (q, VRaise("KeyError")))
                return out
            raise Unsupported("option table subscript")
        if isinstance(recv, VOpts) and isinstance(idx, VStr):
            out = []
            for (q, side) in self.fork(p, p.st.read("od_has", recv.term, idx.term), "optname"):
                out.append((q, VRef(q.st.read("od_val", recv.term, idx.term), None, "opaque")) if side else (q, VRaise("KeyError")))
            return out
        if isinstance(recv, VMro) and isinstance(idx, VInt):
            out = []
            for (q, side) in self.fork(p, z3.And(idx.term >= 0, idx.term < T.mro_len(recv.cls)), "mroidx"):
                out.append((q, VCls(T.mro_at(recv.cls, idx.term), None)) if side else (q, VRaise("IndexError")))
            return out
        if isinstance(recv, VRef) and isinstance(idx, VStr):
            # BaseObject.__getitem__ -> getattr
            return self.call_contract("BaseObject.__getitem__", {"self": recv, "name": idx}, p)
        raise Unsupported(f"subscript of {type(recv).__name__}")

    def store_item(self, recv, idx, v, p: Path):
        if isinstance(recv, VOwned) and isinstance(idx, VInt):
            seq = p.st.read(recv.fieldname, recv.owner)
            i = idx.term
            x = self.ref_of(v)
            out = []
            cases = []
            if z3.is_int_value(i):
                cases = [(z3.BoolVal(True), i.as_long())]
            else:
                cases = [(i == 0, 0), (i == 1, 1)]
                if self.feasible(p, z3.Not(z3.Or(i == 0, i == 1))):
                    raise Unsupported("item assignment with an index not known to be 0 or 1")
            for (c, n) in cases:
                for (q, side) in self.fork(p, c, f"setidx{n}"):
                    if not side:
                        continue
                    for (r, ok) in self.fork(q, T.Len(seq) > n, f"len>{n}"):
                        if ok:
                            r.st.write(recv.fieldname, recv.owner, T.SetNth(seq, n, x))
                            out.append((r, None))
                        else:
                            out.append((r, VRaise("IndexError")))
            return out
        if isinstance(recv, VConst) and isinstance(recv.value, tuple) and recv.value[0] == "memo":
            owner = recv.value[1]
            d, u, f = self.memo_key(idx)
            if not isinstance(v, VList):
                raise Unsupported("memo value")
            p.st.write("memo_has", (owner, d, u, f), z3.BoolVal(True))
            p.st.write("memo_val", (owner, d, u, f), v.ref)
            return [(p, None)]
        if isinstance(recv, VConst) and recv.value == ("tmap",) and isinstance(idx, VCls):
            r_ = self.ref_of(v)
            if r_ is None:
                raise Unsupported("registry value")
            p.st.write("tmap_has", (idx.term,), z3.BoolVal(True))
            p.st.write("tmap_val", (idx.term,), r_)
            return [(p, None)]
        if isinstance(recv, VConst) and isinstance(recv.value, tuple) and recv.value[0] == "smap":
            k, r_ = self.key_ref(idx), self.ref_of(v)
            if k is None or r_ is None:
                raise Unsupported("registry key / value")
            p.st.write("smap_has", (recv.value[1], k), z3.BoolVal(True))
            p.st.write("smap_val", (recv.value[1], k), r_)
            return [(p, None)]
        if isinstance(recv, VOpts) and isinstance(idx, VStr):
            r_ = self.ref_of(v)
            if r_ is None:
                raise Unsupported("option value")
            p.st.write("od_has", (recv.term, idx.term), z3.BoolVal(True))
            p.st.write("od_val", (recv.term, idx.term), r_)
            return [(p, None)]
        if isinstance(recv, VOptTable) and isinstance(idx, VCls) and isinstance(v, VOpts):
            p.st.write("opt_has", (recv.term, idx.term), z3.BoolVal(True))
            p.st.write("opt_get", (recv.term, idx.term), v.term)
            return [(p, None)]
        if isinstance(recv, VDict):
            k = self.ref_of(idx)
            if k is None:
                raise Unsupported("dict key")
            keys = p.st.read("dkeys", recv.ref)
            p.st.write("dkeys", recv.ref, T.ite(T.Mem(keys, k), keys, T.snoc(keys, k)))    # insertion order (A9)
            return [(p, None)]
        if isinstance(recv, VOpaque):
            return [(p, None)]
        raise Unsupported(f"item store on {type(recv).__name__}")

    def del_item(self, recv, idx, p):
        if isinstance(recv, VConst) and recv.value == ("tmap",) and isinstance(idx, VCls):
            out = []
            for (q, side) in self.fork(p, p.st.read("tmap_has", idx.term), "deltmap"):
                if side:
                    q.st.write("tmap_has", (idx.term,), z3.BoolVal(False))
                    out.append((q, None))
                else:
                    out.append((q, ("raise", VRaise("KeyError"))))
            return out
        if isinstance(recv, VConst) and isinstance(recv.value, tuple) and recv.value[0] == "smap":
            k = self.key_ref(idx)
            if k is None:
                raise Unsupported("registry key")
            M = recv.value[1]
            out = []
            for (q, side) in self.fork(p, p.st.read("smap_has", M, k), "delsmap"):
                if side:
                    q.st.write("smap_has", (M, k), z3.BoolVal(False))
                    out.append((q, None))
                else:
                    out.append((q, ("raise", VRaise("KeyError"))))
            return out
        if isinstance(recv, VList) and isinstance(idx, VInt):
            seq = p.st.elems(recv.ref)
            i = idx.term
            out = []
            for (q, side) in self.fork(p, z3.And(i >= 0, i < T.Len(seq)), "delidx"):
                if side:
                    q.st.write("elems", recv.ref, T.delnth(seq, i))
                    out.append((q, None))
                else:
                    out.append((q, ("raise", VRaise("IndexError"))))     # negative indices are not modelled
            return out
        raise Unsupported("del item")

    # ------------------------------------------------------------------ comprehensions
    def ev_ListComp(self, e, p):
        # [v for v in X if v is not y]  -> Without(X, y)
        if len(e.generators) == 1:
            g = e.generators[0]
            if (isinstance(e.elt, ast.Name) and isinstance(g.target, ast.Name) and e.elt.id == g.target.id
                    and len(g.ifs) == 1 and isinstance(g.ifs[0], ast.Compare) and len(g.ifs[0].ops) == 1
                    and isinstance(g.ifs[0].ops[0], (ast.IsNot, ast.NotEq))
                    and isinstance(g.ifs[0].left, ast.Name) and g.ifs[0].left.id == g.target.id):
                def k1(q, it):
                    s, ecn = self.iter_seq(q, it)

                    def k2(r, y):
                        yr = self.ref_of(y)
                        if yr is None:
                            raise Unsupported("comprehension filter value")
                        return [(r, VSeq(T.Without(s, yr), ecn, "list"))]
                    return bind(self.eval(g.ifs[0].comparators[0], q), k2)
                return bind(self.eval(g.iter, p), k1)
            # [k for k in REGISTRY if k[0] is C]  -> the live keys whose first component is C, in (arbitrary, A9) enumeration order
            if (isinstance(e.elt, ast.Name) and isinstance(g.target, ast.Name) and e.elt.id == g.target.id and len(g.ifs) == 1
                    and isinstance(g.ifs[0], ast.Compare) and len(g.ifs[0].ops) == 1 and isinstance(g.ifs[0].ops[0], ast.Is)
                    and isinstance(g.ifs[0].left, ast.Subscript) and isinstance(g.ifs[0].left.value, ast.Name)
                    and g.ifs[0].left.value.id == g.target.id and isinstance(g.ifs[0].left.slice, ast.Constant) and g.ifs[0].left.slice.value == 0):
                def ks(q, it):
                    if not (isinstance(it, VConst) and isinstance(it.value, tuple) and it.value[0] == "smap"):
                        raise Unsupported("comprehension over " + type(it).__name__)

                    def kc(r, cv):
                        cr = T.cls_ref(cv.term) if isinstance(cv, VCls) else self.ref_of(cv)
                        if cr is None:
                            raise Unsupported("comprehension filter value")
                        en = self.registry_enum(r, it.value[1])
                        return [(r, self.new_list(r, T.selkeys(en, cr), None, "keys"))]
                    return bind(self.eval(g.ifs[0].comparators[0], q), kc)
                return bind(self.eval(g.iter, p), ks)
            # [a for a in dir(X) if R.match(a)]  -> the names dir() lists for X that the pattern object R matches, in dir() order
            if (isinstance(e.elt, ast.Name) and isinstance(g.target, ast.Name) and e.elt.id == g.target.id and len(g.ifs) == 1
                    and isinstance(g.iter, ast.Call) and isinstance(g.iter.func, ast.Name) and g.iter.func.id == "dir" and len(g.iter.args) == 1
                    and isinstance(g.ifs[0], ast.Call) and isinstance(g.ifs[0].func, ast.Attribute) and g.ifs[0].func.attr == "match"
                    and len(g.ifs[0].args) == 1 and isinstance(g.ifs[0].args[0], ast.Name) and g.ifs[0].args[0].id == g.target.id):
                def kd(q, xv):
                    if not isinstance(xv, VRef):
                        raise Unsupported("dir() of " + type(xv).__name__)

                    def kr(r, rv):
                        if not (isinstance(rv, VRef) and rv.role == "opaque"):
                            raise Unsupported("pattern object")
                        return [(r, self.new_strlist(r, self.attr_names(r.st, xv.term, rv.term), "attributes"))]
                    return bind(self.eval(g.ifs[0].func.value, q), kr)
                return bind(self.eval(g.iter.args[0], p), kd)
        raise Unsupported("list comprehension of unsupported shape: " + ast.unparse(e))

    def registry_enum(self, p: Path, M):
        """an arbitrary duplicate-free enumeration of the live keys of the semi-singleton registry of metaclass M (dict order, A9)"""
        s_ = T.fresh("keys", RSeq)
        st0 = p.st.copy()
        p.schemas.append(Schema(f"enum(registry {M})", (Ref,), lambda x, s_=s_, M=M, st0=st0: z3.And(
            T.Cnt(s_, x) <= 1, (T.Cnt(s_, x) >= 1) == st0.read("smap_has", M, x))))
        p.ghost = dict(p.ghost)
        p.ghost["enums"] = tuple(p.ghost.get("enums", ())) + (s_,)
        return s_

    def dyn_key(self, S):
        """identity of the dynamic-attribute part of a heap (what dir() / getattr of an object depend on)"""
        a, b = S._fs("dyn_has"), S._fs("dyn_val")
        k = (a.base.name(), tuple(id(u) for u in a.updates), b.base.name(), tuple(id(u) for u in b.updates))
        tab = self.__dict__.setdefault("_dyn_ids", {})
        if k not in tab:
            tab[k] = (len(tab), a, b)
        return tab[k][0]

    def attr_names(self, S, x, rgx):
        """[a for a in dir(x) if rgx.match(a)] in heap S: an uninterpreted sequence of names (dir and re are not modelled)"""
        return z3.Function(f"attr_names@{self.dyn_key(S)}", Ref, Ref, T.SSeq)(x, rgx)

    def attr_map(self, S, x, names):
        """{a: x[a] for a in names} in heap S, as an opaque mapping value"""
        return z3.Function(f"attr_map@{self.dyn_key(S)}", Ref, T.SSeq, Ref)(x, names)

    def _wl_src(self, e):
        """`{t: F(linkset) for t, linkset in SRC.items()}` -> (SRC expression, F kind) or None"""
        if not (isinstance(e, ast.DictComp) and len(e.generators) == 1):
            return None
        g = e.generators[0]
        if not (isinstance(g.target, ast.Tuple) and len(g.target.elts) == 2 and all(isinstance(x, ast.Name) for x in g.target.elts) and not g.ifs
                and isinstance(g.iter, ast.Call) and isinstance(g.iter.func, ast.Attribute) and g.iter.func.attr == "items" and not g.iter.args
                and isinstance(e.key, ast.Name) and e.key.id == g.target.elts[0].id):
            return None
        inner = g.target.elts[1].id
        v = e.value
        txt = ast.unparse(v)
        if txt == f"dict({inner})":
            return g.iter.func.value, "deepcopy"
        if txt == f"types.MappingProxyType(dict({inner}.items()))":
            return g.iter.func.value, "snapshot-inner"
        return None

    def wl_build(self, p: Path, src: VRef, kind: str):
        """a new mapping object built from the nested mapping `src`: 'snapshot' (immutable proxies at both levels: no mutable part),
        'deepcopy' (new dict objects at both levels), 'shallow' (a new outer dict holding the inner dicts of src).  Iterating /
        copying raises AttributeError or ValueError when the content does not have the shape {key: mapping} (uninterpreted wl_ok)."""
        out = []
        st0 = p.st.copy()
        content = st0.read("wl_val", src.term)
        if kind == "shallow":
            oks = [(p, True)]
        else:
            oks = self.fork(p, T.wl_ok(content), "whitelist-shape")
        for (q, ok) in oks:
            if not ok:
                out.append((q.copy(), VRaise("AttributeError", "edge_whitelist entry without items()")))
                out.append((q, VRaise("ValueError", "edge_whitelist entry that dict() rejects")))
                continue
            r = self.alloc(q, self.ct.Other, "container", "mapping")
            q.schemas.append(Schema(f"fresh-mapping({r})", (Ref, Ref), lambda o_, x, r=r, st0=st0: z3.Implies(x == r, z3.Not(st0.read("wl_part", o_, x))),
                                    trigger=("wl_part",)))        # a new object is no part of an existing mapping
            q.st.write("wl_val", r, content)
            if kind == "snapshot":
                q.st.write_where("wl_part", lambda ad, r=r: (T.eq(ad[0], r), z3.BoolVal(False)))
            elif kind == "deepcopy":
                q.st.write_where("wl_part", lambda ad, r=r: (T.eq(ad[0], r), z3.Or(ad[1] == r, T.wl_new(r, ad[1]))))
                # the inner dicts are new objects: none of them is (part of) anything that existed
                q.schemas.append(Schema(f"new-inner-dicts({r})", (Ref, Ref), lambda o_, x, r=r, st0=st0: z3.Implies(
                    T.wl_new(r, x), z3.And(z3.Not(st0.read("wl_part", o_, x)), x != o_, x != r)), trigger=("wl_part",)))
            else:
                q.st.write_where("wl_part", lambda ad, r=r, st0=st0, s_=src.term: (
                    T.eq(ad[0], r), z3.Or(ad[1] == r, z3.And(st0.read("wl_part", s_, ad[1]), ad[1] != s_))))
            out.append((q, VRef(r, None, "opaque")))
        return out

    def ev_DictComp(self, e, p):
        w = self._wl_src(e)
        if w is not None and w[1] == "deepcopy":
            def kw_(q, sv):
                if not (isinstance(sv, VRef) and sv.role == "opaque"):
                    raise Unsupported("nested mapping source")
                return self.wl_build(q, sv, "deepcopy")
            return bind(self.eval(w[0], p), kw_)
        # {a: X[a] for a in NAMES}
        if len(e.generators) == 1:
            g = e.generators[0]
            if (isinstance(g.target, ast.Name) and not g.ifs and isinstance(e.key, ast.Name) and e.key.id == g.target.id
                    and isinstance(e.value, ast.Subscript) and isinstance(e.value.slice, ast.Name) and e.value.slice.id == g.target.id):
                def kx(q, xv):
                    def kn(r, nv):
                        if not (isinstance(xv, VRef) and isinstance(nv, VList) and nv.elem_cname == "<str>"):
                            raise Unsupported("dict comprehension operands")
                        # getattr on a name that dir() listed is assumed not to raise (A12)
                        return [(r, VRef(self.attr_map(r.st, xv.term, r.st.read("selems", nv.ref)), None, "opaque"))]
                    return bind(self.eval(g.iter, q), kn)
                return bind(self.eval(e.value.value, p), kx)
        raise Unsupported("dict comprehension of unsupported shape: " + ast.unparse(e))

    # ------------------------------------------------------------------ calls
    def ev_Call(self, e, p: Path):
        f = e.func
        # super(Meta, cls).__call__(*args, **kwargs): type.__call__ - allocate an instance of cls and run its __init__ once (A9)
        if (isinstance(f, ast.Attribute) and f.attr == "__call__" and isinstance(f.value, ast.Call)
                and isinstance(f.value.func, ast.Name) and f.value.func.id == "super" and len(f.value.args) == 2):
            clsv = p.env.get(ast.unparse(f.value.args[1]))
            if not isinstance(clsv, VCls):
                raise Unsupported("type.__call__ on a non-class")
            star = [a for a in e.args if isinstance(a, ast.Starred)]
            dstar = [k for k in e.keywords if k.arg is None]
            if len(star) != 1 or len(dstar) != 1 or len(e.args) != 1 or len(e.keywords) != 1:
                raise Unsupported("type.__call__ with re-packed arguments")
            a_, k_ = p.env.get(ast.unparse(star[0].value)), p.env.get(ast.unparse(dstar[0].value))
            if not (isinstance(a_, VRef) and isinstance(k_, VRef)):
                raise Unsupported("argument packs")
            out = []
            for (q, side) in self.fork(p, T.init_raises(clsv.term, a_.term, k_.term), "init-raises"):
                if side:
                    out.append((q, VRaise("UserExc", "__init__ raised")))      # the user's __init__ may raise: nothing is registered
                else:
                    r = self.alloc(q, clsv.term, "obj", "instance")
                    q.st.write("init_count", r, z3.IntVal(1))
                    q.st.write("init_args", r, T.mkpair(a_.term, k_.term))
                    out.append((q, VRef(r, None, "opaque")))
            return out
        # super().m(...)
        if isinstance(f, ast.Attribute) and isinstance(f.value, ast.Call) and isinstance(f.value.func, ast.Name) \
                and f.value.func.id == "super":
            selfv = p.env.get("self") or p.env.get("cls")
            return self.eval_args(e, p, lambda q, args, kw: self.call_method(selfv, f.attr, args, kw, q, via_super=self.cur.cls))
        # types.MappingProxyType({t: types.MappingProxyType(dict(linkset.items())) for t, linkset in SRC.items()}): immutable snapshot
        if (isinstance(f, ast.Attribute) and f.attr == "MappingProxyType" and len(e.args) == 1 and not e.keywords):
            w = self._wl_src(e.args[0])
            if w is not None and w[1] == "snapshot-inner":
                def ks_(q, sv):
                    if not (isinstance(sv, VRef) and sv.role == "opaque"):
                        raise Unsupported("nested mapping source")
                    return self.wl_build(q, sv, "snapshot")
                return bind(self.eval(w[0], p), ks_)
        # fmt.format(**mapping): the result is a function of the format value and the mapping (str.format, assumed not to raise)
        if (isinstance(f, ast.Attribute) and f.attr == "format" and not e.args and len(e.keywords) == 1 and e.keywords[0].arg is None):
            def kf(q, fv):
                if not (isinstance(fv, VRef) and fv.role == "opaque"):
                    raise Unsupported("str.format on " + type(fv).__name__)

                def km(r, mv):
                    mr = self.ref_of(mv)
                    if mr is None:
                        raise Unsupported("format mapping")
                    return [(r, VRef(T.fmt_apply(fv.term, mr), None, "opaque"))]
                return bind(self.eval(e.keywords[0].value, q), km)
            return bind(self.eval(f.value, p), kf)
        # lst.extend(<generator over a set of strings whose contents are not modelled>)
        if (isinstance(f, ast.Attribute) and f.attr == "extend" and len(e.args) == 1 and isinstance(e.args[0], ast.GeneratorExp)
                and len(e.args[0].generators) == 1 and isinstance(e.args[0].generators[0].iter, ast.Name)
                and isinstance(p.env.get(e.args[0].generators[0].iter.id), (VSet, VStrSet))):
            return bind(self.eval(f.value, p), lambda q, recv: self.call_container_method(recv, "extend", [VConst(("strgen",))], {}, q))
        if isinstance(f, ast.Attribute):
            def k1(q, recv):
                if isinstance(recv, VRaise):
                    return [(q, recv)]
                return self.eval_args(e, q, lambda r, args, kw: self.call_value(recv, args, kw, r, e))
            attr = self.mangle(f.attr)
            return bind(bind(self.eval(f.value, p), lambda q, rv: self.load_attr(rv, attr, q)), k1)
        return bind(self.eval(f, p), lambda q, fv: self.eval_args(e, q, lambda r, args, kw: self.call_value(fv, args, kw, r, e)))

    def eval_args(self, e, p, k):
        res = [(p, [], {})]
        for a in e.args:
            if isinstance(a, ast.Starred):
                nxt = []
                for (q, args, kw) in res:
                    for (r, v) in self.eval(a.value, q):
                        if isinstance(v, VRaise):
                            nxt.append((r, v, None))
                        elif isinstance(v, VPyTuple):
                            nxt.append((r, args + v.items, kw))
                        elif isinstance(v, VRef) and v.role == "opaque":
                            nxt.append((r, args + [VConst(("star", v))], kw))      # an opaque argument tuple passed on as *args
                        else:
                            raise Unsupported("*args of " + type(v).__name__)
                res = nxt
                continue
            nxt = []
            for item in res:
                if isinstance(item[1], VRaise):
                    nxt.append(item)
                    continue
                (q, args, kw) = item
                for (r, v) in self.eval(a, q):
                    nxt.append((r, v, None) if isinstance(v, VRaise) else (r, args + [v], kw))
            res = nxt
        for kwd in e.keywords:
            if kwd.arg is None:
                if isinstance(e.func, ast.Attribute) and isinstance(e.func.value, ast.Name) and e.func.value.id in ("network",):
                    continue        # **options passed to a third-party constructor: not modelled (A10)
                raise Unsupported("**kwargs call")
            nxt = []
            for item in res:
                if isinstance(item[1], VRaise):
                    nxt.append(item)
                    continue
                (q, args, kw) = item
                for (r, v) in self.eval(kwd.value, q):
                    if isinstance(v, VRaise):
                        nxt.append((r, v, None))
                    else:
                        kw2 = dict(kw)
                        kw2[kwd.arg] = v
                        nxt.append((r, args, kw2))
            res = nxt
        out = []
        for item in res:
            if isinstance(item[1], VRaise):
                out.append((item[0], item[1]))
            else:
                out.extend(k(*item))
        return out

    def call_value(self, fv: V, args, kw, p: Path, node=None):
        if isinstance(fv, VBound):
            return self.call_bound(fv, args, kw, p)
        if isinstance(fv, VFunc):
            return self.call_contract(fv.qualname, self.bind_call_args(fv.qualname, args, kw), p)
        if isinstance(fv, VBuiltin):
            return self.call_builtin(fv.name, args, kw, p, node)
        if isinstance(fv, VCls):
            return self.construct(fv, args, kw, p)
        if isinstance(fv, VCallback):
            return self.call_callback(fv, args, kw, p)
        if isinstance(fv, VModule) and fv.dotted.startswith("ext:"):
            return self.call_external(fv.dotted[4:], args, kw, p)
        if isinstance(fv, VConst) and isinstance(fv.value, tuple) and fv.value[0] == "excclass":
            return [(p, VOpaque("exception"))]
        if isinstance(fv, VRef) and fv.role == "opaque" and len(args) == 2 and not kw and getattr(self.cur, "module", "").endswith("plantuml"):
            # a user function stored in an option table, called with (object, options): the string it returns (A7: deterministic;
            # assumed to return and to return a str)
            a_, b_ = self.ref_of(args[0]), self.ref_of(args[1])
            if a_ is not None and b_ is not None:
                return [(p, VStr(T.ocall2_str(fv.term, a_, b_)))]
        raise Unsupported(f"call of {type(fv).__name__}")

    def call_external(self, dotted, args, kw, p):
        if dotted == "uuid.uuid4" and not args:
            return [(p, VConst(("uuid4",)))]
        if dotted == "json.dumps" and len(args) == 1 and isinstance(args[0], VRef):
            return [(p, VRef(T.jsonk(args[0].term), None, "opaque"))]
        if dotted == "pyvis.network.Network":
            # assumed contract of the third-party class (A10): a new network without nodes and edges; its `directed` flag is
            # whatever the keyword arguments say (unconstrained)
            out = [] if self.ext_total() else [(p.copy(), VRaise("Exception", "pyvis"))]
            r = self.alloc(p, self.ct.Other, "container", "net")
            p.st.write("net_nodes", r, z3.Empty(T.ISeq))
            p.st.write("net_labels", r, T.EMPTY())
            for f_ in ("net_from", "net_to", "net_arrow"):
                p.st.write(f_, r, z3.Empty(T.ISeq))
            out.append((p, VNet(r)))
            return out
        if dotted == "re.compile" and len(args) == 1 and isinstance(args[0], VStr):
            r = T.rx_compile(args[0].term)          # assumed (A10): re.compile returns a re.Pattern object
            p.assume(T.is_pattern(r))
            p.assume(r != NONE)
            return [(p, VRef(r, None, "opaque"))]
        if dotted == "collections.deque" and len(args) == 1:
            sq, ecn = self.iter_seq(p, args[0])
            return [(p, self.new_list(p, sq, ecn, "deque"))]
        raise Unsupported(f"external call {dotted}")

    def bind_call_args(self, qualname, args, kw, skip_self=False):
        c = self.reg.contracts.get(qualname)
        if c is None:
            raise Unsupported(f"call to {qualname}: no contract")
        params = [pr for pr in c.params if not (skip_self and pr.name == "self")]
        out = {}
        pos = [pr for pr in params if not pr.kwonly]
        if len(args) > len(pos):
            raise Unsupported(f"too many positional arguments for {qualname}")
        for pr, a in zip(pos, args):
            out[pr.name] = a
        for k, v in kw.items():
            if k in out or k not in [pr.name for pr in params]:
                raise Unsupported(f"bad keyword {k} for {qualname}")
            out[k] = v
        return out

    def call_bound(self, b: VBound, args, kw, p: Path):
        recv = b.recv
        if isinstance(recv, VRef):
            return self.call_method(recv, b.name, args, kw, p, via_super=b.via_super)
        return self.call_container_method(recv, b.name, args, kw, p)

    def call_method(self, recv: VRef, name, args, kw, p: Path, via_super=None):
        if recv.cname == self.PICKLER and name in ("realwrite", "realsave", "realmemoize", "lazywrite") and not kw:
            qn = f"{self.PICKLER}.{name}"
            if name in ("realwrite", "lazywrite"):
                # *args: one packed argument tuple
                if len(args) == 1 and isinstance(args[0], VConst) and isinstance(args[0].value, tuple) and args[0].value[0] == "star":
                    pack = args[0].value[1]
                elif len(args) == 1:
                    a = args[0]
                    r_ = self.ref_of(a)
                    if r_ is None and isinstance(a, VModule):
                        r_ = z3.Const(a.dotted, Ref)               # a constant of a third-party module (pickle.STOP)
                    if r_ is None and isinstance(a, VOpaque):
                        r_ = T.fresh("opaque_value", Ref)
                    if r_ is None:
                        raise Unsupported("write argument")
                    pack = VRef(T.pack1(r_), None, "opaque")
                    p.assume(T.cls_of(pack.term) == self.ct.Other)          # an argument tuple
                else:
                    raise Unsupported("write with several arguments")
                return self.call_contract(qn, {"self": recv, "args": pack}, p)
            if len(args) != 1:
                raise Unsupported(f"{name} arity")
            return self.call_contract(qn, {"self": recv, "obj": args[0]}, p)
        mem = self.resolve_class_member(recv.cname, name, via_super)
        if mem is None:
            m2, down = self._member_owner(recv, name, via_super)
            if m2 is None:
                raise Unsupported(f"method {name} on static class {recv.cname}")
            mem = m2
        kind, payload, owner = mem
        if kind == "property":
            # super().v1 style property access handled in load_attr; here: call of a property value
            raise Unsupported("call of property value")
        qn = f"{owner}.{name}"
        bound = self.bind_call_args(qn, args, kw, skip_self=True)
        bound["self"] = recv
        return self.call_contract(qn, bound, p)

    # -- contract application ----------------------------------------------------------------------------------
    def coerce_arg(self, prm: Param, v: V, p: Path):
        """adapt an actual argument to the declared parameter kind"""
        ty = prm.ty
        if v is None:
            return None
        if ty.startswith("cb:"):
            if isinstance(v, VCallback):
                return VCallback(v.term, ty[3:])
            if isinstance(v, VRef):
                return VCallback(v.term, ty[3:])
        if ty.startswith("iter"):
            if isinstance(v, VIter):
                return v
            en = ty.split(":", 1)[1]
            if is_none_const(v):
                return VIter(T.EMPTY(), en.rstrip("?") or None, z3.BoolVal(True))
            s, ecn = self.iter_seq(p, v)
            it = VIter(s, ecn or en.rstrip("?") or None, z3.BoolVal(False))
            return it
        if ty == "attrs":
            if isinstance(v, VAttrs):
                return v
            if is_none_const(v):
                return VAttrs(NONE)
            if isinstance(v, VConst) and isinstance(v.value, tuple) and v.value[0] == "pydict":
                return self.attrs_from_literal(v.value[1], p)
        if ty == "int" and is_none_const(v):
            return VInt(z3.IntVal(0))        # `uid or ...`: None and 0 are interchangeable for this parameter
        if ty == "any" and not isinstance(v, VRef):
            r = self.ref_of(v)
            if r is not None:
                return VRef(r, None, "opaque")
            if isinstance(v, VBool):
                return VRef(T.ite(v.term, T.PY_TRUE, T.PY_FALSE), None, "opaque")
        return v

    def call_contract(self, qualname, args: dict, p: Path, positional_rest=False):
        c = None
        if getattr(self, "cur_variant", None):
            c = self.reg.contracts.get(f"{qualname}#{self.cur_variant}")
        if c is None:
            c = self.reg.contracts.get(qualname)
        if c is None:
            raise Unsupported(f"call to {qualname}: no contract")
        if positional_rest:
            # setter: the value parameter is the second declared parameter whatever its name
            names = [pr.name for pr in c.params]
            if "new" not in names and len(names) == 2:
                args = {names[0]: args["self"], names[1]: args["new"]}
        full = {}
        for prm in c.params:
            if prm.name in args:
                full[prm.name] = self.coerce_arg(prm, args[prm.name], p)
            elif prm.default is not None:
                full[prm.name] = self.default_value(prm)
            else:
                raise Unsupported(f"call to {qualname}: missing argument {prm.name}")
        for prm in c.params:
            if prm.ty.startswith("iter") and isinstance(full.get(prm.name), VIter) and full[prm.name] is args.get(prm.name):
                self.consume(p, full[prm.name])          # an iterable handed on to a callee is consumed there
        spec = self.build_spec(c, p.st.copy(), full, p, site="call")
        for g_ in spec.gdefs:
            p.assume(g_)
        # typing of arguments is part of the precondition
        for prm in c.params:
            for f in self.typing_facts(prm, full[prm.name]):
                self.emit(p, "requires", f"call:{qualname}/type:{prm.name}", f,
                          meta={"clause": f"argument {prm.name} of {qualname} has type {prm.ty}"})
                p.assume(f)
        for (lbl, r) in spec.requires:
            self.emit(p, "requires", f"call:{qualname}/{lbl}", r, meta={"clause": f"precondition {lbl} of {qualname}"})
            p.assume(r)
        for sch in spec.assume_schemas:
            sk = tuple(T.fresh("sk", s) for s in sch.sorts)
            self.emit(p, "requires", f"call:{qualname}/inv:{sch.name}", sch.fn(*sk),
                      meta={"clause": f"invariant {sch.name} required by {qualname}"})
        # termination of recursive groups
        if c.group and self.cur_contract is not None and self.cur_contract.group == c.group and spec.measure is not None:
            mine = self.ghost_measure
            if mine is not None:
                self.emit(p, "decreases", f"call:{qualname}/decreases", z3.And(spec.measure >= 0, spec.measure < mine),
                          meta={"clause": "termination measure decreases at recursive call"})
        out = []
        for oi, o in enumerate(spec.outcomes):
            if not self.feasible(p, o.cond):
                continue
            q = p.copy()
            q.assume(o.cond)
            q.trail.append(f"[{qualname.split('.')[-1]}:{o.label or oi}]")
            self.enter_outcome(q, o, p.st)
            for (gname, gconst) in spec.ghosts:
                # the callee's existential ghost becomes a ghost local of the caller (a wrapper can pass it on)
                if "$" + gname not in q.env:
                    q.env["$" + gname] = VInt(gconst) if gconst.sort().eq(Int) else VSeq(gconst)
            if o.exc == "*":
                # any exit: continue normally with an unknown result, or with an (unspecified) exception
                out.append((q.copy(), VRaise("Exception", f"from {qualname}")))
                out.append((q, o.result if o.result is not None else VOpaque("result")))
                continue
            if o.exc is not None:
                names = (o.exc,) if isinstance(o.exc, str) else tuple(o.exc)
                for k_, en in enumerate(names):
                    out.append((q if k_ == len(names) - 1 else q.copy(), VRaise(en, f"from {qualname}")))
            else:
                res = o.result if o.result is not None else NONE_V
                if c.is_generator and o.out is not None:
                    res = VSeq(o.out, "Vertex", "generated")
                out.append((q, res))
        if not out:
            # no feasible outcome: the path itself is infeasible given the callee's contract
            pass
        return out

    ghost_measure = None

    def has_attr(self, S, obj, name):
        """hasattr(obj, name): an instance attribute, or something the class provides (A6: the two do not overlap)"""
        return z3.Or(S.read("dyn_has", obj, name), T.cls_has(T.cls_of(obj), name))

    def get_attr(self, S, obj, name):
        return T.ite(S.read("dyn_has", obj, name), S.read("dyn_val", obj, name), T.cls_get(obj, name))

    def attrs_from_literal(self, items, p: Path):
        """a dict display such as {"i": i} passed as attributes="""
        a = T.fresh("attrs", Ref)
        p.assume(a != NONE)
        p.assume(T.ad_isdict(a))
        p.assume(T.ad_len(a) == len(items))
        for i, (k, v) in enumerate(items):
            if not isinstance(k, VStr):
                raise Unsupported("attributes literal key")
            r = self.ref_of(v)
            if r is None:
                if isinstance(v, VInt):
                    r = int_box(v.term)
                else:
                    raise Unsupported("attributes literal value")
            p.assume(T.ad_key(a, z3.IntVal(i)) == k.term)
            p.assume(T.ad_val(a, z3.IntVal(i)) == r)
        return VAttrs(a)

    def typing_facts(self, prm: Param, v: V):
        ty = prm.ty
        if ty in ("int", "bool", "str", "any", "attrs", "cls", "clsopt", "pack", "adj", "opttable", "opts") or ty.startswith("cb:") or ty.startswith("iter") or ty.startswith("dict") or ty.startswith("list:") or ty.startswith("seq:"):
            return []
        if ty.startswith("cls<="):
            if isinstance(v, VCls):
                return [T.sub(v.term, self.ct.c(ty[5:]))]
            return [z3.BoolVal(False)]
        nullable = ty.endswith("?")
        cn = ty.rstrip("?")
        if not isinstance(v, VRef):
            return [z3.BoolVal(False)]
        isa = self.ct.is_a(v.term, cn)
        return [z3.Or(v.term == NONE, isa)] if nullable else [z3.And(v.term != NONE, isa)]

    def default_value(self, prm: Param):
        d = prm.default
        if d == "None":
            if prm.ty == "attrs":
                return VAttrs(NONE)
            if prm.ty == "int":
                return VInt(z3.IntVal(0))
            if prm.ty.startswith("cb:"):
                return VCallback(NONE, prm.ty[3:])
            if prm.ty.startswith("iter"):
                return VIter(T.EMPTY(), None, z3.BoolVal(True))
            return NONE_V
        if d in ("True", "False"):
            if prm.ty == "any":
                return VRef(T.PY_TRUE if d == "True" else T.PY_FALSE, None, "opaque")
            return VBool(z3.BoolVal(d == "True"))
        try:
            return VInt(z3.IntVal(int(d)))
        except ValueError:
            pass
        if d in self.repo.classes:
            return VCls(self.ct.c(d), d)
        raise Unsupported(f"default {d}")

    # -- construction ------------------------------------------------------------------------------------------------
    def construct(self, cv: VCls, args, kw, p: Path):
        if cv.pyname in ("_LazySave", "_LazyMemo") and len(args) == 1 and not kw:
            r_ = self.ref_of(args[0])
            if r_ is None:
                raise Unsupported("queue item payload")
            mk = T.mk_save if cv.pyname == "_LazySave" else T.mk_memo
            return [(p, VRef(mk(r_), None, "opaque"))]          # a record value (A13: nothing depends on the identity of an item)
        cname = cv.pyname or cv.bound
        if cname is None:
            raise Unsupported("construction of unknown class")
        mem = self.repo.find_member(cname, "__init__")
        if mem is None:
            raise Unsupported(f"{cname} has no __init__")
        owner = mem[2]
        qn = f"{owner}.__init__"
        r = self.alloc(p, cv.term, "obj", cname.lower())
        selfv = VRef(r, cname, "obj")
        bound = self.bind_call_args(qn, args, kw, skip_self=True)
        bound["self"] = selfv
        out = []
        for (q, v) in self.call_contract(qn, bound, p):
            out.append((q, v) if isinstance(v, VRaise) else (q, selfv))
        return out

    # -- user callbacks ----------------------------------------------------------------------------------------------
    def call_callback(self, cb: VCallback, args, kw, p: Path):
        """user callback (A7): a deterministic function of its arguments that may raise at any invocation"""
        if kw:
            raise Unsupported("keyword arguments to a callback")
        refs = [self.ref_of(a) for a in args]
        if any(r is None for r in refs):
            raise Unsupported("callback argument")
        out = []
        paths = []
        for (q, side) in self.fork(p, cb.term == NONE, "cbNone"):
            if side:
                out.append((q, VRaise("TypeError", "None is not callable")))
            else:
                paths.append(q)
        for q in paths:
            if cb.family == "hf" and len(refs) == 2:
                out.append((q, VRef(T.cbv2(cb.term, refs[0], refs[1]), None, "opaque")))   # key function: deterministic (A7)
                continue
            if len(refs) == 1:
                rz, tv, val = T.cb1_raises(cb.term, refs[0]), T.cb1(cb.term, refs[0]), T.cbv1(cb.term, refs[0])
            elif len(refs) == 2:
                rz, tv, val = T.cb2_raises(cb.term, *refs), T.cb2(cb.term, *refs), None
            else:
                raise Unsupported("callback arity")
            for (r, side) in self.fork(q, rz, f"cb:{cb.family}raises"):
                if side:
                    out.append((r, VRaise("UserExc", cb.family)))
                elif cb.family.startswith("s") and len(refs) == 1:
                    out.append((r, VStr(T.cbs1(cb.term, refs[0]))))      # the str() of what the callback returns
                elif cb.family.startswith("v") and val is not None:
                    out.append((r, VRef(val, None, "opaque")))
                else:
                    out.append((r, VBool(tv)))
        return out

    # -- container methods -------------------------------------------------------------------------------------------
    def call_container_method(self, recv, name, args, kw, p: Path):
        if isinstance(recv, VOwned):
            seq = p.st.read(recv.fieldname, recv.owner)
            if name == "append" and len(args) == 1:
                x = self.ref_of(args[0])
                p.st.write(recv.fieldname, recv.owner, T.snoc(seq, x))
                return [(p, NONE_V)]
            if name == "remove" and len(args) == 1:
                x = self.ref_of(args[0])
                out = []
                for (q, side) in self.fork(p, T.Mem(seq, x), "remove"):
                    if side:
                        q.st.write(recv.fieldname, recv.owner, T.Rem1(seq, x))
                        out.append((q, NONE_V))
                    else:
                        out.append((q, VRaise("ValueError", "list.remove(x): x not in list")))
                return out
        if isinstance(recv, VList):
            seq = p.st.elems(recv.ref)
            if name == "append" and len(args) == 1 and isinstance(args[0], VStr):
                ss = p.st.read("selems", recv.ref)
                p.st.write("selems", recv.ref, z3.Concat(ss, z3.Unit(args[0].term)))
                return [(p, NONE_V)]
            if name == "append" and len(args) == 1:
                p.st.write("elems", recv.ref, T.snoc(seq, self.ref_of(args[0])))
                return [(p, NONE_V)]
            if name == "pop" and len(args) == 1 and isinstance(args[0], VInt) and z3.is_int_value(args[0].term) and args[0].term.as_long() == 0:
                name, args = "popleft", []
            if name in ("popleft", "pop") and not args:
                out = []
                for (q, side) in self.fork(p, T.Len(seq) > 0, name):
                    if not side:
                        out.append((q, VRaise("IndexError", "pop from an empty container")))
                        continue
                    x, rest = T.fresh("popped", Ref), T.fresh("rest", RSeq)
                    # decomposition by fresh constants (no nth / extract terms)
                    q.assume(seq == (T.cat(T.unit(x), rest) if name == "popleft" else T.cat(rest, T.unit(x))))
                    q.st.write("elems", recv.ref, rest)
                    q.ghost = dict(q.ghost)
                    q.ghost["last_pop"] = (x, rest)
                    q.env["$rest"] = VSeq(rest)          # ghost local: what remained after the last pop
                    out.append((q, VRef(x, recv.elem_cname, "obj" if recv.elem_cname else "opaque")))
                return out
        if isinstance(recv, VStr) and name == "join" and len(args) == 1 and isinstance(args[0], VList):
            return [(p, VStr(T.SJoin(recv.term, p.st.read("selems", args[0].ref))))]
        if isinstance(recv, VStr) and name == "join" and len(args) == 1 and isinstance(args[0], VRef) and args[0].role == "opaque":
            return [(p, VStr(T.join_o(recv.term, args[0].term)))]
        if isinstance(recv, VList) and recv.elem_cname in (None, "<str>") and name == "extend" and len(args) == 1:
            a = args[0]
            if isinstance(a, VList) and a.elem_cname in (None, "<str>"):
                p.st.write("selems", recv.ref, z3.Concat(p.st.read("selems", recv.ref), p.st.read("selems", a.ref)))
                p.st.write("elems", recv.ref, T.cat(p.st.elems(recv.ref), p.st.elems(a.ref)))
                return [(p, NONE_V)]
            if isinstance(a, VConst) and a.value == ("strgen",):
                extra = T.fresh("generated", T.SSeq)      # strings produced from a set whose contents are not modelled
                p.st.write("selems", recv.ref, z3.Concat(p.st.read("selems", recv.ref), extra))
                return [(p, NONE_V)]
        if isinstance(recv, VSet):
            if name == "add" and len(args) == 1:
                p.st.write("setmem", (recv.ref, self.ref_of(args[0])), z3.BoolVal(True))
                return [(p, NONE_V)]
        if isinstance(recv, VGlobalDict) and recv.name == "stats":
            if name == "update" and len(args) == 1 and isinstance(args[0], VConst) and args[0].value[0] == "pydict":
                for (k, _v) in args[0].value[1]:
                    if not isinstance(k, VInt):
                        raise Unsupported("stats key")
                    p.st.write("stats_has", (k.term,), z3.BoolVal(True))
                return [(p, NONE_V)]
            if name == "setdefault" and len(args) == 2 and isinstance(args[0], VInt):
                p.st.write("stats_has", (args[0].term,), z3.BoolVal(True))
                return [(p, VOpaque("counters"))]
        if isinstance(recv, VConst) and isinstance(recv.value, tuple) and recv.value[0] == "dyndict":
            if name == "pop" and len(args) == 2 and isinstance(args[0], VStr):
                p.st.write("dyn_has", (recv.value[1], args[0].term), z3.BoolVal(False))
                return [(p, VOpaque("popped"))]
        if isinstance(recv, VConst) and isinstance(recv.value, tuple) and recv.value[0] == "smap" and name == "items" and not args:
            return [(p, VConst(("smapitems", recv.value[1])))]
        if isinstance(recv, VAdj) and name == "items" and not args:
            return [(p, VConst(("adjitems", recv.term)))]
        if isinstance(recv, VAttrs) and name == "items" and not args:
            return [(p, VConst(("items", recv.term)))]
        if isinstance(recv, VDict) and name == "items":
            raise Unsupported("dict.items() of an argument dictionary")
        if isinstance(recv, VNet):
            return self.call_net_method(recv, name, args, kw, p)
        if isinstance(recv, VOpaque) and not recv.what.startswith("ext:") and name in ("encode", "decode"):
            return [(p, VOpaque("bytes"))]          # a pure conversion of a value we do not model
        if isinstance(recv, VOpaque) and recv.what.startswith("ext:"):
            # a method of an unverified third-party object (A10): no effect on edgegraph state; it may raise
            out = [(p.copy(), VRaise("AssertionError" if name == "add_edge" else "Exception", f"{recv.what}.{name}"))]
            if name == "add_edge":
                out.append((p.copy(), VRaise("Exception", f"{recv.what}.{name}")))
            out.append((p, VOpaque("ext:result")))
            return out
        raise Unsupported(f"method {name} of {type(recv).__name__}")


    # -- pyvis.network.Network: ASSUMED contract of the dependency (validated against the real class by the explorer) -------------
    def ext_total(self):
        return bool(getattr(self.cur_contract, "ext_total", False))

    def as_int(self, v):
        if isinstance(v, VInt):
            return v.term
        r = self.ref_of(v)
        if r is None:
            raise Unsupported("node id of a pyvis network")
        return T.int_unbox(r)

    def call_net_method(self, recv, name, args, kw, p: Path):
        """add_node(id, label=..): appended unless the id is already a node.  add_edge(a, b, ..): AssertionError unless both
        ids are nodes; in an undirected network (`directed` false) nothing is added when some record already joins the two ids in
        either orientation; otherwise the record (a, b, arrow = directed) is appended.  Neither touches edgegraph objects."""
        r = recv.ref
        st = p.st
        out = [] if self.ext_total() else [(p.copy(), VRaise("Exception", f"pyvis.{name}"))]
        if name == "add_node" and len(args) == 1 and set(kw) <= {"label"}:
            i = self.as_int(args[0])
            lab = kw.get("label")
            lr = self.ref_of(lab) if lab is not None else NONE
            if lr is None:
                lr = str_box(lab.term) if isinstance(lab, VStr) else (int_box(lab.term) if isinstance(lab, VInt) else None)
            if lr is None:
                raise Unsupported("label of a pyvis node")
            nodes, labels = st.read("net_nodes", r), st.read("net_labels", r)
            dup = z3.Contains(nodes, z3.Unit(i))
            st.write("net_nodes", r, z3.If(dup, nodes, z3.Concat(nodes, z3.Unit(i))))
            st.write("net_labels", r, T.ite(dup, labels, T.snoc(labels, lr)))
            out.append((p, NONE_V))
            return out
        if name == "add_edge" and len(args) == 2:
            i, j = self.as_int(args[0]), self.as_int(args[1])
            nodes = st.read("net_nodes", r)
            ok = z3.And(z3.Contains(nodes, z3.Unit(i)), z3.Contains(nodes, z3.Unit(j)))
            for (q, side) in self.fork(p, ok, "pyvis-nodes-exist"):
                if not side:
                    out.append((q, VRaise("AssertionError", "pyvis.add_edge: no such node")))
                    continue
                fr, to, ar = q.st.read("net_from", r), q.st.read("net_to", r), q.st.read("net_arrow", r)
                d = q.st.read("net_directed", r)
                there = z3.And(z3.Not(d), T.joined(fr, to, i, j))
                q.st.write("net_from", r, z3.If(there, fr, z3.Concat(fr, z3.Unit(i))))
                q.st.write("net_to", r, z3.If(there, to, z3.Concat(to, z3.Unit(j))))
                q.st.write("net_arrow", r, z3.If(there, ar, z3.Concat(ar, z3.Unit(z3.If(d, z3.IntVal(1), z3.IntVal(0))))))
                out.append((q, NONE_V))
            return out
        raise Unsupported(f"method {name} of a pyvis network")

    # -- builtins ----------------------------------------------------------------------------------------------------
    def call_builtin(self, name, args, kw, p: Path, node=None):
        if name == "len" and len(args) == 1:
            a = args[0]
            if isinstance(a, VSeq):
                return [(p, VInt(T.Len(a.term)))]
            if isinstance(a, VOwned):
                return [(p, VInt(T.Len(p.st.read(a.fieldname, a.owner))))]
            if isinstance(a, VList) and a.elem_cname == "<str>":
                return [(p, VInt(z3.Length(p.st.read("selems", a.ref))))]
            if isinstance(a, VList):
                return [(p, VInt(T.Len(p.st.elems(a.ref))))]
            if isinstance(a, VMro):
                return [(p, VInt(T.mro_len(a.cls)))]
            if isinstance(a, VAttrs):
                return [(p, VInt(T.ad_len(a.term)))]
            if isinstance(a, (VSet, VStrSet)):
                n_ = T.fresh("setlen", Int)          # the size of a set is not modelled: any non-negative number
                p.assume(n_ >= 0)
                return [(p, VInt(n_))]
        if name == "type" and len(args) == 1 and isinstance(args[0], VRef):
            return [(p, VCls(T.cls_of(args[0].term), None))]
        if name == "type" and len(args) == 1 and isinstance(args[0], VCls):
            return [(p, VMeta(T.meta_of(args[0].term)))]
        if name == "issubclass" and len(args) == 2 and isinstance(args[0], VCls) and isinstance(args[1], VCls):
            return [(p, VBool(T.sub(args[0].term, args[1].term)))]
        if name == "isinstance" and len(args) == 2:
            a, c = args
            if isinstance(c, VBuiltin) and c.name == "dict":
                if isinstance(a, VAttrs):
                    return [(p, VBool(T.ad_isdict(a.term)))]
                if isinstance(a, VDict):
                    # an `attributes` argument: dict or not is a symbolic property of the argument
                    return [(p, VBool(z3.Bool(f"isdict({a.ref})")))]
                return [(p, VBool(z3.BoolVal(False)))]
            if isinstance(a, VRef) and isinstance(c, VCls):
                return [(p, VBool(T.sub(T.cls_of(a.term), c.term)))]
            if isinstance(a, VRef) and isinstance(c, VModule) and c.dotted == "ext:re.Pattern":
                return [(p, VBool(T.is_pattern(a.term)))]
        if name in ("tuple", "list") and len(args) <= 1:
            if not args:
                return [(p, VSeq(T.EMPTY(), None, "tuple"))] if name == "tuple" else [(p, self.new_list(p, T.EMPTY()))]
            a = args[0]
            if isinstance(a, VIter) and a.is_none is not None and not z3.is_false(a.is_none):
                out = []
                for (q, side) in self.fork(p, a.is_none, "iterNone"):
                    if side:
                        out.append((q, VRaise("TypeError")))
                    else:
                        s, ecn = self.iter_seq(q, a)
                        out.append((q, VSeq(s, ecn, "tuple") if name == "tuple" else self.new_list(q, s, ecn)))
                return out
            s, ecn = self.iter_seq(p, a)
            if name == "tuple":
                return [(p, VSeq(s, ecn, "tuple"))]
            return [(p, self.new_list(p, s, ecn))]
        if name == "range" and 1 <= len(args) <= 3 and all(isinstance(a, VInt) for a in args):
            if len(args) == 1:
                start, stop, step = z3.IntVal(0), args[0].term, 1
            else:
                start, stop = args[0].term, args[1].term
                step = 1
                if len(args) == 3:
                    st_ = z3.simplify(args[2].term)
                    if not z3.is_int_value(st_) or st_.as_long() == 0:
                        raise Unsupported("range with a symbolic step")
                    step = st_.as_long()
            return [(p, VConst(("range", start, stop, step)))]
        if name == "enumerate" and len(args) == 1:
            return [(p, VConst(("enumerate", args[0])))]
        if name == "repr" and len(args) == 1 and isinstance(args[0], VRef):
            return [(p, VStr(T.py_repr(args[0].term)))]
        if name == "sorted" and len(args) == 1 and set(kw) == {"key"} and isinstance(kw["key"], VCallback):
            sq, ecn = self.iter_seq(p, args[0])
            return [(p, self.new_list(p, T.sortedby(kw["key"].term, sq), ecn, "sorted"))]
        if name == "id" and len(args) == 1 and isinstance(args[0], VRef):
            return [(p, VConst(("id", args[0].term)))]
        if name == "hex" and len(args) == 1 and isinstance(args[0], VConst) and isinstance(args[0].value, tuple) and args[0].value[0] == "id":
            return [(p, VRef(T.hexid(args[0].value[1]), None, "opaque"))]       # hex(id(obj)): an opaque label value
        if name in ("hex", "id", "repr", "str", "chr") and len(args) == 1:
            return [(p, VOpaque(name))]
        if name == "set" and not args:
            return [(p, self.new_set(p))]
        if name == "set" and len(args) == 1:
            a = args[0]
            if isinstance(a, VList) and a.elem_cname == "<str>":
                return [(p, VStrSet("set of strings"))]
            if isinstance(a, (VSeq, VOwned, VList)):
                sq, ecn = self.iter_seq(p, a)
                sv = self.new_set(p, ecn)
                p.st.write_where("setmem", lambda ad, r=sv.ref, sq=sq: (T.eq(ad[0], r), T.Mem(sq, ad[1])))
                return [(p, sv)]
        if name == "dict" and not args:
            return [(p, self.new_dict(p))]
        if name == "dict" and len(args) == 1 and isinstance(args[0], VRef) and args[0].role == "opaque" and getattr(self.cur, "module", "").endswith("universe"):
            return self.wl_build(p, args[0], "shallow")
        if name == "hasattr" and len(args) == 2 and isinstance(args[0], VRef) and isinstance(args[1], VStr):
            return [(p, VBool(self.has_attr(p.st, args[0].term, args[1].term)))]
        if name == "getattr" and len(args) == 2 and isinstance(args[0], VRef) and isinstance(args[1], VStr):
            out = []
            for (q, side) in self.fork(p, self.has_attr(p.st, args[0].term, args[1].term), "getattr"):
                if side:
                    out.append((q, VRef(self.get_attr(q.st, args[0].term, args[1].term), None, "opaque")))
                else:
                    out.append((q, VRaise("AttributeError")))
            return out
        if name == "setattr" and len(args) == 3 and isinstance(args[0], VRef) and isinstance(args[1], VStr):
            return [(q, NONE_V) if r is None else (q, r) for (q, r) in self.set_dyn(args[0].term, args[1].term, args[2], p)]
        raise Unsupported(f"builtin {name}/{len(args)} with {[type(a).__name__ for a in args]}")
