"""Compile the Lean lemma base behind the rewrite rules (DESIGN.md 3.5) and record the result."""
from __future__ import annotations
import hashlib
import json
import os
import subprocess
import time

VERIF = os.path.dirname(os.path.dirname(os.path.abspath(__file__)))
LEAN_DIR = os.path.join(VERIF, "lean")
STAMP = os.path.join(VERIF, "build", "lean_ok.json")


def files():
    return sorted(f for f in os.listdir(LEAN_DIR) if f.endswith(".lean"))


def digest():
    h = hashlib.sha256()
    for f in files():
        h.update(open(os.path.join(LEAN_DIR, f), "rb").read())
    return h.hexdigest()


def status():
    """-> dict describing the last recorded compilation, valid only if the sources are unchanged"""
    if os.path.exists(STAMP):
        st = json.load(open(STAMP))
        if st.get("sha256") == digest():
            return st
    return {"ok": None, "sha256": digest(), "note": "lean lemma base not compiled in this checkout (run `python3-vt -m pyvc setup`)"}


def run(force=False):
    st = status()
    if st.get("ok") and not force:
        return True, f"already checked ({st['seconds']}s, sha256 {st['sha256'][:12]})"
    t0 = time.time()
    ok = True
    out = []
    for f in files():
        r = subprocess.run(["lean", f], cwd=LEAN_DIR, capture_output=True, text=True, timeout=1800)
        txt = r.stdout + r.stderr
        if r.returncode != 0 or "error" in txt or "sorry" in txt:
            ok = False
            out.append(f + ": " + txt[-800:])
    os.makedirs(os.path.dirname(STAMP), exist_ok=True)
    ver = subprocess.run(["lean", "--version"], capture_output=True, text=True).stdout.strip()
    st = {"ok": ok, "sha256": digest(), "seconds": round(time.time() - t0, 1), "lean": ver, "files": files(), "errors": out}
    json.dump(st, open(STAMP, "w"), indent=1)
    return ok, (f"{len(files())} file(s) compiled without errors or sorry in {st['seconds']}s ({ver})" if ok else "FAILED: " + "; ".join(out))
