"""Contract registry.  Contracts live in /verif/contracts/*.py, keyed by qualified function name (never line numbers).

A contract is an *executable symbolic specification*: given the pre-state and the (symbolic) arguments it returns
  - `requires`: formulas the caller must establish,
  - a list of `Outcome`s (normal or exceptional) whose conditions partition the pre-states satisfying `requires`;
    each outcome carries the post-state as a *function of the pre-state* (explicit updates => the frame is explicit),
    the result, and optional "loose" field descriptions (post value constrained, not fixed).
The same object is used (a) at call sites: obligations for `requires`, then one continuation per outcome, and
(b) at the exits of the function's own body: every path must agree with the outcome whose condition it satisfies.
"""
from __future__ import annotations
from dataclasses import dataclass, field
from typing import Callable
import re
import z3
from . import terms as T
from .state import State
from .values import *


@dataclass
class Schema:
    """universally quantified hypothesis, instantiated by the tool.
    sorts: tuple of sorts; fn(*terms) -> Bool.  trigger: optional list of FuncDecl; then instances are taken from the
    argument tuples of applications of those functions instead of the cartesian product of the reference universe."""
    name: str
    sorts: tuple
    fn: Callable
    trigger: tuple = ()
    pair_from: tuple = ()      # binary reference schemas: only pairs coming from membership atoms on these functions (name prefixes)
    filter: bool = False       # universe-driven instances are kept per conjunct, and only when one of the conjunct's own
                               # applications over the instantiation term already occurs in the query (E-matching style);
                               # opt-in, for schemas that are conjunctions of independent "nobody refers to r" style facts


@dataclass
class Loose:
    """field whose post-value is only constrained: `constraint(new_read, old_read)` returns list[Schema] describing
    the allowed post-values in terms of read functions (addr -> term)."""
    fieldname: str
    constraint: Callable


@dataclass
class Outcome:
    cond: z3.BoolRef
    exc: str | None
    post: State
    result: V | None = None
    loose: list[Loose] = field(default_factory=list)
    fresh: list = field(default_factory=list)        # (ref term, class term or name) allocated by the spec
    label: str = ""
    facts: list = field(default_factory=list)         # extra ground facts about the result (assumed by callers, proved by the body)
    out: z3.ExprRef | None = None                     # generators: the yielded sequence
    fact_schemas: list = field(default_factory=list)  # quantified facts about the result (proved by the body, assumed by callers)
    may: bool = False      # an abnormal end that MAY happen whenever cond holds (resource exhaustion: RecursionError), next to the
                           # deterministic outcomes: callers must cope with it, the body may end this way, nobody has to


@dataclass
class Spec:
    requires: list = field(default_factory=list)      # list of (label, Bool)
    outcomes: list = field(default_factory=list)
    assume_schemas: list = field(default_factory=list)   # quantified preconditions (global invariants) assumed by the body
    measure: z3.ArithRef | None = None                # termination measure for recursive groups
    enums: list = field(default_factory=list)         # ghost enumerations: (RSeq const, predicate Ref -> Bool)
    defs: list = field(default_factory=list)          # ground definitional unfoldings of fold-style spec functions (run-time monitor)
    ghosts: list = field(default_factory=list)        # (name, const): spec-level ghost values matched with the body's ghost locals
    gdefs: list = field(default_factory=list)         # ground definitional unfoldings of recursively defined spec functions: assumed by
                                                      # the body and at call sites, never checked (conservative definitions only)


class SpecCtx:
    """what a contract function sees"""

    def __init__(self, S: State, args: dict, alloc, repo, site="spec"):
        self.S = S
        self.args = args
        self._alloc = alloc
        self.repo = repo
        self.spec = Spec()
        self.site = site

    def __getattr__(self, name):
        a = self.__dict__.get("args", {})
        if name in a:
            v = a[name]
            if isinstance(v, (VRef, VInt, VBool, VStr, VCls, VCallback, VSeq, VAttrs, VAdj, VOptTable, VOpts)):
                return v.term
            return v
        raise AttributeError(name)

    def val(self, name) -> V:
        return self.args[name]

    def requires(self, cond, label=""):
        self.spec.requires.append((label or f"requires[{len(self.spec.requires)}]", cond))

    def assume_inv(self, schema: Schema):
        self.spec.assume_schemas.append(schema)

    def measure(self, m):
        self.spec.measure = m

    def define(self, *facts):
        """ground unfoldings of a (conservatively) defined spec function, available to the body and to callers"""
        self.spec.gdefs.extend(facts)

    def ghost(self, name, sort):
        """an existentially quantified spec value (e.g. the number of steps of a canonical machine); the body check
        identifies it with the ghost local `$name` defined by the loop invariants, callers get a fresh constant"""
        g = T.fresh("spec_" + name, sort)
        self.spec.ghosts.append((name, g))
        return g

    def enum_where(self, pred, name="enum"):
        """ghost: an arbitrary duplicate-free enumeration of the references satisfying `pred` (set iteration order, A9).
        The body check identifies it with the enumeration the code actually iterates over."""
        p = T.fresh("spec_" + name, T.RSeq)
        self.spec.enums.append((p, pred))
        self.spec.assume_schemas.append(Schema(f"enum({p})", (T.Ref,), lambda x, p=p, pred=pred: z3.And(
            T.Cnt(p, x) <= 1, (T.Cnt(p, x) >= 1) == pred(x), z3.Implies(z3.Length(p) > 0, T.Cnt(p, p[0]) >= 1))))
        return p

    def fresh(self, cname_or_cls, name="new"):
        return self._alloc(cname_or_cls, name)

    def outcome(self, when=None, exc=None, result=None, label="") -> "OutcomeBuilder":
        o = Outcome(when if when is not None else z3.BoolVal(True), exc, self.S.copy(), result, label=label)
        self.spec.outcomes.append(o)
        return OutcomeBuilder(o, self)

    def normal(self, when=None, result=None, label=""):
        return self.outcome(when, None, result, label)

    def raises(self, exc, when=None, label=""):
        return self.outcome(when, exc, None, label)


class OutcomeBuilder:
    def __init__(self, o: Outcome, ctx: SpecCtx):
        self.o = o
        self.ctx = ctx
        self.post = o.post

    def set(self, fieldname, addr, val, when=None):
        self.o.post.write(fieldname, addr, val, when)
        return self

    def set_where(self, fieldname, fn):
        self.o.post.write_where(fieldname, fn)
        return self

    def loose(self, fieldname, constraint):
        self.o.loose.append(Loose(fieldname, constraint))
        return self

    def result(self, v):
        self.o.result = v
        return self

    def fact(self, f):
        self.o.facts.append(f)
        return self

    def fact_schema(self, sch):
        self.o.fact_schemas.append(sch)
        return self

    def fresh(self, cname_or_cls, name="new"):
        r = self.ctx.fresh(cname_or_cls, name)
        self.o.fresh.append((r, cname_or_cls))
        if isinstance(cname_or_cls, str) and cname_or_cls == "<container>":
            self.o.post.write("selems", r, z3.Empty(T.SSeq))      # a new list holds no strings (mirrors the executor's allocation)
        else:
            # a new instance starts without dynamic attributes and with an empty neighbor memo
            self.o.post.write_where("dyn_has", lambda a, r=r: (T.eq(a[0], r), z3.BoolVal(False)))
            self.o.post.write_where("memo_has", lambda a, r=r: (T.eq(a[0], r), z3.BoolVal(False)))
        return r

    def out(self, seq):
        self.o.out = seq
        return self


@dataclass
class Param:
    name: str
    ty: str                   # 'Vertex', 'Vertex?', 'int', 'bool', 'cls<=TwoEndedLink', 'cb:ff', 'any', 'iter:Link', 'str'
    default: object = None
    kwonly: bool = False


@dataclass
class Contract:
    qualname: str
    params: list[Param]
    fn: Callable              # fn(ctx: SpecCtx) -> None (fills ctx.spec)
    refines: str | None = None        # this function is an override verified against another function's contract
    pure_getter: bool = False
    props: tuple = ()                 # property ids this contract serves
    trusted: bool = False             # contract of an external / unverified function (assumption, listed in evidence)
    group: str | None = None          # recursion group for termination measures
    is_generator: bool = False
    no_body: bool = False             # do not verify the body (trusted=True required)
    self_exact: str | None = None     # for __init__: verify the body for instances whose class is a subclass of the owner
    shards: int = 1                   # split the discharge of this function's obligations over several worker processes
    ext_total: bool = False           # third-party calls (pyvis) are assumed not to raise beyond their documented AssertionError
    oracle_op: bool = False           # run time: not evaluated by the monitor (existential ghosts / registration only); an explorer
                                      # operation compares the function with the property statement instead


@dataclass
class LoopSpec:
    qualname: str
    ordinal: int
    fn: Callable              # fn(L: LoopCtx) -> LoopInv
    props: tuple = ()


@dataclass
class LoopInv:
    state: State | None = None        # expected heap as a function of entry state and prefix (None = unchanged)
    facts: list = field(default_factory=list)       # ground facts about locals
    schemas: list = field(default_factory=list)     # quantified facts
    loose: list = field(default_factory=list)
    define: dict = field(default_factory=dict)      # locals defined by the invariant: name -> V
    variant: z3.ArithRef | None = None
    out: z3.ExprRef | None = None                   # generators: yielded sequence so far
    defs: list = field(default_factory=list)        # definitional unfoldings of spec functions (schemas; assumed, never checked)
    ground_defs: list = field(default_factory=list)  # the same, ground
    supersedes: bool = False          # this invariant restates everything the enclosing loops' invariants said: their quantified
                                      # hypotheses are dropped when this one is assumed (fewer hypotheses: always sound)


class Registry:
    def __init__(self):
        self.contracts: dict[str, Contract] = {}
        self.loops: dict[tuple[str, int], LoopSpec] = {}
        self.lemmas: list = []        # (id, props, fn(ctxbuilder) -> list of obligations)
        self.invariants: dict[str, Callable] = {}

    def contract(self, qualname, params="", **kw):
        def deco(fn):
            self.contracts[qualname] = Contract(qualname, parse_params(params), fn, **kw)
            return fn
        return deco

    def refines(self, qualname, base, params=None, **kw):
        b = self.contracts[base]
        self.contracts[qualname] = Contract(qualname, parse_params(params) if params is not None else b.params, b.fn,
                                            refines=base, pure_getter=b.pure_getter, props=b.props,
                                            is_generator=b.is_generator, **kw)

    def loop(self, qualname, ordinal, **kw):
        def deco(fn):
            self.loops[(qualname, ordinal)] = LoopSpec(qualname, ordinal, fn, **kw)
            return fn
        return deco

    def lemma(self, lid, props=()):
        def deco(fn):
            self.lemmas.append((lid, tuple(props), fn))
            return fn
        return deco


def parse_params(s: str) -> list[Param]:
    out = []
    kwonly = False
    for part in [p.strip() for p in s.split(",") if p.strip()]:
        if part == "*":
            kwonly = True
            continue
        default = None
        m = re.search(r"(?<!<)=", part)
        if m:
            part, d = part[:m.start()], part[m.end():]
            default = d.strip()
        name, ty = [x.strip() for x in part.split(":", 1)]
        out.append(Param(name, ty, default, kwonly))
    return out


REG = Registry()
