import sys, json
sys.path.insert(0,'/verif')
from pyvc import check
pid=sys.argv[1]; focus=sys.argv[2].split(',') if len(sys.argv)>2 and sys.argv[2] else None
root=sys.argv[3] if len(sys.argv)>3 else None
agg, failure = check.bounded_search(pid, focus, float(sys.argv[4]) if len(sys.argv)>4 else 15, int(sys.argv[5]) if len(sys.argv)>5 else 0, root)
print({k:v for k,v in agg.items() if k!='sample'})
print(json.dumps(failure, indent=1))
