#!/bin/sh
# usage: trymut.sh <patch file> <qualname>...   verify functions against a scratch copy of /repo with the patch applied
set -e
tmp=$(mktemp -d /tmp/trymut_XXXX)
cp -r /repo/edgegraph "$tmp/"
( cd "$tmp" && patch -p1 -s < "$1" )
shift
cd /verif
PYVC_REPO="$tmp" python3-vt -m pyvc verify "$@" 2>&1 | grep -v "^    proved\|^    covered" | cut -c1-260
rm -rf "$tmp"
