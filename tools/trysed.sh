#!/bin/sh
# usage: trysed.sh <file under edgegraph/> <sed expr> <qualname>...   verify against a scratch copy with a one-line edit
tmp=$(mktemp -d /tmp/trysed_XXXX)
cp -r /repo/edgegraph "$tmp/"
sed -i "$2" "$tmp/edgegraph/$1"
diff -r /repo/edgegraph "$tmp/edgegraph" | grep '^[<>]' | head -6
f=$1; shift; shift
cd /verif
PYVC_REPO="$tmp" python3-vt -m pyvc verify "$@" 2>&1 | grep -v "^    proved\|^    covered" | cut -c1-200
rm -rf "$tmp"
