#!/usr/bin/env python3
"""Print the seeds x checks table (markdown) from /verif/seeded/matrix.json and the seeds' meta files."""
import json, os
d = json.load(open("/verif/seeded/matrix.json"))
print("| seed | what the change does (from the sub-agent's note) | own check | how |")
print("|---|---|---|---|")
for s in sorted(d):
    v = d[s]
    meta = json.load(open(f"/verif/seeded/{s}/meta.json"))
    note = (meta.get("needs") or "").strip().splitlines()
    what = (note[0] if note else "").replace("|", "/")[:150]
    if "status" in v:
        res, how = "-", v["status"]
    elif v.get("detected"):
        res = "VIOLATION"
        lines = [l for l in v["lines"] if l.startswith("VIOLATION")]
        rp = lines[0].split("replay=")[1].split()[0].split("/")[-1] if lines else ""
        if v.get("with_failing_input"):
            how = ("failing history found by the explorer" + (" (stand-in: function left the symbolic subset)" if "bounded_" in rp else
                   " for a trusted contract" if "trusted_" in rp else " after refuted / undecided obligations")) + f": `{rp[:60]}`"
        else:
            how = f"refuted obligation, no failing input constructed: `{rp[:70]}`"
    else:
        res = f"missed (exit {v.get('exit')})"
        how = "; ".join(l[:110] for l in v.get("lines", [])[:1])
    print(f"| {s} | {what} | {res} | {how} |")
