#!/bin/sh
# usage: tryexpl.sh <patch> <PID> <focus,comma> [budget]  run the bounded explorer against a scratch copy with the patch applied
tmp=$(mktemp -d /tmp/tryexpl_XXXX)
cp -r /repo/edgegraph "$tmp/"
( cd "$tmp" && patch -p1 -s < "$1" )
cd /verif
python3-vt /verif/tools/expl.py "$2" "$3" "$tmp" "${4:-15}" 2>&1 | tail -25
rm -rf "$tmp"
