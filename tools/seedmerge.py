#!/usr/bin/env python3
"""Merge the results of several seedmatrix runs (vp-run snapshots write their own matrix.json; their logs carry `seed {json}` blocks)
into /verif/seeded/matrix.json.  usage: seedmerge.py <log file> ...   (later logs win)"""
import json, os, re, sys
VERIF = os.path.dirname(os.path.dirname(os.path.abspath(__file__)))
out_path = os.path.join(VERIF, "seeded", "matrix.json")
res = {}
for path in sys.argv[1:]:
    txt = open(path, errors="replace").read()
    for m in re.finditer(r"^(C\d\d-\d+) (\{.*?^\})", txt, re.S | re.M):
        seed = m.group(1)
        try:
            body = json.loads(m.group(2))
        except Exception:
            continue
        pid = seed.split("-")[0]
        r = body.get(pid)
        if not r:
            continue
        lines = r["lines"]
        res[seed] = {"property": pid, "exit": r["exit"],
                     "detected": r["exit"] == 1 and any(l.startswith("VIOLATION property=" + pid) for l in lines),
                     "with_failing_input": any(l.startswith("VIOLATION") and not l.rstrip().endswith("no-failing-input-found") for l in lines),
                     "lines": [re.sub(r"/tmp/seedrun_\w+/", "", l)[:220] for l in lines[:6]], "from": os.path.basename(os.path.dirname(path)) or path}
have = sorted(d for d in os.listdir(os.path.join(VERIF, "seeded")) if os.path.isdir(os.path.join(VERIF, "seeded", d)))
json.dump(res, open(out_path, "w"), indent=1)
print(len(res), "results;", "missing:", [s for s in have if s not in res])
print("not detected:", [s for s, v in sorted(res.items()) if not v["detected"]])
