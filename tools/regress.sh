#!/bin/sh
# run every claimed quick check on the current tree; summary lines only
cd /verif
for c in $(python3 -c "import json;print(' '.join(x['property_id'] for x in json.load(open('/verif/MANIFEST.json'))['checks']))"); do
  echo "$c"
  ( /usr/bin/time -f '%es' python3-vt -m pyvc check $c --tier ${1:-quick}; echo "exit=$?" ) 2>&1 | grep -v '^  '
done
