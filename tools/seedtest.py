#!/usr/bin/env python3
"""Confirm a seeded change and run the registered checks against it.

usage: seedtest.py confirm <src_dir> <k> <PID>     import /tmp/seedout/<PID>/{patch,demo,note}<k> into /verif/seeded/<PID>-<k>
                                                    after confirming: tests pass with the change, demo fails with / passes without
       seedtest.py run <seed_id> [PID ...]         apply the patch to /repo, run the quick checks, undo; prints exit codes
"""
import json
import os
import shutil
import subprocess
import sys
import tempfile

VERIF = os.path.dirname(os.path.dirname(os.path.abspath(__file__)))      # the checkout this script lives in (a vp-run snapshot works)
REPO = "/repo"
PY = "/venv/bin/python"


def sh(cmd, cwd=None, env=None, timeout=1800):
    r = subprocess.run(cmd, shell=True, cwd=cwd, env=env, capture_output=True, text=True, timeout=timeout)
    return r.returncode, r.stdout + r.stderr


def confirm(src, k, pid):
    patch = os.path.join(src, f"patch{k}.diff")
    demo = os.path.join(src, f"demo{k}.py")
    note = os.path.join(src, f"note{k}.txt")
    wt = tempfile.mkdtemp(prefix="seedwt_")
    os.rmdir(wt)
    rc, out = sh(f"git -C {REPO} worktree add --detach {wt} HEAD -q")
    assert rc == 0, out
    result = {"property": pid, "source": "independent sub-agent given only the property text and a scratch worktree"}
    try:
        env = dict(os.environ, PYTHONPATH=wt)
        rc0, out0 = sh(f"{PY} {demo}", cwd=wt, env=env)
        result["demo_on_clean_tree_exit"] = rc0
        rc, out = sh(f"git apply {patch}", cwd=wt)
        assert rc == 0, out
        rc1, out1 = sh(f"{PY} -m pytest -q -p no:cacheprovider --timeout=900 -x", cwd=wt)
        result["tests_with_change"] = out1.strip().splitlines()[-1] if out1.strip() else ""
        result["tests_with_change_exit"] = rc1
        rc2, out2 = sh(f"{PY} {demo}", cwd=wt, env=env)
        result["demo_with_change_exit"] = rc2
        result["demo_with_change_tail"] = out2.strip().splitlines()[-3:]
    finally:
        sh(f"git -C {REPO} worktree remove --force {wt}")
    ok = rc0 == 0 and rc1 == 0 and rc2 != 0
    result["confirmed"] = ok
    if ok:
        dst = os.path.join(VERIF, "seeded", f"{pid}-{k}")
        os.makedirs(dst, exist_ok=True)
        shutil.copy(patch, os.path.join(dst, "patch.diff"))
        shutil.copy(demo, os.path.join(dst, "demo.py"))
        result["needs"] = open(note).read().strip() if os.path.exists(note) else ""
        result["ran"] = ["git apply patch.diff in a scratch worktree of /repo HEAD",
                         "/venv/bin/python -m pytest -q -p no:cacheprovider --timeout=900 -x  (must pass)",
                         "PYTHONPATH=<worktree> /venv/bin/python demo.py  (must fail with the change, pass without)"]
        json.dump(result, open(os.path.join(dst, "meta.json"), "w"), indent=1)
    print(json.dumps(result, indent=1))
    return ok


def run(seed_id, pids):
    d = os.path.join(VERIF, "seeded", seed_id)
    meta = json.load(open(os.path.join(d, "meta.json")))
    if not pids:
        pids = [meta["property"]]
    rc, out = sh(f"git -C {REPO} status --porcelain")
    assert out.strip() == "", "repo not clean: " + out
    rc, out = sh(f"git -C {REPO} apply {os.path.join(d, 'patch.diff')}")
    assert rc == 0, out
    res = {}
    try:
        for pid in pids:
            rc, out = sh(f"python3-vt -m pyvc check {pid} --tier quick", cwd=VERIF, timeout=3600)
            lines = [l for l in out.splitlines() if l.startswith(("VIOLATION", "UNDECIDED", "CHECKER-ERROR", "KNOWN", "pyvc"))]
            res[pid] = {"exit": rc, "lines": lines[:12]}
    finally:
        sh(f"git -C {REPO} checkout -- .")
        sh(f"git -C {REPO} clean -fdq edgegraph")
    print(json.dumps(res, indent=1))
    return res


def run_scratch(seed_id, pids):
    """same as run, but on a scratch copy of /repo (PYVC_REPO) so that /repo stays untouched (development use)"""
    d = os.path.join(VERIF, "seeded", seed_id)
    meta = json.load(open(os.path.join(d, "meta.json")))
    if not pids:
        pids = [meta["property"]]
    tmp = tempfile.mkdtemp(prefix="seedrun_")
    res = {}
    try:
        sh(f"cp -r {REPO}/edgegraph {tmp}/")
        rc, out = sh(f"patch -p1 -s < {os.path.join(d, 'patch.diff')}", cwd=tmp)
        assert rc == 0, out
        for pid in pids:
            env = dict(os.environ, PYVC_REPO=tmp)
            rc, out = sh(f"python3-vt -m pyvc check {pid} --tier quick --evidence-dir {tmp}/evidence --replay-dir {tmp}/replays", cwd=VERIF, env=env, timeout=3600)
            lines = [l for l in out.splitlines() if l.startswith(("VIOLATION", "UNDECIDED", "CHECKER-ERROR", "KNOWN", "pyvc", "BOUNDED"))]
            res[pid] = {"exit": rc, "lines": lines[:12]}
    finally:
        shutil.rmtree(tmp, ignore_errors=True)
    print(seed_id, json.dumps(res, indent=1))
    return res


if __name__ == "__main__":
    if sys.argv[1] == "scratch":
        run_scratch(sys.argv[2], sys.argv[3:])
    if sys.argv[1] == "confirm":
        sys.exit(0 if confirm(sys.argv[2], sys.argv[3], sys.argv[4]) else 1)
    if sys.argv[1] == "run":
        run(sys.argv[2], sys.argv[3:])
