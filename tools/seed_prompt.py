"""Print the prompt given to a mutation-seeding sub-agent for one property (only the property text + a scratch worktree)."""
import json, sys
pid = sys.argv[1]
props = {json.loads(l)["id"]: json.loads(l) for l in open("/verif/properties.jsonl")}
p = props[pid]
print(f"""You are helping to evaluate a verification framework by writing realistic, subtle bugs ("seeded changes") for a small pure-Python graph library, mishaturnbull/edgegraph.

Your scratch git worktree of the library is at /tmp/wt/{pid} (a detached checkout; work ONLY there; do not touch /repo, and do not read or list anything under /verif - your work must be independent of it). Run the test suite there with:
    cd /tmp/wt/{pid} && /venv/bin/python -m pytest -q -p no:cacheprovider --timeout=900
(pytest run from that directory imports the worktree's edgegraph package; 652 tests pass on the unmodified tree. For stand-alone scripts use: cd /tmp/wt/{pid} && PYTHONPATH=/tmp/wt/{pid} /venv/bin/python script.py)

The semantic property that your changes must BREAK:

  id: {pid}
  title: {p['title']}
  statement: {p['statement']}
  quantified over: {p['quantifier']['text']}
  why the test suite cannot settle it: {p['why_tests_cant']}

Task: produce TWO different, independent changes to the library source (files under edgegraph/ only, not tests), each of which
  * still imports/compiles and keeps the ENTIRE existing test suite passing (652 passed), 
  * makes the library violate the property above for some input/history,
  * needs something specific to manifest - e.g. a multi-step sequence of operations, an unusual input (self-loop, parallel edges, None end, nested universe, subclass, particular flag/argument combination), a fault at a particular point, or two cooperating sites that each look fine alone - rather than something ordinary use would expose at once,
  * looks like a plausible refactoring/optimisation/bug a maintainer could make (small: a few lines), not sabotage. The two changes should touch different functions or mechanisms if possible.

For each change k in (1, 2) write into /tmp/seedout/{pid}/ :
  * patch{{k}}.diff  - `git diff` of the worktree against its HEAD containing only that change (apply-able with `git apply` at the repo root),
  * demo{{k}}.py     - a small stand-alone program (run as above with PYTHONPATH pointing at the tree) that exits 0 and prints OK on the unmodified tree, and exits non-zero (assertion failure showing the property violation) with the change applied,
  * note{{k}}.txt    - 3-6 lines: what was changed, which clause of the property it breaks, what is needed for it to manifest.
Verify both claims yourself (full test suite passes WITH the change; demo fails with and passes without). Between the two changes reset the worktree (git -C /tmp/wt/{pid} checkout -- .). Leave the worktree clean (no modifications) when you finish. Your final answer should just list the files written and a one-line summary per change.""")
