"""Third-round seeding prompt: seed_prompt.py with its own worktree / output directory (suffix c) and change numbers 5, 6."""
import sys, subprocess
pid = sys.argv[1]
txt = subprocess.run([sys.executable, "/verif/tools/seed_prompt.py", pid], capture_output=True, text=True).stdout
txt = txt.replace(f"/tmp/wt/{pid}", f"/tmp/wt/{pid}c").replace(f"/tmp/seedout/{pid}/", f"/tmp/seedout/{pid}c/")
txt = txt.replace("For each change k in (1, 2)", "For each change k in (5, 6)")
print(txt)
