"""Fourth-round seeding prompt: seed_prompt.py with its own worktree / output directory (suffix d) and change numbers 7, 8."""
import sys, subprocess
pid = sys.argv[1]
txt = subprocess.run([sys.executable, "/verif/tools/seed_prompt.py", pid], capture_output=True, text=True).stdout
txt = txt.replace(f"/tmp/wt/{pid}", f"/tmp/wt/{pid}d").replace(f"/tmp/seedout/{pid}/", f"/tmp/seedout/{pid}d/")
txt = txt.replace("For each change k in (1, 2)", "For each change k in (7, 8)")
print(txt)
