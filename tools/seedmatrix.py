#!/usr/bin/env python3
"""Run every confirmed seeded change against the quick check of its own property (scratch copy of /repo via PYVC_REPO);
writes /verif/seeded/matrix.json.  usage: seedmatrix.py [seed ...]"""
import json, os, sys, time
sys.path.insert(0, os.path.dirname(__file__))
import seedtest
claimed = {c["property_id"] for c in json.load(open(os.path.join(seedtest.VERIF, "MANIFEST.json")))["checks"]}
out_path = os.path.join(seedtest.VERIF, "seeded", "matrix.json")
res = json.load(open(out_path)) if os.path.exists(out_path) else {}
seeds = sys.argv[1:] or sorted(d for d in os.listdir(os.path.join(seedtest.VERIF, "seeded")) if os.path.isdir(os.path.join(seedtest.VERIF, "seeded", d)))
for s in seeds:
    pid = s.split("-")[0]
    if pid not in claimed:
        res[s] = {"property": pid, "status": "property not claimed (not_applicable)"}
        continue
    t0 = time.time()
    r = seedtest.run_scratch(s, [pid])[pid]
    lines = r["lines"]
    res[s] = {"property": pid, "exit": r["exit"], "seconds": round(time.time() - t0),
              "detected": r["exit"] == 1 and any(l.startswith("VIOLATION property=" + pid) for l in lines),
              "with_failing_input": any(l.startswith("VIOLATION") and not l.rstrip().endswith("no-failing-input-found") for l in lines),
              "lines": [l[:220] for l in lines[:6]]}
    json.dump(res, open(out_path, "w"), indent=1)
json.dump(res, open(out_path, "w"), indent=1)
