"""(Re)generate /verif/MANIFEST.json from the table below."""
import json
props = [json.loads(l) for l in open("/verif/properties.jsonl")]
BASE_NOTE = ("Trusted base: the pyvc VC generator's encoding of Python semantics (assumptions A1-A13 + allocation model, "
             "listed in every evidence file), z3 4.15/5.1 + cvc5 1.0.3, the Lean/Mathlib-checked list lemma base behind the rewrite "
             "rules. Contracts are sidecar files in /verif/contracts; the verified text is the AST of /repo's working tree, re-read every run.")
CLAIMED = {
 "C01": ("proof", "6/C01", "Every association mutator of the repo (17 functions incl. constructors, setters and their DirectedEdge overrides) is "
         "verified path-by-path against a functional contract (post-state as explicit updates of the pre-state, exceptional exits included); "
         "the symmetric/duplicate-free invariant I1 is then proved to be preserved by every public operation's contract from an arbitrary "
         "I1-state, for symbolic (possibly aliased / None) arguments: all histories by induction, no bound."),
 "C02": ("proof", "6/C02", "Membership operations and the constructors taking universes=/vertices= are verified against the symmetric reference "
         "model (append at the end, erase-first on both sides, ValueError with unchanged state); invariant I2 (symmetric, duplicate-free) "
         "is proved preserved by each contract; nested/self membership is covered because u and o are unconstrained symbolic references."),
 "C03": ("proof", "6/C03", "The reference model of the property statement IS the set of top-level contracts: edge construction, end assignment, "
         "unlink(a,b,destroy), link_from_to(dontdup) and the membership operations are each verified (all paths, normal and exceptional exits) "
         "against postconditions that give the whole post-state as explicit updates of the pre-state, so the frame ('every other vertex's ordered "
         "links and every other link untouched') is a proved equality at an arbitrary address, not an omission. Unbounded: symbolic aliased arguments, loop invariants."),
 "C04": ("proof", "6/C04", "neighbors() is verified against NB = fold of the decision table `contrib` (written from the statement) over the ordered link "
         "list: loop invariant elems(nbs) = NB(prefix); all 3x3 parameter combinations, filters, link classes (open class hierarchy) and positions of v "
         "are symbolic; exception outcomes have unchanged state. The FORWARD/BACKWARD count symmetry is proved pointwise per link (SMT) and lifted by a "
         "Lean-checked counting lemma."),
 "C05": ("proof", "6/C05", "Cache coherence I5 (every memo entry holds NB of the current heap) is an invariant independent of the caching flag: "
         "(a) neighbors() is verified to return NB on the cached and on the computed path and to insert only a coherent, separate list; (b) for each of "
         "the 20 public mutators a footprint lemma over its contract shows that every vertex that keeps a memo entry keeps its ordered link list and "
         "every link of it keeps its ends (NB is a fold over exactly that footprint: Lean nb_congr); the mutators' cache effects are under-specified "
         "('entries only disappear, these vertices are cleared') so over-invalidation never alarms; (c) no contract requires a statistics entry, so "
         "objects un-pickled into a fresh interpreter are usable (a KeyError path would be an exit without contract outcome). Traversals/searches "
         "inherit transparency from neighbors()'s contract. Assumed: pickle reconstructs an isomorphic copy including its memo."),
 "C06": ("proof", "6/C06", "On top of the machine refinement of C07 the loop invariants of all three traversals carry the set-level facts: the listing "
         "contains the start vertex, has no repetition, every listed vertex is reachable (ReachFrom = reflexive-transitive closure of 'w in "
         "neighbors(x) and w in the universe'), and the listing is closed under in-universe neighbours - proved on the code for every graph, "
         "universe (or None), direction / unknown-handling / ff_via setting; closedness + containing start give Reach <= listing by the Lean lemma "
         "reach_subset_of_closed, hence set equality and agreement of the three traversals. Generator and list forms: the list form is proved to "
         "return a fresh list holding exactly the yielded sequence; ff_result: output = filter(listing). NOT proved: termination (no variant; "
         "RecursionError of dft_recursive beyond the interpreter limit is outside the model, A2)."),
 "C07": ("proof", "6/C07", "Each traversal (generator and list form) is proved to refine the canonical machine of the statement, written as a recurrence "
         "whose defining equations are unfolded by the loop invariants: BFS A(k+1) = A(k) ++ new-in-universe-neighbours-of A(k)[k] (FIFO, mark on "
         "enqueue), explicit-stack DFS (pop last, mark on pop, push all neighbours in order), recursive pre-order. The listing is therefore a "
         "deterministic function of link order and parameters. The shortest-distance sentence is a theorem about the BFS recurrence, not about code "
         "(Lean, or reported as derived-not-machine-checked)."),
 "C08": ("proof", "6/C08", "Each search is proved to drive the same canonical machine as its traversal and to stop at the first listed vertex that matches "
         "(has the attribute with a value == the sought one): invariant 'nothing listed so far matches'; the start vertex is eligible; truthiness of "
         "vertices is an unconstrained predicate so any dependence on it fails; None only when the machine ran to completion without a match."),
 "C09": ("proof", "6/C09", "find_links is verified against the membership predicate `qual` of the statement (result set = {l in links(a) : joins a,b and qualifies}); "
         "the agreement with neighbors() is proved pointwise per link (qualifies <=> contributes [b]) and lifted to sizes by the Lean counting lemma; "
         "'empty after unlink, other pairs untouched' is a lemma over unlink's contract."),
 "C10": ("other", "12.12/C10", "Two labelled parts; the property as a whole is NOT proved. (1) PROVED by contracts on the real code: the mechanism C10 is "
         "anchored in. _NonrecursivePickler.lazywrite / lazymemoize / save are verified against the three cases of `applyTok` (perform at once "
         "while nothing is pending, otherwise queue in stream order; save never performs anything), and dump is verified - two nested loop "
         "invariants, break and re-queueing of the tail included - against: the real writes and memoisations it performs are the protocol header, "
         "then pk_exec([save obj]) = the depth-first, left-to-right execution a recursive pickler performs, then STOP, and nothing is left pending. "
         "dill.Pickler.save is NOT verified: it enters as an assumed contract (a token list fed in order to write / memoize / save, touching the queue "
         "only through them); the scheduler lemma exec_apply that connects applyTok with pk_exec is checked by Lean (lean/Scheduler.lean). Syntactic "
         "layout conditions (A13): __init__ binds lazywrites / write / realwrite, nothing else rebinds them, realsave is called from dump only (so "
         "Python's stack depth does not grow with the graph: the drain loop is the only caller of dill's save), queue items are plain records that "
         "are only appended. The cache plumbing of Vertex is verified against contracts that need no statistics entry (a copy un-pickled "
         "into a fresh interpreter is usable with caching on). (2) BOUNDED stand-in, every run, never counted as proved: the round trip itself "
         "(byte stream -> isomorphic detached copy) depends on dill / pickle internals outside the verifier's reach; the explorer operations "
         "pickle_roundtrip / pickle_deep dump pool graphs (cycles, self-loops, parallel edges, nested universes, subclasses, runtime attributes, "
         "shared empty containers, warm caches) with protocols 0-5, load with pickle and dill, compare classes, uids, attributes, ordered links / "
         "ends / members / universes, sharing and detachment, then query and mutate the copy with caching on after the class-level statistics "
         "were forgotten, and pickle chains of 700-1000 vertices with 80 frames of head room. Loading in a real second process is not exercised."),
 "C11": ("proof", "12.5/C11", "load_adj_dict is verified (both nested loops, all paths) against a contract that gives the whole post-heap: the result is a "
         "new universe whose members are Dedup(mention order) (each key, then its row), every mentioned vertex gets exactly that one more universe, "
         "and there is a ghost sequence C of created links (creation order) - distinct, new (nothing that existed refers to them), of exactly the "
         "requested class, in no universe - with map(first end, C) = the keys repeated once per entry of their rows and map(second end, C) = the "
         "concatenated rows, i.e. exactly one link per listed pair, key -> value, in input order; every vertex's link list is its old list followed by "
         "the links of C incident to it in creation order; ends of pre-existing links, universes of unmentioned objects, uids and attributes "
         "of old objects are unchanged. Reading back through neighbors()/find_links is then their own contracts (C04/C09) applied to this heap. "
         "load_adj_matrix is verified the same way (four loops: validation, registration, rows, cells; matrix = list of row objects with "
         "arbitrary cells whose truthiness is an unconstrained predicate, side array indexed by the enumerate indices with the IndexError paths "
         "proved infeasible): ValueError exactly when the side array has another length than the matrix or some row is not of that length, with the "
         "heap unchanged (no universe created, nothing touched); otherwise members = Dedup(side array) and one link per truthy cell, row vertex -> "
         "column vertex, in row-major order. Both builders are additionally compared with the statement through the public API by explorer "
         "operations (thorough tier, and whenever an obligation fails)."),
 "C20": ("proof", "12.14", "Three parts. PROVED (heap executor): the materialisation step - load_adj_dict's contract (see C11) gives, for every adjacency "
         "dict, a universe whose members are exactly the mentioned vertices and in which every created link has exactly the requested class and "
         "both ends among the members. PROVED (scalar verification conditions generated from the AST of randgraph on every run, pyvc/arith.py, z3 over "
         "mixed integer / real arithmetic, no bound on count, index, draw or connectivity): on every path through the body of `for i in range(count)` "
         "the divisor of the default connectivity is non-zero, random.randint gets a non-empty range, 0 <= k <= len(verts) at random.sample (so "
         "nothing raises), ensurelink => k >= 1 (first-end guarantee through load_adj_dict's contract), every path stores adj[verts[i]] exactly once "
         "(no vertex skipped: `count` members), len(verts) = count with the vertex at index i carrying i, and the function returns "
         "load_adj_dict(adj, linktype=edge). A refuted scalar obligation comes with a model (count, i, draw, connectivity, ensurelink) that is "
         "replayed against the real function with random.randint forced to the draw. BOUNDED, not proved: what these conditions ASSUME about the "
         "random module (randint in range, sample returns k distinct elements of the population) and float = real arithmetic, plus "
         "reproducibility under re-seeding (a two-run property): randgraph keeps a TRUSTED contract in the heap executor and the explorer operation "
         "`randgraph` (counts 1..7, four edge types, five connectivity settings, both ensurelink values, seeds drawn from 10^6) runs on every check. "
         "A body outside the scalar subset (sets, helper calls, ...) is undecided there and falls back to that bounded stand-in."),
 "C12": ("proof", "6/C12", "(1) ownership discipline of the private containers, checked syntactically on every occurrence in the tree; (2) every read "
         "accessor / query is verified against a contract whose result is a tuple value or a container allocated by the call (Vertex.links, "
         "Link.vertices, Universe.vertices, BaseObject.universes, neighbors() - separate lists for the caller and for the memo -, find_links, "
         "bft/dft_*), so mutating it cannot reach the graph or the memo; (3) constructors and builders take iterables and are verified to store "
         "only de-duplicated copies (value semantics of the owned fields). UniverseLaws: the constructor is verified to store a DEEP copy of "
         "edge_whitelist (a new mapping with the argument's content that consists only of dict objects which did not exist before - no dict, "
         "outer or inner, shared with the caller) and the edge_whitelist getter to hand out an immutable snapshot without mutable parts; nested "
         "mappings are modelled by a content value and the set of dict objects they consist of, the three shapes the code can use "
         "(MappingProxyType snapshot, per-entry dict() deep copy, dict() shallow copy) have an encoded semantics."),
 "C13": ("proof", "6/C13", "(a) the contracts of neighbors, find_links and of every accessor are proved read-only on all outcomes including the "
         "abnormal ones (a filter raising at any link: loop invariant, so at the k-th invocation for every k; memo written only after the scan); "
         "(b) make_pyvis_net is verified on all 66 paths (rvfunc / refunc / pyvis raising anywhere) against 'attribute sets and values unchanged, "
         "temporary index attribute removed'; (c) traversals, searches, basic_render and the PlantUML helpers pass a syntactic effect analysis: no "
         "attribute store/delete, in-place operations only on containers they allocate, every callee read-only by (a) or a user callback (A7). "
         "nrpickler.dumps / pyvis internals: assumed not to write to edgegraph objects (A10). What a callback raises is of an arbitrary class: the "
         "executor lets every specific `except` clause take it or not (both continuations verified; in the tree: `except AssertionError` around "
         "refunc in make_pyvis_net), and the explorer injects faults of six classes (plain, StopIteration, AttributeError, AssertionError, "
         "KeyError, IndexError) into queries and renderers when it stands in for a function outside the subset (DESIGN 12.14)."),
 "C14": ("proof", "12.11/C14", "All six functions of the PlantUML source renderer are verified on every path against contracts taken from the statement, "
         "over option tables and graphs that are symbolic: _resolve_options returns the entry of the FIRST class of clas.__mro__ that is a key of the "
         "table (loop invariant over the recursively defined least index; ValueError exactly when no class of the MRO is configured) and changes "
         "nothing but the normalisation of that entry's show_attrs; _vertex_title is hex(id(v)) for '$id', else title_format.format over the shown "
         "attributes; _one_vert_to_puml yields 'type title <<ClassName>> {' + one line per shown attribute + '}' from the nearest configured class "
         "(inner loop invariant over the attribute names), or what user_render_func returns; _one_link_to_puml yields title(v1) + ' ' + v1side + '--' "
         "+ v2side + ' ' + title(v2) with each title under the options of that vertex's own class and the arrow ends of the nearest configured class "
         "of the link; render_to_plantuml_src returns None for an empty universe and otherwise ''.join of ['@startuml'] ++ skinparam lines ++ "
         "[note] ++ [DECL(v) for v in members, in order] ++ [REL(l) for l in p] ++ ['@enduml'] where p is a duplicate-free enumeration (ghost; set "
         "iteration order, A9) of exactly the links listed by some member - three loop invariants, the middle one over options['skinparams']. "
         "Hence one declaration per member (members are duplicate-free by I2), exactly one relation line per collected link - in particular per "
         "internal link (I1 + Lean inc_of_mem) - in v1 -> v2 orientation, and no line without a link. The titles in declarations and relation "
         "lines are the same term although the option dictionaries are mutated in between (show_attrs is compiled on first use): proved via "
         "the invariant 'every option value is as at entry or the normal form of the entry value'. NOT modelled (uninterpreted functions of "
         "exactly the values the statement lets them depend on): dir(), re matching, str.format, str() of option values; the per-object skinparam "
         "block is an arbitrary string sequence in the specification. Domain: option tables that cover the graph's classes with the keys the "
         "renderer reads, two-ended links between vertices, user callables that return. Character-level unambiguity of the joined text (a title "
         "imitating a relation line) is outside the contract. Every failing obligation is searched for a failing input by the explorer "
         "operation plantuml_src, which parses the real output back (declarations, relation lines) and compares it with the graph."),
 "C15": ("proof", "12.5/C15", "make_pyvis_net is verified on all paths against a functional contract taken from the statement, over an ASSUMED contract of "
         "the third-party class pyvis.network.Network (add_node appends unless the id exists; add_edge raises AssertionError unless both ids are nodes, "
         "skips a pair already joined in an undirected network, otherwise appends (from, to, arrow = directed); listed as an assumption and compared "
         "with the real pyvis by the explorer on every thorough run and whenever an obligation fails). Proved: node ids are 0..n-1 in universe order "
         "with labels rvfunc(v) (or hex(id(v))); there is a ghost sequence GL of distinct links - each with both ends members, listed at its first end - "
         "such that the from / to / arrow columns are the images of GL under (id of v1, id of v2, is-DirectedEdge): every edge stands for a real link "
         "between the two members it joins, arrowed exactly for directed links and in v1 -> v2 orientation, one record per link; conversely every link "
         "from a member to a member (self-loops included) has a record, or is not a DirectedEdge and its pair of nodes is already joined; nothing is "
         "produced for vertices outside the universe; attributes are as before (temporary marker removed). Assumes callbacks that return and "
         "two-ended links with vertex ends at members."),
 "C16": ("proof", "6/C16", "basic_render is verified against a string-level specification (z3 strings): None for an empty universe, otherwise "
         "'\\n'.join of one line per member in universe order (or sorted by the key), line(v) = r(v) ++ ' -> ' ++ ', '.join(r(w) for w in FORWARD "
         "neighbours of v in neighbors() order (or sorted)), r = rfunc or repr. Inner-loop invariant: line = r(v) ++ ' -> ' ++ trailing-comma join, "
         "with trailing = canonical join ++ ', ' for a non-empty prefix, so the final strip is exact and a vertex without neighbours keeps its arrow. "
         "sorted(key=) is an opaque function shared by code and spec (A9)."),
 "C17": ("proof", "6/C17", "The registry is a heap map (metaclass object, (class, key)) -> instance. _SemiSingleton.__call__ (closure of "
         "semi_singleton_metaclass), the default key function, add_mapping, drop_semi_singleton_mapping and "
         "check_semi_singleton_entry_exists are verified against map contracts (live key: that instance, no __init__, map unchanged; new key: a "
         "fresh instance of exactly the called class, __init__ once; check creates nothing). Lemmas over the contracts: every live mapping "
         "holds an instance of the class in its key (W17), entries keyed by another class are untouched by every operation, the default key "
         "(args, sorted-kwargs json) is equal iff its components are (json injectivity modulo keyword order is assumption A9). "
         "get_all_semi_singleton_instances (generator: yields exactly the instances under the live keys of the class, over a ghost enumeration "
         "of the registry) and clear_semi_singleton (removes exactly that class's mappings; loop invariant over the collected keys) are verified "
         "as well - no trusted contract is left for this property."),
 "C18": ("proof", "6/C18", "tmap: class -> instance. TrueSingleton.__call__ and clear_true_singleton are verified against the map contracts (present: that "
         "instance, nothing changes, __init__ not run; absent: type.__call__ allocates an instance of exactly cls, __init__ once with the call's "
         "arguments (ghost init_count / init_args), map extended at cls only; a raising __init__ registers nothing; targeted clear removes one "
         "entry, harmless when absent; global clear empties the map). Lemmas: a registered instance is of its class and initialised once; "
         "operations on one class leave every other class's entry in place (subclasses are distinct keys)."),
 "C19": ("proof", "6/C19", "Both setters are verified (mutually, each against the other's contract) against a total reference model of "
         "'bind'; I19 is proved preserved by the setters and Universe.__init__; 'every assignment succeeds' = the contracts have no "
         "exceptional outcome and every implicit AttributeError/IndexError path is proved infeasible; rule getters return the stored "
         "constructor values; UniverseLaws.__init__ and the edge_whitelist getter are verified too (deep copy in, immutable snapshot of the "
         "same content out; ValueError with nothing observable changed for a malformed whitelist) - no trusted contract is left for this property."),
}
NA = {
}
TECH = {"C10": "contract-based deductive verification of the work-list scheduler (VCs from the repo's AST, z3; scheduler lemma in Lean) over an assumed "
               "contract of dill's save + labelled bounded round-trip stand-in (exploration) for the part no contract can reach"}
checks = []
for pid, (cat, ref, text) in CLAIMED.items():
    checks.append({
        "property_id": pid,
        "quick_cmd": f"python3-vt -m pyvc check {pid} --tier quick",
        "thorough_cmd": f"python3-vt -m pyvc check {pid} --tier thorough",
        "evidence_file": f"/verif/evidence/{pid}.json",
        "replay_cmd_template": "python3-vt {path}",
        "engine": "pyvc",
        "level_claimed": {"category": cat, "text": text, "design_ref": ref},
        "level_note": BASE_NOTE,
        "technique": TECH.get(pid, "contract-based deductive verification: VCs generated from the repo's AST against sidecar contracts + loop invariants, discharged by z3/cvc5"),
    })
m = {
 "version": 1,
 "setup_cmd": "python3-vt -m pyvc setup",
 "hooks": {"guard": "EDGEGRAPH_VERIF", "enable": "no hooks: contracts are sidecar files under /verif/contracts; /repo is read as-is",
           "baseline_off_cmd": "cd /repo && /venv/bin/python -m pytest -ra -q -p no:cacheprovider --timeout=900 --continue-on-collection-errors",
           "source_commits": [], "add_only": True},
 "engines": [{"name": "pyvc", "path": "/verif/pyvc", "serves_properties": sorted(CLAIMED),
              "kind_free_text": "own verification-condition generator for Python (ast -> z3/cvc5) with sidecar contracts; modular, path-wise symbolic execution, explicit-update heap, tool-side quantifier instantiation"}],
 "checks": checks,
 "notes": "16 'fix:' commits in /repo repair genuine defects found while deriving the contracts; two genuine defects of nrpickler (C10) are left in the tree and listed as known findings - printed as KNOWN-FINDING by the C10 check, which exits 0 on them and reports any other outcome of their probes as a violation (see /verif/known_findings.json and DESIGN.md sections 8, 12.9, 12.12). All 20 properties are claimed; C10 at level 'other' (proved scheduler + labelled bounded round trip).",
 "not_applicable": [{"property_id": p["id"], "reason": NA[p["id"]]} for p in props if p["id"] not in CLAIMED],
}
json.dump(m, open("/verif/MANIFEST.json", "w"), indent=1)
print("claimed", sorted(CLAIMED))
