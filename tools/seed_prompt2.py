"""Second-round seeding prompt: same as seed_prompt.py but with its own worktree / output directory and change numbers 3, 4."""
import sys, subprocess
pid = sys.argv[1]
txt = subprocess.run([sys.executable, "/verif/tools/seed_prompt.py", pid], capture_output=True, text=True).stdout
txt = txt.replace(f"/tmp/wt/{pid}", f"/tmp/wt/{pid}b").replace(f"/tmp/seedout/{pid}/", f"/tmp/seedout/{pid}b/")
txt = txt.replace("For each change k in (1, 2)", "For each change k in (3, 4)")
print(txt)
